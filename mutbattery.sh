#!/bin/bash
# mutbattery.sh <batch.tsv> [parallel]: run a battery of one-off mutations (name, props, file, sed, description —
# tab separated) against the named checks using the in-memory overlay (/repo is never modified).
# Prints one line per (mutation, property): caught / MISSED / NOCOMPILE / NOCHANGE. For testing the checker.
batch=$1; par=${2:-3}
. /verif/env.sh
one() {
  IFS=$'\t' read -r name props f expr desc <<< "$1"
  t=$(mktemp -d /tmp/mutb.XXXXXX); mkdir -p $t/a/$(dirname $f) $t/b/$(dirname $f)
  cp /repo/$f $t/a/$f; sed "$expr" /repo/$f > $t/b/$f
  (cd $t && diff -u a/$f b/$f > m.diff)
  if [ ! -s $t/m.diff ]; then echo "$name	-	NOCHANGE	$desc"; rm -rf $t; return; fi
  for p in ${props//,/ }; do
    out=$(/verif/bin/ibcverif check $p --patch $t/m.diff --evidence-dir $t/ev 2>&1); rc=$?
    if [ $rc -ne 0 ] && [ $rc -ne 1 ]; then r="ERROR rc=$rc $(echo "$out" | tail -1 | cut -c1-120)"
    elif echo "$out" | grep -q "cannot load/type-check"; then r=NOCOMPILE
    elif echo "$out" | grep -q "^VIOLATION"; then r="caught [$(echo "$out" | grep -m1 '^REFUTED\|^UNDECIDED' | cut -d' ' -f2 | cut -c1-90)]"
    else r=MISSED; fi
    echo "$name	$p	$r	$desc"
  done
  rm -rf $t
}
export -f one
grep -v '^#' "$batch" | grep . | tr '\n' '\0' | xargs -0 -P $par -I{} bash -c 'one "$@"' _ {}
