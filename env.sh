export GOFLAGS=-mod=mod GOPROXY=off GOSUMDB=off GOTOOLCHAIN=local
export PATH=/opt/veriftools/go1.26.8/bin:$PATH
unset GOWORK
