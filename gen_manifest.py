#!/usr/bin/env python3
"""Regenerate MANIFEST.json from the checker's registry (bin/ibcverif manifest) and not_applicable.json."""
import json, subprocess
props=[json.loads(l) for l in open('properties.jsonl')]
checks=json.loads(subprocess.check_output(['bin/ibcverif','manifest']))
claimed={c['property_id'] for c in checks}
na=json.load(open('not_applicable.json'))
m={"version":1,
 "setup_cmd":"./setup.sh",
 "hooks":{"guard":"verif","enable":"none: the static analysis reads the default build of /repo; no hooks were added","baseline_off_cmd":json.load(open('/root/.vp/BASELINE.json'))["cmd"],"source_commits":[],"add_only":True},
 "engines":[{"name":"ibcverif","path":"checker","serves_properties":sorted(claimed),"kind_free_text":"static analysis: go/packages + go/ssa abstract interpreter (facts/effects per path class, inlined callees), key-layout analysis, writer/caller tables, lints"}],
 "checks":checks,
 "notes":"All checks are static (no ibc-go code is executed). See DESIGN.md.",
 "not_applicable":[{"property_id":p["id"],"reason":na.get(p["id"],"check not implemented yet (work in progress); see DESIGN.md")} for p in props if p["id"] not in claimed]}
json.dump(m,open('MANIFEST.json','w'),indent=1)
print(len(checks),"checks,",len(m["not_applicable"]),"not applicable")
