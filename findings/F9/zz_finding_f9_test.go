package tendermint_test

import (
	"testing"
	"time"

	"github.com/stretchr/testify/require"

	clienttypes "github.com/cosmos/ibc-go/v11/modules/core/02-client/types"
	commitmenttypes "github.com/cosmos/ibc-go/v11/modules/core/23-commitment/types"
	ibctm "github.com/cosmos/ibc-go/v11/modules/light-clients/07-tendermint"
)

// F9: stateless validation of MsgCreateClient panics for a tendermint client state whose chain id is in
// revision format with a numeric suffix that does not fit in uint64 (the chain id is within the 50 character limit).
func TestFindingF9StatelessValidationMustNotPanic(t *testing.T) {
	chainID := "chain-99999999999999999999999" // 29 characters, matches IsRevisionFormat
	require.True(t, clienttypes.IsRevisionFormat(chainID))

	cs := ibctm.NewClientState(chainID, ibctm.DefaultTrustLevel, time.Hour*24*7*2, time.Hour*24*7*3, time.Second*10,
		clienttypes.NewHeight(0, 10), commitmenttypes.GetSDKSpecs(), []string{"upgrade", "upgradedIBCState"})
	consState := ibctm.NewConsensusState(time.Now(), commitmenttypes.NewMerkleRoot([]byte("hash")), make([]byte, 32))
	msg, err := clienttypes.NewMsgCreateClient(cs, consState, "cosmos1qql8ag4cluz6r4dz28p3w00dnc9w8ueulg2gmc")
	require.NoError(t, err)

	require.NotPanics(t, func() { _ = msg.ValidateBasic() }, "MsgCreateClient.ValidateBasic panicked")
	require.NotPanics(t, func() { _ = clienttypes.ParseChainID(chainID) }, "ParseChainID panicked")
}
