// SPDX-License-Identifier: Apache-2.0

package ibc_test

import (
	"testing"
	"time"

	"github.com/stretchr/testify/require"

	"github.com/cosmos/cosmos-sdk/codec"

	transfertypes "github.com/cosmos/ibc-go/v11/modules/apps/transfer/types"
	ibc "github.com/cosmos/ibc-go/v11/modules/core"
	clienttypes "github.com/cosmos/ibc-go/v11/modules/core/02-client/types"
	clientv2types "github.com/cosmos/ibc-go/v11/modules/core/02-client/v2/types"
	channeltypes "github.com/cosmos/ibc-go/v11/modules/core/04-channel/types"
	channelv2types "github.com/cosmos/ibc-go/v11/modules/core/04-channel/v2/types"
	ibctesting "github.com/cosmos/ibc-go/v11/testing"
	"github.com/cosmos/ibc-go/v11/testing/simapp"
)

// TestFindingF10 documents what happens to the IBC v2 "alias" state of an
// UNORDERED v1 channel and to the per-client v2 Config / client creator when
// the IBC core module state is exported with ibc.ExportGenesis and imported
// into a fresh application with ibc.InitGenesis.
//
// Observed on the unmodified code (all asserted below):
//
//	alias entry channelID -> clientID ................ LOST
//	v2 counterparty stored under channelID ........... LOST
//	v2 packet commitment keyed by channelID .......... LOST
//	v2 next sequence send under channelID ............ SURVIVES (only because the
//	    v1 channel genesis exports SendSequences and v1/v2 share the same store key)
//	per-client v2 Config (relayer allow list) ........ SURVIVES (exported as 02-client
//	    "clients metadata" because it lives inside the client prefix store)
//	client creator ................................... SURVIVES (same mechanism)
//	second export == first export .................... true (the lost state is in neither)
func TestFindingF10(t *testing.T) {
	coordinator := ibctesting.NewCoordinator(t, 2)
	chainA := coordinator.GetChain(ibctesting.GetChainID(1))
	chainB := coordinator.GetChain(ibctesting.GetChainID(2))

	// ------------------------------------------------------------------
	// 1. fully open UNORDERED v1 transfer channel => alias info on chain A
	// ------------------------------------------------------------------
	path := ibctesting.NewTransferPath(chainA, chainB)
	path.Setup()

	channelID := path.EndpointA.ChannelID
	portID := path.EndpointA.ChannelConfig.PortID
	tmClientID := path.EndpointA.ClientID

	keeperA := chainA.App.GetIBCKeeper()

	ch, found := keeperA.ChannelKeeper.GetChannel(chainA.GetContext(), portID, channelID)
	require.True(t, found)
	require.Equal(t, channeltypes.OPEN, ch.State)
	require.Equal(t, channeltypes.UNORDERED, ch.Ordering)

	aliasBefore, found := keeperA.ChannelKeeperV2.GetClientForAlias(chainA.GetContext(), channelID)
	require.True(t, found, "alias must exist on the live chain")
	require.Equal(t, tmClientID, aliasBefore)

	cpBefore, found := keeperA.ClientV2Keeper.GetClientCounterparty(chainA.GetContext(), channelID)
	require.True(t, found, "v2 counterparty under the channel id must exist on the live chain")
	require.Equal(t, path.EndpointB.ChannelID, cpBefore.ClientId)

	seqInitial, found := keeperA.ChannelKeeperV2.GetNextSequenceSend(chainA.GetContext(), channelID)
	require.True(t, found)
	require.Equal(t, uint64(1), seqInitial)

	// send one IBC v2 packet over the alias (v2 commitment keyed by the channel id)
	sender := chainA.SenderAccount.GetAddress()
	receiver := chainB.SenderAccount.GetAddress()
	timeoutTimestamp := uint64(chainB.GetContext().BlockTime().Add(time.Hour).Unix())
	msgTransferAlias := transfertypes.NewMsgTransferAliased(
		portID, channelID,
		ibctesting.TestCoin, sender.String(), receiver.String(),
		clienttypes.Height{}, timeoutTimestamp, "",
	)
	res, err := chainA.SendMsgs(msgTransferAlias)
	require.NoError(t, err, "v2 send over the alias works on the live chain")
	packetV2, err := ibctesting.ParseV2PacketFromEvents(res.Events)
	require.NoError(t, err)
	require.Equal(t, channelID, packetV2.SourceClient)
	require.Equal(t, path.EndpointB.ChannelID, packetV2.DestinationClient)
	require.Equal(t, uint64(1), packetV2.Sequence)

	commitmentBefore := keeperA.ChannelKeeperV2.GetPacketCommitment(chainA.GetContext(), channelID, packetV2.Sequence)
	require.NotEmpty(t, commitmentBefore, "in-flight v2 commitment keyed by the channel id exists on the live chain")
	require.Equal(t, channelv2types.CommitPacket(packetV2), commitmentBefore)

	seqBefore, found := keeperA.ChannelKeeperV2.GetNextSequenceSend(chainA.GetContext(), channelID)
	require.True(t, found)
	require.Equal(t, uint64(2), seqBefore)

	// ------------------------------------------------------------------
	// 2. relayer allow list + creator for the tendermint client on chain A
	// ------------------------------------------------------------------
	creatorBefore := keeperA.ClientKeeper.GetClientCreator(chainA.GetContext(), tmClientID)
	require.NotNil(t, creatorBefore)
	require.True(t, creatorBefore.Equals(sender), "creator is the account that created the client")

	allowed := chainA.SenderAccounts[0].SenderAccount.GetAddress()
	notAllowed := chainA.SenderAccounts[1].SenderAccount.GetAddress()
	require.False(t, allowed.Equals(notAllowed))

	configBefore := clientv2types.NewConfig(allowed.String())
	_, err = chainA.SendMsgs(clientv2types.NewMsgUpdateClientConfig(tmClientID, sender.String(), configBefore))
	require.NoError(t, err)
	require.Equal(t, configBefore, keeperA.ClientV2Keeper.GetConfig(chainA.GetContext(), tmClientID))
	require.False(t, keeperA.ClientV2Keeper.GetConfig(chainA.GetContext(), tmClientID).IsAllowedRelayer(notAllowed))

	// ------------------------------------------------------------------
	// 3. export -> import into a brand new app -> export again
	// ------------------------------------------------------------------
	ctxA := chainA.GetContext()
	gs1 := ibc.ExportGenesis(ctxA, *keeperA)
	require.NoError(t, gs1.Validate(), "exported genesis is considered valid")

	cdc := codec.NewProtoCodec(chainA.GetSimApp().InterfaceRegistry())
	gs1JSON := string(cdc.MustMarshalJSON(gs1))

	// The first export already lacks everything keyed by the channel id in the v2 submodules:
	// 02-client/v2 and 04-channel/v2 only enumerate GetAllGenesisClients (light client ids).
	require.Empty(t, gs1.ClientV2Genesis.CounterpartyInfos, "no counterparty info exported for the aliased channel id")
	require.Empty(t, gs1.ChannelV2Genesis.Commitments, "in-flight v2 commitment keyed by the channel id is not exported")
	require.Empty(t, gs1.ChannelV2Genesis.SendSequences, "v2 send sequence under the channel id is not exported by 04-channel/v2")
	require.Empty(t, gs1.ChannelGenesis.Commitments, "the v2 commitment is not exported through the v1 channel genesis either")
	// ... but the v1 channel genesis exports the send sequence, which shares the v2 store key.
	require.Contains(t, gs1.ChannelGenesis.SendSequences, channeltypes.NewPacketSequence(portID, channelID, seqBefore))

	// Config and creator live in the client prefix store ("clients/<clientID>/config|creator") and
	// are therefore swept up by the generic 02-client "clients metadata" export for real light clients.
	// The counterparty stored under "clients/<channelID>/counterparty" is NOT, because metadata is only
	// emitted for ids that have a client state.
	mdKeys := map[string][]string{}
	for _, md := range gs1.ClientGenesis.ClientsMetadata {
		for _, kv := range md.ClientMetadata {
			mdKeys[md.ClientId] = append(mdKeys[md.ClientId], string(kv.Key))
		}
	}
	require.Contains(t, mdKeys[tmClientID], string(clientv2types.ConfigKey()))
	require.Contains(t, mdKeys[tmClientID], string(clienttypes.CreatorKey()))
	require.NotContains(t, mdKeys, channelID, "no metadata exported for the alias channel id")

	freshApp := simapp.Setup(t, false)
	freshCtx := freshApp.NewContext(false)
	freshKeeper := freshApp.IBCKeeper

	// the fresh app really is empty
	_, found = freshKeeper.ChannelKeeper.GetChannel(freshCtx, portID, channelID)
	require.False(t, found)
	_, found = freshKeeper.ClientKeeper.GetClientState(freshCtx, tmClientID)
	require.False(t, found)

	require.NotPanics(t, func() {
		ibc.InitGenesis(freshCtx, *freshKeeper, gs1)
	})

	gs2 := ibc.ExportGenesis(freshCtx, *freshKeeper)
	gs2JSON := string(cdc.MustMarshalJSON(gs2))

	// ------------------------------------------------------------------
	// 4. what survived?
	// ------------------------------------------------------------------

	// the v1 channel and the light client are imported fine
	ch2, found := freshKeeper.ChannelKeeper.GetChannel(freshCtx, portID, channelID)
	require.True(t, found)
	require.Equal(t, ch, ch2, "v1 channel is imported as OPEN / UNORDERED")
	_, found = freshKeeper.ClientKeeper.GetClientState(freshCtx, tmClientID)
	require.True(t, found)

	// H1: alias entry -> LOST
	aliasAfter, aliasFound := freshKeeper.ChannelKeeperV2.GetClientForAlias(freshCtx, channelID)
	require.False(t, aliasFound, "alias entry does not survive export/import")
	require.Empty(t, aliasAfter)

	// H1: v2 counterparty stored under the channel id -> LOST
	cpAfter, cpFound := freshKeeper.ClientV2Keeper.GetClientCounterparty(freshCtx, channelID)
	require.False(t, cpFound, "v2 counterparty under the channel id does not survive export/import")
	require.Equal(t, clientv2types.CounterpartyInfo{}, cpAfter)

	// H1: v2 commitment keyed by the channel id -> LOST
	commitmentAfter := freshKeeper.ChannelKeeperV2.GetPacketCommitment(freshCtx, channelID, packetV2.Sequence)
	require.Empty(t, commitmentAfter, "in-flight v2 commitment does not survive export/import")

	// H1 (refuted part): v2 next sequence send under the channel id -> SURVIVES,
	// restored through the v1 channel genesis (shared NextSequenceSendKey(channelID)).
	seqAfter, seqFound := freshKeeper.ChannelKeeperV2.GetNextSequenceSend(freshCtx, channelID)
	require.True(t, seqFound, "next sequence send survives via the v1 channel genesis")
	require.Equal(t, seqBefore, seqAfter)

	// H1 consequences on the imported state:
	// new v2 sends over the (still OPEN) v1 channel fail ...
	_, err = freshKeeper.ChannelKeeperV2.SendPacket(freshCtx, channelv2types.NewMsgSendPacket(channelID, timeoutTimestamp, sender.String(), packetV2.Payloads...))
	require.ErrorIs(t, err, clientv2types.ErrCounterpartyNotFound)
	// ... and the in-flight v2 packet can neither be timed out nor acknowledged.
	_, err = freshKeeper.ChannelKeeperV2.Timeout(freshCtx, channelv2types.NewMsgTimeout(packetV2, []byte("proof"), clienttypes.NewHeight(1, 100), sender.String()))
	require.ErrorIs(t, err, clientv2types.ErrCounterpartyNotFound)
	ack := channelv2types.NewAcknowledgement([]byte("ack"))
	_, err = freshKeeper.ChannelKeeperV2.Acknowledgement(freshCtx, channelv2types.NewMsgAcknowledgement(packetV2, ack, []byte("proof"), clienttypes.NewHeight(1, 100), sender.String()))
	require.ErrorIs(t, err, clientv2types.ErrCounterpartyNotFound)

	// H2 (refuted): Config -> SURVIVES (via 02-client clients metadata)
	configAfter := freshKeeper.ClientV2Keeper.GetConfig(freshCtx, tmClientID)
	require.Equal(t, configBefore, configAfter, "relayer allow list survives export/import")
	require.True(t, configAfter.IsAllowedRelayer(allowed))
	require.False(t, configAfter.IsAllowedRelayer(notAllowed), "client is NOT relayable by anyone after import")

	// H2 (refuted): creator -> SURVIVES (via 02-client clients metadata)
	creatorAfter := freshKeeper.ClientKeeper.GetClientCreator(freshCtx, tmClientID)
	require.True(t, creatorBefore.Equals(creatorAfter), "client creator survives export/import")

	// second export equals the first: the lost alias state is contained in neither of them,
	// so an export/import/export round trip does not reveal the loss.
	require.Equal(t, gs1JSON, gs2JSON)
}
