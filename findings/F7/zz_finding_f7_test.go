package keeper_test

import (
	"strings"

	sdkmath "cosmossdk.io/math"

	sdk "github.com/cosmos/cosmos-sdk/types"
	banktestutil "github.com/cosmos/cosmos-sdk/x/bank/testutil"

	abci "github.com/cometbft/cometbft/abci/types"

	"github.com/cosmos/ibc-go/v11/modules/apps/transfer/types"
	clienttypes "github.com/cosmos/ibc-go/v11/modules/core/02-client/types"
	channeltypes "github.com/cosmos/ibc-go/v11/modules/core/04-channel/types"
	ibctesting "github.com/cosmos/ibc-go/v11/testing"
)

// f7Result records what was observed for a single native denom round trip A -> B -> A.
type f7Result struct {
	nativeDenom string

	// what chain B made of the v1 packet data denom path
	parsedOnB    types.Denom
	voucherOnB   string // ibc/<hash> denom minted on B
	voucherAfter sdkmath.Int

	// the return packet
	returnPath       string // denom path carried by the B -> A packet
	returnAckSuccess bool
	returnAckError   string // error text contained in the acknowledgement (redacted by core)
	returnEventError string // full error text from the (ibccallbackerror-)fungible_token_packet event

	receiverNativeOnA sdkmath.Int
	escrowNativeOnA   sdkmath.Int
	voucherOnBFinal   sdkmath.Int
}

// f7FindEventAttr looks for an attribute on any event whose type ends with the given suffix.
func f7FindEventAttr(events []abci.Event, typeSuffix, key string) (string, bool) {
	for _, ev := range events {
		if !strings.HasSuffix(ev.Type, typeSuffix) {
			continue
		}
		for _, attr := range ev.Attributes {
			if attr.Key == key || strings.HasSuffix(attr.Key, key) {
				return attr.Value, true
			}
		}
	}
	return "", false
}

func (s *KeeperTestSuite) f7RoundTrip(nativeDenom string) f7Result {
	s.SetupTest()

	path := ibctesting.NewTransferPath(s.chainA, s.chainB).DisableUniqueChannelIDs()
	path.Setup()

	// the hypothesis is about (transfer, channel-0) on both ends
	s.Require().Equal("channel-0", path.EndpointA.ChannelID)
	s.Require().Equal("channel-0", path.EndpointB.ChannelID)
	s.Require().Equal(types.V1, path.EndpointA.GetChannel().Version)

	amount := sdkmath.NewInt(1000)
	nativeCoin := sdk.NewCoin(nativeDenom, amount)
	s.Require().NoError(sdk.ValidateDenom(nativeDenom))

	senderA := s.chainA.SenderAccount.GetAddress()
	holderB := s.chainB.SenderAccount.GetAddress()
	// a fresh account on A receives the returned tokens so that its balance is unambiguous
	receiverA := sdk.AccAddress([]byte("f7-receiver-on-A-acc"))
	escrowA := types.GetEscrowAddress(path.EndpointA.ChannelConfig.PortID, path.EndpointA.ChannelID)

	res := f7Result{nativeDenom: nativeDenom}

	// 1. mint the native denom on A (the denom is native: it has no entry in the transfer denom store)
	s.Require().NoError(banktestutil.FundAccount(s.chainA.GetContext(), s.chainA.GetSimApp().BankKeeper, senderA, sdk.NewCoins(nativeCoin)))
	s.Require().Equal(amount, s.chainA.GetSimApp().BankKeeper.GetBalance(s.chainA.GetContext(), senderA, nativeDenom).Amount)

	// 2. A -> B through the regular message path
	timeoutHeight := clienttypes.NewHeight(1, 500)
	msg := types.NewMsgTransfer(path.EndpointA.ChannelConfig.PortID, path.EndpointA.ChannelID, nativeCoin, senderA.String(), holderB.String(), timeoutHeight, 0, "")
	s.Require().NoError(msg.ValidateBasic())

	txRes, err := s.chainA.SendMsgs(msg)
	s.Require().NoError(err)
	packet, err := ibctesting.ParseV1PacketFromEvents(txRes.Events)
	s.Require().NoError(err)

	// the v1 packet carries the raw native denom as its denom path
	var ftpd types.FungibleTokenPacketData
	s.Require().NoError(types.ModuleCdc.UnmarshalJSON(packet.GetData(), &ftpd))
	s.Require().Equal(nativeDenom, ftpd.Denom)

	// native tokens are escrowed on A
	s.Require().Equal(amount, s.chainA.GetSimApp().BankKeeper.GetBalance(s.chainA.GetContext(), escrowA, nativeDenom).Amount)

	_, ack, err := path.RelayPacketWithResults(packet)
	s.Require().NoError(err)
	var fwdAck channeltypes.Acknowledgement
	s.Require().NoError(types.ModuleCdc.UnmarshalJSON(ack, &fwdAck))
	s.Require().True(fwdAck.Success(), "forward transfer must succeed")

	// what B made out of the denom path
	res.parsedOnB = types.ExtractDenomFromPath(nativeDenom)
	voucherDenom := types.Denom{
		Base:  res.parsedOnB.Base,
		Trace: append([]types.Hop{types.NewHop(path.EndpointB.ChannelConfig.PortID, path.EndpointB.ChannelID)}, res.parsedOnB.Trace...),
	}
	res.voucherOnB = voucherDenom.IBCDenom()
	res.voucherAfter = s.chainB.GetSimApp().BankKeeper.GetBalance(s.chainB.GetContext(), holderB, res.voucherOnB).Amount
	s.Require().Equal(amount, res.voucherAfter, "B minted the voucher under the denom derived from ExtractDenomFromPath")

	storedOnB, found := s.chainB.GetSimApp().TransferKeeper.GetDenom(s.chainB.GetContext(), voucherDenom.Hash())
	s.Require().True(found)
	s.Require().Equal(voucherDenom.Base, storedOnB.Base)
	s.Require().Equal(voucherDenom.Trace, storedOnB.Trace)

	// 3. B -> A: send the voucher back over the same channel
	voucherCoin := sdk.NewCoin(res.voucherOnB, amount)
	msgBack := types.NewMsgTransfer(path.EndpointB.ChannelConfig.PortID, path.EndpointB.ChannelID, voucherCoin, holderB.String(), receiverA.String(), timeoutHeight, 0, "")
	s.Require().NoError(msgBack.ValidateBasic())
	txRes, err = s.chainB.SendMsgs(msgBack)
	s.Require().NoError(err)
	packetBack, err := ibctesting.ParseV1PacketFromEvents(txRes.Events)
	s.Require().NoError(err)

	s.Require().NoError(types.ModuleCdc.UnmarshalJSON(packetBack.GetData(), &ftpd))
	res.returnPath = ftpd.Denom

	// B burned the voucher when sending (B is the sink)
	s.Require().True(s.chainB.GetSimApp().BankKeeper.GetBalance(s.chainB.GetContext(), holderB, res.voucherOnB).Amount.IsZero())

	recvRes, ackBack, err := path.RelayPacketWithResults(packetBack)
	s.Require().NoError(err) // recv and ack txs are both committed, whatever the ack content

	var backAck channeltypes.Acknowledgement
	s.Require().NoError(types.ModuleCdc.UnmarshalJSON(ackBack, &backAck))
	res.returnAckSuccess = backAck.Success()
	if !res.returnAckSuccess {
		res.returnAckError = backAck.GetError()
	}
	if v, ok := f7FindEventAttr(recvRes.Events, types.EventTypePacket, types.AttributeKeyAckError); ok {
		res.returnEventError = v
	}

	// 4. final balances
	res.receiverNativeOnA = s.chainA.GetSimApp().BankKeeper.GetBalance(s.chainA.GetContext(), receiverA, nativeDenom).Amount
	res.escrowNativeOnA = s.chainA.GetSimApp().BankKeeper.GetBalance(s.chainA.GetContext(), escrowA, nativeDenom).Amount
	res.voucherOnBFinal = s.chainB.GetSimApp().BankKeeper.GetBalance(s.chainB.GetContext(), holderB, res.voucherOnB).Amount

	// the channel stays open on both ends in every case
	s.Require().Equal(channeltypes.OPEN, path.EndpointA.GetChannel().State)
	s.Require().Equal(channeltypes.OPEN, path.EndpointB.GetChannel().State)

	// nobody on A ever holds an "ibc/..." coin for the remaining trace
	remaining := types.Denom{Base: res.parsedOnB.Base, Trace: res.parsedOnB.Trace}
	if len(remaining.Trace) > 0 {
		s.Require().True(s.chainA.GetSimApp().BankKeeper.GetBalance(s.chainA.GetContext(), receiverA, remaining.IBCDenom()).Amount.IsZero())
		s.Require().True(s.chainA.GetSimApp().BankKeeper.GetBalance(s.chainA.GetContext(), escrowA, remaining.IBCDenom()).Amount.IsZero())
	}

	s.T().Logf("F7 %q: parsedOnB={base:%q trace:%v} voucherOnB=%s returnPath=%q ackSuccess=%t ackError=%q eventError=%q receiverNativeOnA=%s escrowNativeOnA=%s voucherOnBFinal=%s",
		nativeDenom, res.parsedOnB.Base, res.parsedOnB.Trace, res.voucherOnB, res.returnPath, res.returnAckSuccess, res.returnAckError, res.returnEventError,
		res.receiverNativeOnA, res.escrowNativeOnA, res.voucherOnBFinal)

	return res
}

// TestFindingF7 documents the behaviour of an ICS-20 v1 round trip for a native denom
// whose second '/'-separated segment looks like a channel identifier.
func (s *KeeperTestSuite) TestFindingF7() {
	amount := sdkmath.NewInt(1000)

	// --- control: "pool/1/share" is treated as a native base denom everywhere ---
	control := s.f7RoundTrip("pool/1/share")
	s.Require().Equal("pool/1/share", control.parsedOnB.Base)
	s.Require().Empty(control.parsedOnB.Trace)
	s.Require().Equal("transfer/channel-0/pool/1/share", control.returnPath)
	s.Require().True(control.returnAckSuccess, "control denom returns successfully")
	s.Require().Empty(control.returnEventError)
	s.Require().Equal(amount, control.receiverNativeOnA, "control: receiver on A got the native token back")
	s.Require().True(control.escrowNativeOnA.IsZero(), "control: escrow on A released")
	s.Require().True(control.voucherOnBFinal.IsZero(), "control: voucher on B burned")

	// --- channel-shaped native denom ---
	const shaped = "pool/channel-7/share"
	bad := s.f7RoundTrip(shaped)

	// B mis-parses the native denom: trace [(pool, channel-7)] + base "share"
	s.Require().Equal("share", bad.parsedOnB.Base)
	s.Require().Equal([]types.Hop{types.NewHop("pool", "channel-7")}, bad.parsedOnB.Trace)
	// the string path is identical, so the voucher hash on B is the same as for a "correct" parse
	s.Require().Equal(types.NewDenom(shaped, types.NewHop("transfer", "channel-0")).IBCDenom(), bad.voucherOnB)
	s.Require().Equal("transfer/channel-0/pool/channel-7/share", bad.returnPath)

	// A strips the first hop, is left with a non-empty trace and tries to unescrow ibc/<hash(pool/channel-7/share)>
	wrongDenomOnA := types.NewDenom("share", types.NewHop("pool", "channel-7")).IBCDenom()
	s.Require().NotEqual(shaped, wrongDenomOnA)
	s.Require().True(strings.HasPrefix(wrongDenomOnA, "ibc/"))

	s.Require().False(bad.returnAckSuccess, "channel-shaped denom: return packet gets an error acknowledgement")
	s.Require().NotEmpty(bad.returnAckError)
	s.Require().Contains(bad.returnEventError, "unable to unescrow tokens")
	s.Require().Contains(bad.returnEventError, wrongDenomOnA, "A tried to unescrow the hashed denom rather than the native one")
	s.Require().Contains(bad.returnEventError, "insufficient funds")

	s.Require().True(bad.receiverNativeOnA.IsZero(), "receiver on A got nothing")
	s.Require().Equal(amount, bad.escrowNativeOnA, "the native tokens stay locked in A's escrow account")
	s.Require().Equal(amount, bad.voucherOnBFinal, "B refunded (re-minted) the voucher to the sender on error ack")

}
