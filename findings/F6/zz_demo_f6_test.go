// SPDX-License-Identifier: Apache-2.0

package keeper_test

import (
	"time"

	clienttypes "github.com/cosmos/ibc-go/v11/modules/core/02-client/types"
	channeltypes "github.com/cosmos/ibc-go/v11/modules/core/04-channel/types"
	"github.com/cosmos/ibc-go/v11/modules/core/04-channel/v2/types"
	host "github.com/cosmos/ibc-go/v11/modules/core/24-host"
	hostv2 "github.com/cosmos/ibc-go/v11/modules/core/24-host/v2"
	ibctm "github.com/cosmos/ibc-go/v11/modules/light-clients/07-tendermint"
	ibctesting "github.com/cosmos/ibc-go/v11/testing"
	mockv2 "github.com/cosmos/ibc-go/v11/testing/mock/v2"
)

// TestDemoF6AliasSkipsConnectionDelay documents the behaviour of IBC v2 packets sent over an
// aliased v1 channel whose underlying connection was opened with a non-zero delay period.
//
// The v1 packet flow on the channel enforces the connection delay period (time and block delay),
// the v2 packet flow on the very same channel identifier (used as an aliased v2 client id) verifies
// the packet commitment with a constant zero time delay and zero block delay, i.e. the delay period
// negotiated for the connection is not applied.
func (s *KeeperTestSuite) TestDemoF6AliasSkipsConnectionDelay() {
	delayPeriod := uint64(time.Hour.Nanoseconds())

	// 1. v1 path, connection with a 1 hour delay period on both ends, UNORDERED channel
	path := ibctesting.NewPath(s.chainA, s.chainB)
	path.EndpointA.ConnectionConfig.DelayPeriod = delayPeriod
	path.EndpointB.ConnectionConfig.DelayPeriod = delayPeriod
	path.Setup()

	s.Require().Equal(delayPeriod, path.EndpointA.GetConnection().DelayPeriod, "connection delay period on chain A")
	s.Require().Equal(delayPeriod, path.EndpointB.GetConnection().DelayPeriod, "connection delay period on chain B")
	s.Require().Equal(channeltypes.UNORDERED, path.EndpointA.GetChannel().Ordering)
	s.Require().Equal(channeltypes.UNORDERED, path.EndpointB.GetChannel().Ordering)

	// aliasing was NOT refused for the delayed connection: the channel ids are registered as aliased v2 clients
	baseClientB, isAlias := s.chainB.App.GetIBCKeeper().ChannelKeeperV2.GetClientForAlias(s.chainB.GetContext(), path.EndpointB.ChannelID)
	s.Require().True(isAlias, "channel id on chain B should be registered as alias")
	s.Require().Equal(path.EndpointB.ClientID, baseClientB)
	baseClientA, isAlias := s.chainA.App.GetIBCKeeper().ChannelKeeperV2.GetClientForAlias(s.chainA.GetContext(), path.EndpointA.ChannelID)
	s.Require().True(isAlias, "channel id on chain A should be registered as alias")
	s.Require().Equal(path.EndpointA.ClientID, baseClientA)
	counterpartyB, ok := s.chainB.App.GetIBCKeeper().ClientV2Keeper.GetClientCounterparty(s.chainB.GetContext(), path.EndpointB.ChannelID)
	s.Require().True(ok, "v2 counterparty should be registered for channel id on chain B")
	s.Require().Equal(path.EndpointA.ChannelID, counterpartyB.ClientId)

	// timeouts far in the future so that they never interfere with the delay period
	timeoutTimestamp := uint64(s.chainB.GetContext().BlockTime().Add(24 * time.Hour).Unix())
	timeoutTimestampNano := uint64(s.chainB.GetContext().BlockTime().Add(24 * time.Hour).UnixNano())

	// 2. v1 packet: relaying right after the client update is rejected because of the delay period
	sequence, err := path.EndpointA.SendPacket(clienttypes.Height{}, timeoutTimestampNano, ibctesting.MockPacketData) // also updates client on B
	s.Require().NoError(err)
	s.Require().Equal(uint64(1), sequence)
	packetv1 := channeltypes.NewPacket(ibctesting.MockPacketData, sequence, path.EndpointA.ChannelConfig.PortID, path.EndpointA.ChannelID, path.EndpointB.ChannelConfig.PortID, path.EndpointB.ChannelID, clienttypes.Height{}, timeoutTimestampNano)

	v1Key := host.PacketCommitmentKey(packetv1.GetSourcePort(), packetv1.GetSourceChannel(), packetv1.GetSequence())
	v1Proof, v1ProofHeight := path.EndpointA.Chain.QueryProof(v1Key)
	msgRecvV1 := channeltypes.NewMsgRecvPacket(packetv1, v1Proof, v1ProofHeight, s.chainB.SenderAccount.GetAddress().String())

	resV1, err := s.chainB.SendMsgs(msgRecvV1)
	s.Require().Error(err, "v1 MsgRecvPacket must be rejected before the connection delay period has passed")
	s.Require().NotNil(resV1)
	s.Require().Equal(ibctm.ErrDelayPeriodNotPassed.Codespace(), resV1.Codespace, "v1 rejection: %v", err)
	s.Require().Equal(ibctm.ErrDelayPeriodNotPassed.ABCICode(), resV1.Code, "v1 rejection: %v", err)
	s.Require().ErrorContains(err, ibctm.ErrDelayPeriodNotPassed.Error())
	s.T().Logf("F6: v1 MsgRecvPacket rejected: %v", err)

	_, found := s.chainB.App.GetIBCKeeper().ChannelKeeper.GetPacketReceipt(s.chainB.GetContext(), packetv1.GetDestPort(), packetv1.GetDestChannel(), packetv1.GetSequence())
	s.Require().False(found, "v1 packet must not have been received")

	// 3. v2 packet over the alias (channel ids as client ids): relayed right after the client update, no waiting
	payload := mockv2.NewMockPayload(mockv2.ModuleNameA, mockv2.ModuleNameB)
	msgSendPacket := types.NewMsgSendPacket(
		path.EndpointA.ChannelID,
		timeoutTimestamp,
		s.chainA.SenderAccount.GetAddress().String(),
		payload,
	)
	res, err := s.chainA.SendMsgs(msgSendPacket)
	s.Require().NoError(err, "send v2 packet failed")
	packetv2, err := ibctesting.ParseV2PacketFromEvents(res.Events)
	s.Require().NoError(err)
	s.Require().Equal(path.EndpointA.ChannelID, packetv2.SourceClient)
	s.Require().Equal(path.EndpointB.ChannelID, packetv2.DestinationClient)
	s.Require().Equal(uint64(2), packetv2.Sequence, "sequence is shared between v1 and v2 on the aliased channel")

	err = path.EndpointB.UpdateClient()
	s.Require().NoError(err)

	// sanity check: the consensus state used for the proof was processed far less than the delay period ago
	v2Key := hostv2.PacketCommitmentKey(packetv2.SourceClient, packetv2.Sequence)
	v2Proof, v2ProofHeight := path.EndpointA.QueryProof(v2Key)
	clientStoreB := s.chainB.App.GetIBCKeeper().ClientKeeper.ClientStore(s.chainB.GetContext(), path.EndpointB.ClientID)
	processedTime, ok := ibctm.GetProcessedTime(clientStoreB, v2ProofHeight)
	s.Require().True(ok, "processed time for proof height")
	elapsed := uint64(s.coordinator.CurrentTime.UnixNano()) - processedTime
	s.Require().Less(elapsed, delayPeriod, "delay period must not have passed for the consensus state used by the v2 proof")

	msgRecvV2 := types.NewMsgRecvPacket(packetv2, v2Proof, v2ProofHeight, s.chainB.SenderAccount.GetAddress().String())
	_, err = s.chainB.SendMsgs(msgRecvV2)
	s.Require().NoError(err, "v2 MsgRecvPacket over the alias is accepted although the connection delay period has not passed")
	s.Require().True(s.chainB.App.GetIBCKeeper().ChannelKeeperV2.HasPacketReceipt(s.chainB.GetContext(), packetv2.DestinationClient, packetv2.Sequence), "v2 packet receipt must be set")
	s.T().Logf("F6: v2 MsgRecvPacket over alias %s accepted %s after the consensus state was processed (connection delay period: %s)", packetv2.DestinationClient, time.Duration(elapsed), time.Duration(delayPeriod))

	// the very same v1 relay message is still rejected at this point
	resV1, err = s.chainB.SendMsgs(msgRecvV1)
	s.Require().Error(err)
	s.Require().Equal(ibctm.ErrDelayPeriodNotPassed.Codespace(), resV1.Codespace, "v1 rejection: %v", err)
	s.Require().Equal(ibctm.ErrDelayPeriodNotPassed.ABCICode(), resV1.Code, "v1 rejection: %v", err)

	// 4. control: once the time delay and the block delay have passed, the identical v1 relay message is accepted,
	// i.e. the delay period was the only reason for the rejection above
	s.coordinator.IncrementTimeBy(time.Duration(delayPeriod))
	blockDelay := delayPeriod / s.chainB.App.GetIBCKeeper().ConnectionKeeper.GetParams(s.chainB.GetContext()).MaxExpectedTimePerBlock
	s.coordinator.CommitNBlocks(s.chainB, blockDelay+2)
	_, err = s.chainB.SendMsgs(msgRecvV1)
	s.Require().NoError(err, "v1 MsgRecvPacket must be accepted after the delay period has passed")
}
