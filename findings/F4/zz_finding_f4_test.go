// SPDX-License-Identifier: Apache-2.0

package keeper_test

import (
	"encoding/json"
	"fmt"

	sdkmath "cosmossdk.io/math"

	sdk "github.com/cosmos/cosmos-sdk/types"
	minttypes "github.com/cosmos/cosmos-sdk/x/mint/types"

	"github.com/cosmos/ibc-go/v11/modules/apps/rate-limiting/keeper"
	"github.com/cosmos/ibc-go/v11/modules/apps/rate-limiting/types"
	transfertypes "github.com/cosmos/ibc-go/v11/modules/apps/transfer/types"
	channeltypes "github.com/cosmos/ibc-go/v11/modules/core/04-channel/types"
)

// Finding F4: UpdateRateLimit and RemoveRateLimit(+AddRateLimit) start a new
// quota window (flow zeroed, channel value refreshed) but, unlike
// ResetRateLimit, leave the pending send / receive markers of the previous
// window in place. A later timeout / error ack of a packet of the OLD window
// is then subtracted from the NEW window's flow.
//
// This test documents the behaviour of the unmodified code: it passes there
// and fails (by design) once the pending markers are cleared.

const (
	f4Channel     = "channel-0"
	f4HostChannel = "channel-1"
	f4Denom       = "denom" // == addRateLimitMsg.Denom
)

func (s *KeeperTestSuite) f4SendPacket(sequence uint64, amount int64) channeltypes.Packet {
	data, err := json.Marshal(transfertypes.FungibleTokenPacketData{
		Denom: f4Denom, Amount: sdkmath.NewInt(amount).String(), Sender: "f4sender", Receiver: "f4receiver",
	})
	s.Require().NoError(err)
	return channeltypes.Packet{
		Sequence:           sequence,
		SourcePort:         transferPort,
		SourceChannel:      f4Channel,
		DestinationPort:    transferPort,
		DestinationChannel: f4HostChannel,
		Data:               data,
	}
}

func (s *KeeperTestSuite) f4RecvPacket(sequence uint64, amount int64) channeltypes.Packet {
	data, err := json.Marshal(transfertypes.FungibleTokenPacketData{
		Denom: uosmo, Amount: sdkmath.NewInt(amount).String(), Sender: "f4sender", Receiver: "f4receiver",
	})
	s.Require().NoError(err)
	return channeltypes.Packet{
		Sequence:           sequence,
		SourcePort:         transferPort,
		SourceChannel:      f4HostChannel,
		DestinationPort:    transferPort,
		DestinationChannel: f4Channel,
		Data:               data,
	}
}

func (s *KeeperTestSuite) f4Flow(denom string) (inflow, outflow int64) {
	rl, found := s.chainA.GetSimApp().RateLimitKeeper.GetRateLimit(s.chainA.GetContext(), denom, f4Channel)
	s.Require().True(found, "rate limit must exist")
	return rl.Flow.Inflow.Int64(), rl.Flow.Outflow.Int64()
}

func (s *KeeperTestSuite) f4PendingSends() []string {
	p, err := s.chainA.GetSimApp().RateLimitKeeper.GetAllPendingSendPackets(s.chainA.GetContext())
	s.Require().NoError(err)
	return p
}

func (s *KeeperTestSuite) f4PendingRecvs() []string {
	p, err := s.chainA.GetSimApp().RateLimitKeeper.GetAllPendingReceivePackets(s.chainA.GetContext())
	s.Require().NoError(err)
	return p
}

// f4SetupSend creates channel-0, a supply of 1000denom and a 20% send / 10% recv
// rate limit, i.e. a send quota of 200 per window.
func (s *KeeperTestSuite) f4SetupSend() {
	s.createChannel(f4Channel)
	s.createChannelValue(f4Denom, sdkmath.NewInt(1000))
	s.addRateLimitSuccessful(addRateLimitMsg)
}

// f4SendScenario runs: send P1(100) -> administer() -> send P2(150) -> timeout P1
// -> send P3(150) and asserts the (wrong) accounting of the unmodified code.
func (s *KeeperTestSuite) f4SendScenario(administer func()) {
	k := s.chainA.GetSimApp().RateLimitKeeper
	const a, b, c = int64(100), int64(150), int64(150)
	const quota = int64(200) // 20% of 1000

	p1 := s.f4SendPacket(1, a)
	p2 := s.f4SendPacket(2, b)
	p3 := s.f4SendPacket(3, c)
	p1ID := fmt.Sprintf("%s/%d/%s", f4Channel, 1, f4Denom)
	p2ID := fmt.Sprintf("%s/%d/%s", f4Channel, 2, f4Denom)
	p3ID := fmt.Sprintf("%s/%d/%s", f4Channel, 3, f4Denom)

	// step 1: P1 is accepted in window #1
	s.Require().NoError(k.SendRateLimitedPacketWithSequence(s.chainA.GetContext(), p1))
	_, out := s.f4Flow(f4Denom)
	s.T().Logf("after send P1:        outflow=%d pendingSend=%v", out, s.f4PendingSends())
	s.Require().Equal(a, out)
	s.Require().Equal([]string{p1ID}, s.f4PendingSends())

	// step 2: the authority starts window #2
	administer()
	in, out := s.f4Flow(f4Denom)
	s.T().Logf("after administration: outflow=%d pendingSend=%v", out, s.f4PendingSends())
	s.Require().Zero(in)
	s.Require().Zero(out, "flow is zeroed: a new window started")
	// FINDING: the marker of the previous window survives the new window
	s.Require().Equal([]string{p1ID}, s.f4PendingSends(), "P1 marker survives (ResetRateLimit would have cleared it)")

	// step 3: P2 is accepted in window #2
	s.Require().NoError(k.SendRateLimitedPacketWithSequence(s.chainA.GetContext(), p2))
	_, out = s.f4Flow(f4Denom)
	s.T().Logf("after send P2:        outflow=%d pendingSend=%v", out, s.f4PendingSends())
	s.Require().Equal(b, out)
	s.Require().Equal([]string{p1ID, p2ID}, s.f4PendingSends())

	// step 4: P1 (window #1) times out
	s.Require().NoError(k.TimeoutRateLimitedPacket(s.chainA.GetContext(), p1))
	_, out = s.f4Flow(f4Denom)
	s.T().Logf("after timeout P1:     outflow=%d pendingSend=%v", out, s.f4PendingSends())
	// FINDING: a is subtracted from window #2 although P1 was never counted in it
	s.Require().Equal(b-a, out, "old-window packet subtracted from the new window's outflow")
	s.Require().Equal([]string{p2ID}, s.f4PendingSends())

	// step 5 (consequence): P3 is accepted although P2+P3 = 300 > quota 200 are
	// both in flight / delivered from window #2.
	s.Require().NoError(k.SendRateLimitedPacketWithSequence(s.chainA.GetContext(), p3))
	_, out = s.f4Flow(f4Denom)
	s.T().Logf("after send P3:        outflow=%d pendingSend=%v (really accepted in this window: %d, quota %d)", out, s.f4PendingSends(), b+c, quota)
	s.Require().Equal(b-a+c, out)
	s.Require().LessOrEqual(out, quota, "recorded outflow looks within quota")
	s.Require().Greater(b+c, quota, "amount really accepted in window #2 exceeds the quota")
	s.Require().Equal([]string{p2ID, p3ID}, s.f4PendingSends())
}

func (s *KeeperTestSuite) TestFindingF4_StalePendingMarkersSurviveNewWindow() {
	s.Run("control: ResetRateLimit clears the markers, old timeout is ignored", func() {
		s.SetupTest()
		s.f4SetupSend()
		k := s.chainA.GetSimApp().RateLimitKeeper

		p1 := s.f4SendPacket(1, 100)
		p2 := s.f4SendPacket(2, 150)
		s.Require().NoError(k.SendRateLimitedPacketWithSequence(s.chainA.GetContext(), p1))
		s.Require().NoError(k.ResetRateLimit(s.chainA.GetContext(), f4Denom, f4Channel))
		s.Require().Empty(s.f4PendingSends())
		s.Require().NoError(k.SendRateLimitedPacketWithSequence(s.chainA.GetContext(), p2))
		s.Require().NoError(k.TimeoutRateLimitedPacket(s.chainA.GetContext(), p1))
		_, out := s.f4Flow(f4Denom)
		s.Require().Equal(int64(150), out, "reset: old-window timeout does not touch the new window")
	})

	s.Run("send: UpdateRateLimit", func() {
		s.SetupTest()
		s.f4SetupSend()
		s.f4SendScenario(func() {
			// same quota as before; only the window is restarted
			err := s.chainA.GetSimApp().RateLimitKeeper.UpdateRateLimit(s.chainA.GetContext(), &types.MsgUpdateRateLimit{
				Signer:            authority,
				Denom:             f4Denom,
				ChannelOrClientId: f4Channel,
				MaxPercentSend:    addRateLimitMsg.MaxPercentSend,
				MaxPercentRecv:    addRateLimitMsg.MaxPercentRecv,
				DurationHours:     addRateLimitMsg.DurationHours,
			})
			s.Require().NoError(err)
		})
	})

	s.Run("send: RemoveRateLimit + AddRateLimit", func() {
		s.SetupTest()
		s.f4SetupSend()
		s.f4SendScenario(func() {
			// removal as the authority performs it (MsgRemoveRateLimit handler, which
			// calls Keeper.RemoveRateLimit), then Keeper.AddRateLimit
			msgServer := keeper.NewMsgServerImpl(s.chainA.GetSimApp().RateLimitKeeper)
			_, err := msgServer.RemoveRateLimit(s.chainA.GetContext(), &removeRateLimitMsg)
			s.Require().NoError(err)
			_, found := s.chainA.GetSimApp().RateLimitKeeper.GetRateLimit(s.chainA.GetContext(), f4Denom, f4Channel)
			s.Require().False(found)
			s.T().Logf("after removal:        pendingSend=%v", s.f4PendingSends())

			msg := addRateLimitMsg
			s.Require().NoError(s.chainA.GetSimApp().RateLimitKeeper.AddRateLimit(s.chainA.GetContext(), &msg))
		})
	})

	s.Run("receive: UpdateRateLimit then UndoReceivePacket", func() {
		s.SetupTest()
		k := s.chainA.GetSimApp().RateLimitKeeper

		// uosmo received over channel-0 is accounted under ibc/hash(transfer/channel-0/uosmo)
		rlDenom := hashDenomTrace(fmt.Sprintf("%s/%s/%s", transferPort, f4Channel, uosmo))
		s.createChannel(f4Channel)
		s.Require().NoError(s.chainA.GetSimApp().BankKeeper.MintCoins(s.chainA.GetContext(), minttypes.ModuleName,
			sdk.NewCoins(sdk.NewCoin(rlDenom, sdkmath.NewInt(1000)))))
		s.Require().NoError(k.AddRateLimit(s.chainA.GetContext(), &types.MsgAddRateLimit{
			Signer: authority, Denom: rlDenom, ChannelOrClientId: f4Channel,
			MaxPercentSend: sdkmath.NewInt(20), MaxPercentRecv: sdkmath.NewInt(20), DurationHours: 24,
		}))

		const a, b = int64(100), int64(150)
		p1 := s.f4RecvPacket(1, a)
		p2 := s.f4RecvPacket(2, b)
		p1ID := fmt.Sprintf("%s/%d/%s", f4Channel, 1, rlDenom)
		p2ID := fmt.Sprintf("%s/%d/%s", f4Channel, 2, rlDenom)

		s.Require().NoError(k.ReceiveRateLimitedPacket(s.chainA.GetContext(), p1))
		in, _ := s.f4Flow(rlDenom)
		s.Require().Equal(a, in)
		s.Require().Equal([]string{p1ID}, s.f4PendingRecvs())

		s.Require().NoError(k.UpdateRateLimit(s.chainA.GetContext(), &types.MsgUpdateRateLimit{
			Signer: authority, Denom: rlDenom, ChannelOrClientId: f4Channel,
			MaxPercentSend: sdkmath.NewInt(20), MaxPercentRecv: sdkmath.NewInt(20), DurationHours: 24,
		}))
		in, _ = s.f4Flow(rlDenom)
		s.Require().Zero(in)
		// FINDING: receive marker of the previous window survives
		s.Require().Equal([]string{p1ID}, s.f4PendingRecvs())

		s.Require().NoError(k.ReceiveRateLimitedPacket(s.chainA.GetContext(), p2))
		in, _ = s.f4Flow(rlDenom)
		s.Require().Equal(b, in)

		// async error ack for P1 (e.g. PFM forward failure) -> UndoReceivePacket
		s.Require().NoError(k.UndoReceivePacket(s.chainA.GetContext(), p1))
		in, _ = s.f4Flow(rlDenom)
		s.T().Logf("receive: after undo of old-window P1: inflow=%d pendingRecv=%v", in, s.f4PendingRecvs())
		// FINDING: a is subtracted from the new window's inflow
		s.Require().Equal(b-a, in, "old-window receive subtracted from the new window's inflow")
		s.Require().Equal([]string{p2ID}, s.f4PendingRecvs())
	})
}
