// SPDX-License-Identifier: Apache-2.0

package keeper_test

import (
	"encoding/json"
	"fmt"

	sdkmath "cosmossdk.io/math"

	sdk "github.com/cosmos/cosmos-sdk/types"
	minttypes "github.com/cosmos/cosmos-sdk/x/mint/types"

	"github.com/cosmos/ibc-go/v11/modules/apps/rate-limiting/keeper"
	"github.com/cosmos/ibc-go/v11/modules/apps/rate-limiting/types"
	transfertypes "github.com/cosmos/ibc-go/v11/modules/apps/transfer/types"
	channeltypes "github.com/cosmos/ibc-go/v11/modules/core/04-channel/types"
)

// Fix check for finding F4: updating a rate limit, or removing it and adding it
// again, starts a new quota window. Exactly like ResetRateLimit, this must drop
// the pending send / receive markers of the previous window, so that a timeout
// or error acknowledgement of an old-window packet does not lower the new
// window's flow.

const (
	f4fcChannel     = "channel-0"
	f4fcHostChannel = "channel-1"
	f4fcDenom       = "denom" // == addRateLimitMsg.Denom
)

func (s *KeeperTestSuite) f4fcPacket(sequence uint64, packetDenom string, amount int64, send bool) channeltypes.Packet {
	data, err := json.Marshal(transfertypes.FungibleTokenPacketData{
		Denom: packetDenom, Amount: sdkmath.NewInt(amount).String(), Sender: "f4sender", Receiver: "f4receiver",
	})
	s.Require().NoError(err)
	packet := channeltypes.Packet{
		Sequence:           sequence,
		SourcePort:         transferPort,
		SourceChannel:      f4fcChannel,
		DestinationPort:    transferPort,
		DestinationChannel: f4fcHostChannel,
		Data:               data,
	}
	if !send {
		packet.SourceChannel, packet.DestinationChannel = f4fcHostChannel, f4fcChannel
	}
	return packet
}

func (s *KeeperTestSuite) f4fcFlow(denom string) (inflow, outflow int64) {
	rl, found := s.chainA.GetSimApp().RateLimitKeeper.GetRateLimit(s.chainA.GetContext(), denom, f4fcChannel)
	s.Require().True(found, "rate limit must exist")
	return rl.Flow.Inflow.Int64(), rl.Flow.Outflow.Int64()
}

func (s *KeeperTestSuite) f4fcPending() (sends, recvs []string) {
	sends, err := s.chainA.GetSimApp().RateLimitKeeper.GetAllPendingSendPackets(s.chainA.GetContext())
	s.Require().NoError(err)
	recvs, err = s.chainA.GetSimApp().RateLimitKeeper.GetAllPendingReceivePackets(s.chainA.GetContext())
	s.Require().NoError(err)
	return sends, recvs
}

func (s *KeeperTestSuite) f4fcRequireNoPending(msg string) {
	sends, recvs := s.f4fcPending()
	s.Require().Empty(sends, "pending sends %s", msg)
	s.Require().Empty(recvs, "pending receives %s", msg)
}

// send P1(100) -> administer() -> send P2(150) -> timeout P1 -> error-ack of P2 -> send P3(150)
func (s *KeeperTestSuite) f4fcSendScenario(administer func()) {
	k := s.chainA.GetSimApp().RateLimitKeeper
	const a, b, c = int64(100), int64(150), int64(150)

	s.createChannel(f4fcChannel)
	s.createChannelValue(f4fcDenom, sdkmath.NewInt(1000))
	s.addRateLimitSuccessful(addRateLimitMsg) // 20% send => quota 200

	p1 := s.f4fcPacket(1, f4fcDenom, a, true)
	p2 := s.f4fcPacket(2, f4fcDenom, b, true)
	p3 := s.f4fcPacket(3, f4fcDenom, c, true)
	p2ID := fmt.Sprintf("%s/%d/%s", f4fcChannel, 2, f4fcDenom)

	// an unrelated (channel, denom) marker must not be touched by the administration step
	s.Require().NoError(k.SetPendingSendPacket(s.chainA.GetContext(), "channel-7", 9, "other"))
	otherID := fmt.Sprintf("%s/%d/%s", "channel-7", 9, "other")

	s.Require().NoError(k.SendRateLimitedPacketWithSequence(s.chainA.GetContext(), p1))
	_, out := s.f4fcFlow(f4fcDenom)
	s.Require().Equal(a, out)

	administer()

	_, out = s.f4fcFlow(f4fcDenom)
	s.Require().Zero(out, "new window starts with zero outflow")
	sends, recvs := s.f4fcPending()
	s.Require().Equal([]string{otherID}, sends, "markers of the administered (channel, denom) are cleared, others kept")
	s.Require().Empty(recvs)

	s.Require().NoError(k.SendRateLimitedPacketWithSequence(s.chainA.GetContext(), p2))
	_, out = s.f4fcFlow(f4fcDenom)
	s.Require().Equal(b, out)

	// P1 belongs to the previous window: its timeout must not change the new window
	s.Require().NoError(k.TimeoutRateLimitedPacket(s.chainA.GetContext(), p1))
	_, out = s.f4fcFlow(f4fcDenom)
	s.Require().Equal(b, out, "old-window timeout leaves the new window's outflow unchanged")
	sends, _ = s.f4fcPending()
	s.Require().Equal([]string{p2ID, otherID}, sends)

	// the quota of the new window is still enforced: 150 + 150 > 200
	err := k.SendRateLimitedPacketWithSequence(s.chainA.GetContext(), p3)
	s.Require().ErrorIs(err, types.ErrQuotaExceeded)

	// a packet of the current window is still reverted as before
	ackFailure := transfertypes.ModuleCdc.MustMarshalJSON(&channeltypes.Acknowledgement{
		Response: &channeltypes.Acknowledgement_Error{Error: "error"},
	})
	s.Require().NoError(k.AcknowledgeRateLimitedPacket(s.chainA.GetContext(), p2, ackFailure))
	_, out = s.f4fcFlow(f4fcDenom)
	s.Require().Zero(out, "current-window packet is still undone")
	sends, _ = s.f4fcPending()
	s.Require().Equal([]string{otherID}, sends)
}

func (s *KeeperTestSuite) f4fcSameQuotaUpdateMsg(denom string) *types.MsgUpdateRateLimit {
	return &types.MsgUpdateRateLimit{
		Signer:            authority,
		Denom:             denom,
		ChannelOrClientId: f4fcChannel,
		MaxPercentSend:    addRateLimitMsg.MaxPercentSend,
		MaxPercentRecv:    addRateLimitMsg.MaxPercentRecv,
		DurationHours:     addRateLimitMsg.DurationHours,
	}
}

func (s *KeeperTestSuite) TestFixCheckF4_NewWindowDropsPendingMarkers() {
	s.Run("send: Keeper.UpdateRateLimit", func() {
		s.SetupTest()
		s.f4fcSendScenario(func() {
			s.Require().NoError(s.chainA.GetSimApp().RateLimitKeeper.UpdateRateLimit(s.chainA.GetContext(), s.f4fcSameQuotaUpdateMsg(f4fcDenom)))
		})
	})

	s.Run("send: MsgUpdateRateLimit", func() {
		s.SetupTest()
		s.f4fcSendScenario(func() {
			msgServer := keeper.NewMsgServerImpl(s.chainA.GetSimApp().RateLimitKeeper)
			_, err := msgServer.UpdateRateLimit(s.chainA.GetContext(), s.f4fcSameQuotaUpdateMsg(f4fcDenom))
			s.Require().NoError(err)
		})
	})

	s.Run("send: MsgRemoveRateLimit + AddRateLimit", func() {
		s.SetupTest()
		s.f4fcSendScenario(func() {
			msgServer := keeper.NewMsgServerImpl(s.chainA.GetSimApp().RateLimitKeeper)
			_, err := msgServer.RemoveRateLimit(s.chainA.GetContext(), &removeRateLimitMsg)
			s.Require().NoError(err)

			// the markers are gone as soon as the rate limit is removed
			sends, recvs := s.f4fcPending()
			s.Require().Len(sends, 1, "only the unrelated marker remains after removal")
			s.Require().Empty(recvs)

			msg := addRateLimitMsg
			s.Require().NoError(s.chainA.GetSimApp().RateLimitKeeper.AddRateLimit(s.chainA.GetContext(), &msg))
		})
	})

	receiveScenario := func(administer func(rlDenom string)) {
		k := s.chainA.GetSimApp().RateLimitKeeper
		const a, b = int64(100), int64(150)

		// uosmo received over channel-0 is accounted under ibc/hash(transfer/channel-0/uosmo)
		rlDenom := hashDenomTrace(fmt.Sprintf("%s/%s/%s", transferPort, f4fcChannel, uosmo))
		addMsg := types.MsgAddRateLimit{
			Signer: authority, Denom: rlDenom, ChannelOrClientId: f4fcChannel,
			MaxPercentSend: addRateLimitMsg.MaxPercentSend, MaxPercentRecv: addRateLimitMsg.MaxPercentSend, DurationHours: addRateLimitMsg.DurationHours,
		}
		s.createChannel(f4fcChannel)
		s.Require().NoError(s.chainA.GetSimApp().BankKeeper.MintCoins(s.chainA.GetContext(), minttypes.ModuleName,
			sdk.NewCoins(sdk.NewCoin(rlDenom, sdkmath.NewInt(1000)))))
		s.Require().NoError(k.AddRateLimit(s.chainA.GetContext(), &addMsg))

		p1 := s.f4fcPacket(1, uosmo, a, false)
		p2 := s.f4fcPacket(2, uosmo, b, false)
		p2ID := fmt.Sprintf("%s/%d/%s", f4fcChannel, 2, rlDenom)

		s.Require().NoError(k.ReceiveRateLimitedPacket(s.chainA.GetContext(), p1))
		in, _ := s.f4fcFlow(rlDenom)
		s.Require().Equal(a, in)

		administer(rlDenom)

		in, _ = s.f4fcFlow(rlDenom)
		s.Require().Zero(in)
		s.f4fcRequireNoPending("right after the administration step")

		s.Require().NoError(k.ReceiveRateLimitedPacket(s.chainA.GetContext(), p2))
		s.Require().NoError(k.UndoReceivePacket(s.chainA.GetContext(), p1))
		in, _ = s.f4fcFlow(rlDenom)
		s.Require().Equal(b, in, "old-window receive undo leaves the new window's inflow unchanged")
		_, recvs := s.f4fcPending()
		s.Require().Equal([]string{p2ID}, recvs)

		s.Require().NoError(k.UndoReceivePacket(s.chainA.GetContext(), p2))
		in, _ = s.f4fcFlow(rlDenom)
		s.Require().Zero(in, "current-window receive is still undone")
		s.f4fcRequireNoPending("after undoing the current-window receive")
	}

	s.Run("receive: Keeper.UpdateRateLimit", func() {
		s.SetupTest()
		receiveScenario(func(rlDenom string) {
			msg := s.f4fcSameQuotaUpdateMsg(rlDenom)
			msg.MaxPercentRecv = addRateLimitMsg.MaxPercentSend // 20%, as in the receive scenario's AddRateLimit
			s.Require().NoError(s.chainA.GetSimApp().RateLimitKeeper.UpdateRateLimit(s.chainA.GetContext(), msg))
		})
	})

	s.Run("receive: MsgRemoveRateLimit + AddRateLimit", func() {
		s.SetupTest()
		receiveScenario(func(rlDenom string) {
			msgServer := keeper.NewMsgServerImpl(s.chainA.GetSimApp().RateLimitKeeper)
			_, err := msgServer.RemoveRateLimit(s.chainA.GetContext(), &types.MsgRemoveRateLimit{
				Signer: authority, Denom: rlDenom, ChannelOrClientId: f4fcChannel,
			})
			s.Require().NoError(err)
			s.f4fcRequireNoPending("right after removal")

			s.Require().NoError(s.chainA.GetSimApp().RateLimitKeeper.AddRateLimit(s.chainA.GetContext(), &types.MsgAddRateLimit{
				Signer: authority, Denom: rlDenom, ChannelOrClientId: f4fcChannel,
				MaxPercentSend: addRateLimitMsg.MaxPercentSend, MaxPercentRecv: addRateLimitMsg.MaxPercentSend, DurationHours: addRateLimitMsg.DurationHours,
			}))
		})
	})
}
