package keeper_test

import (
	"testing"

	"github.com/stretchr/testify/require"

	sdkmath "cosmossdk.io/math"

	sdk "github.com/cosmos/cosmos-sdk/types"

	ratelimitkeeper "github.com/cosmos/ibc-go/v11/modules/apps/rate-limiting/keeper"
	transfertypes "github.com/cosmos/ibc-go/v11/modules/apps/transfer/types"
)

// F11: for a native denomination whose second '/'-segment is channel-identifier shaped, ICS-20 debits the native
// denomination itself, while rate limiting charges the send to ibc/<hash of the path>: a rate limit configured
// for the native denomination is never consulted for it.
func TestFindingF11RateLimitDenomDiffersFromICS20Denom(t *testing.T) {
	for _, tc := range []struct {
		native string
		same   bool
	}{
		{"uatom", true},
		{"pool/1/share", true},
		{"pool/channel-7/share", false},
	} {
		coin := sdk.NewCoin(tc.native, sdkmath.NewInt(100))
		require.NoError(t, sdk.ValidateDenom(tc.native))
		// what the transfer message handler does for a non-voucher coin (keeper.TokenFromCoin): the coin's
		// denomination is the base, the trace is empty; SendTransfer debits token.ToCoin()
		token := transfertypes.Token{Denom: transfertypes.NewDenom(coin.Denom), Amount: coin.Amount.String()}
		debited, err := token.ToCoin()
		require.NoError(t, err)
		require.Equal(t, tc.native, debited.Denom, "ICS-20 debits the native denomination")

		// the packet data carries token.Denom.Path(); rate limiting re-parses that string
		data := transfertypes.NewFungibleTokenPacketData(token.Denom.Path(), token.Amount, "sender", "receiver", "")
		charged := ratelimitkeeper.ParseDenomFromSendPacket(data)
		if tc.same {
			require.Equal(t, debited.Denom, charged, tc.native)
		} else {
			require.NotEqual(t, debited.Denom, charged, "rate limiting charges a different denomination than ICS-20 debits")
			require.Contains(t, charged, "ibc/")
		}
	}
}
