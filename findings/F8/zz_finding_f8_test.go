// SPDX-License-Identifier: Apache-2.0

package types_test

import (
	storetypes "github.com/cosmos/cosmos-sdk/store/v2/types"

	internaltypes "github.com/cosmos/ibc-go/modules/light-clients/08-wasm/v11/internal/types"
	"github.com/cosmos/ibc-go/modules/light-clients/08-wasm/v11/types"
	clienttypes "github.com/cosmos/ibc-go/v11/modules/core/02-client/types"
)

// f8Observation records what an iterator returned by ClientRecoveryStore yields.
type f8Observation struct {
	valid bool
	key   []byte
	value []byte
	// entries is the number of entries obtained by walking the iterator with Next() until it is no longer valid
	// (bounded, to be robust against misbehaving iterators).
	entries int
}

// f8Observe inspects an iterator without assuming anything about its state.
func f8Observe(it storetypes.Iterator) (obs f8Observation) {
	obs.valid = it.Valid()
	if !obs.valid {
		return obs
	}

	obs.key = append([]byte(nil), it.Key()...)
	obs.value = append([]byte(nil), it.Value()...)

	for i := 0; i < 16 && it.Valid(); i++ {
		obs.entries++
		it.Next()
	}

	return obs
}

// TestFindingF8ClosedIteratorLeaksSubjectEntry documents the behaviour of the "closed" iterator that
// ClientRecoveryStore.Iterator/ReverseIterator return for unprefixed or mixed-prefix ranges, when the
// subject client store holds a key in the byte range [0x00, 0x01).
//
// This test asserts the behaviour of the UNMODIFIED code: the returned iterator is still Valid() after
// Close() and yields the subject store entry, i.e. the range does not read as empty.
func (s *TypesTestSuite) TestFindingF8ClosedIteratorLeaksSubjectEntry() {
	var (
		// e.g. a cw-storage-plus namespaced key: 2 byte big endian length prefix (0x00, 0x10) followed by the namespace.
		leakKey   = []byte{0x00, 0x10, 'x'}
		leakValue = []byte("subject-secret")
	)

	testCases := []struct {
		name string
		// getStores returns the subject and substitute stores.
		getStores func() (storetypes.KVStore, storetypes.KVStore)
	}{
		{
			"prefix stores as built by the existing test suite",
			s.GetSubjectAndSubstituteStore,
		},
		{
			"client stores as handed out by the 02-client keeper",
			func() (storetypes.KVStore, storetypes.KVStore) {
				s.SetupTest()

				ctx := s.chainA.GetContext()
				clientKeeper := GetSimApp(s.chainA).IBCKeeper.ClientKeeper

				return clientKeeper.ClientStore(ctx, clienttypes.FormatClientIdentifier(types.Wasm, 0)),
					clientKeeper.ClientStore(ctx, clienttypes.FormatClientIdentifier(types.Wasm, 1))
			},
		},
	}

	ranges := []struct {
		name  string
		start []byte
		end   []byte
	}{
		{
			"(a) unprefixed start/end",
			[]byte("start"),
			[]byte("end"),
		},
		{
			"(a') unprefixed start/end with invalid prefix",
			append(append([]byte(nil), invalidPrefix...), []byte("start")...),
			append(append([]byte(nil), invalidPrefix...), []byte("end")...),
		},
		{
			"(a'') nil start/end",
			nil,
			nil,
		},
		{
			"(b) start subject/, end substitute/",
			append(append([]byte(nil), internaltypes.SubjectPrefix...), []byte("start")...),
			append(append([]byte(nil), internaltypes.SubstitutePrefix...), []byte("end")...),
		},
	}

	for _, tc := range testCases {
		for _, rg := range ranges {
			s.Run(tc.name+"/"+rg.name, func() {
				subjectStore, substituteStore := tc.getStores()

				// sanity: without the offending key, the "closed" iterator reads as empty.
				wrappedStore := internaltypes.NewClientRecoveryStore(subjectStore, substituteStore)
				s.Require().False(wrappedStore.Iterator(rg.start, rg.end).Valid())
				s.Require().False(wrappedStore.ReverseIterator(rg.start, rg.end).Valid())

				subjectStore.Set(leakKey, leakValue)

				wrappedStore = internaltypes.NewClientRecoveryStore(subjectStore, substituteStore)

				fwd := f8Observe(wrappedStore.Iterator(rg.start, rg.end))
				rev := f8Observe(wrappedStore.ReverseIterator(rg.start, rg.end))

				s.T().Logf("F8 %s / %s: Iterator: valid=%t key=%q value=%q entries=%d", tc.name, rg.name, fwd.valid, fwd.key, fwd.value, fwd.entries)
				s.T().Logf("F8 %s / %s: ReverseIterator: valid=%t key=%q value=%q entries=%d", tc.name, rg.name, rev.valid, rev.key, rev.value, rev.entries)

				// Observed behaviour on the unmodified code: the iterator documented as "closed" is still valid
				// and yields the entry of the subject store.
				s.Require().True(fwd.valid, "Iterator: closed iterator unexpectedly reads as empty")
				s.Require().Equal(leakKey, fwd.key)
				s.Require().Equal(leakValue, fwd.value)
				s.Require().Equal(1, fwd.entries)

				s.Require().True(rev.valid, "ReverseIterator: closed iterator unexpectedly reads as empty")
				s.Require().Equal(leakKey, rev.key)
				s.Require().Equal(leakValue, rev.value)
				s.Require().Equal(1, rev.entries)
			})
		}
	}
}
