// SPDX-License-Identifier: Apache-2.0

package types_test

import (
	storetypes "github.com/cosmos/cosmos-sdk/store/v2/types"

	internaltypes "github.com/cosmos/ibc-go/modules/light-clients/08-wasm/v11/internal/types"
	"github.com/cosmos/ibc-go/modules/light-clients/08-wasm/v11/types"
	clienttypes "github.com/cosmos/ibc-go/v11/modules/core/02-client/types"
)

// TestFixCheckF8ClosedIteratorIsEmpty asserts the intended behaviour of ClientRecoveryStore.Iterator/ReverseIterator
// for unprefixed or mixed-prefix ranges: the returned iterator is invalid and yields no entries, regardless of the
// contents of the subject and substitute stores.
func (s *TypesTestSuite) TestFixCheckF8ClosedIteratorIsEmpty() {
	storeGetters := []struct {
		name      string
		getStores func() (storetypes.KVStore, storetypes.KVStore)
	}{
		{
			"prefix stores as built by the existing test suite",
			s.GetSubjectAndSubstituteStore,
		},
		{
			"client stores as handed out by the 02-client keeper",
			func() (storetypes.KVStore, storetypes.KVStore) {
				s.SetupTest()

				ctx := s.chainA.GetContext()
				clientKeeper := GetSimApp(s.chainA).IBCKeeper.ClientKeeper

				return clientKeeper.ClientStore(ctx, clienttypes.FormatClientIdentifier(types.Wasm, 0)),
					clientKeeper.ClientStore(ctx, clienttypes.FormatClientIdentifier(types.Wasm, 1))
			},
		},
	}

	ranges := []struct {
		name  string
		start []byte
		end   []byte
	}{
		{
			"unprefixed start/end",
			[]byte("start"),
			[]byte("end"),
		},
		{
			"invalid prefix",
			append(append([]byte(nil), invalidPrefix...), []byte("start")...),
			append(append([]byte(nil), invalidPrefix...), []byte("end")...),
		},
		{
			"nil start/end",
			nil,
			nil,
		},
		{
			"start subject/, end substitute/",
			append(append([]byte(nil), internaltypes.SubjectPrefix...), []byte("start")...),
			append(append([]byte(nil), internaltypes.SubstitutePrefix...), []byte("end")...),
		},
		{
			"start substitute/, end subject/",
			append(append([]byte(nil), internaltypes.SubstitutePrefix...), []byte("start")...),
			append(append([]byte(nil), internaltypes.SubjectPrefix...), []byte("end")...),
		},
		{
			"start subject/, end unprefixed",
			append(append([]byte(nil), internaltypes.SubjectPrefix...), []byte("start")...),
			[]byte("end"),
		},
	}

	for _, sg := range storeGetters {
		for _, rg := range ranges {
			s.Run(sg.name+"/"+rg.name, func() {
				subjectStore, substituteStore := sg.getStores()

				// keys in the byte range [0x00, 0x01), e.g. cw-storage-plus namespaced keys, in both stores.
				subjectStore.Set([]byte{0x00, 0x10, 'x'}, []byte("subject-value"))
				subjectStore.Set([]byte{0x00}, []byte("subject-value-2"))
				substituteStore.Set([]byte{0x00, 0x10, 'x'}, []byte("substitute-value"))

				wrappedStore := internaltypes.NewClientRecoveryStore(subjectStore, substituteStore)

				for _, it := range []storetypes.Iterator{
					wrappedStore.Iterator(rg.start, rg.end),
					wrappedStore.ReverseIterator(rg.start, rg.end),
				} {
					s.Require().NotNil(it)
					s.Require().False(it.Valid(), "iterator must be invalid and yield no entries")
					s.Require().NoError(it.Error())
					s.Require().NoError(it.Close())
					// remains invalid after an (additional) Close
					s.Require().False(it.Valid())
				}

				// prefixed ranges remain unaffected and yield the entries of the selected store only.
				subjectIt := wrappedStore.Iterator(
					append(append([]byte(nil), internaltypes.SubjectPrefix...), 0x00),
					append(append([]byte(nil), internaltypes.SubjectPrefix...), 0x01),
				)
				defer subjectIt.Close()

				var values [][]byte
				for ; subjectIt.Valid(); subjectIt.Next() {
					values = append(values, subjectIt.Value())
				}
				s.Require().Equal([][]byte{[]byte("subject-value-2"), []byte("subject-value")}, values)

				substituteIt := wrappedStore.ReverseIterator(
					append(append([]byte(nil), internaltypes.SubstitutePrefix...), 0x00),
					append(append([]byte(nil), internaltypes.SubstitutePrefix...), 0x01),
				)
				defer substituteIt.Close()

				values = nil
				for ; substituteIt.Valid(); substituteIt.Next() {
					values = append(values, substituteIt.Value())
				}
				s.Require().Equal([][]byte{[]byte("substitute-value")}, values)
			})
		}
	}
}
