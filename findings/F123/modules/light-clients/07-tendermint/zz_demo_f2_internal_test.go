package tendermint

import (
	"math"
	"testing"
	"time"

	"github.com/stretchr/testify/require"

	storetypes "github.com/cosmos/cosmos-sdk/store/v2/types"
	"github.com/cosmos/cosmos-sdk/testutil"

	clienttypes "github.com/cosmos/ibc-go/v11/modules/core/02-client/types"
)

// TestDemoF2VerifyDelayPeriodPassedOverflow demonstrates that a delay period whose sum with the
// processed time (or processed height) overflows uint64 must be treated as "not passed".
func TestDemoF2VerifyDelayPeriodPassedOverflow(t *testing.T) {
	key := storetypes.NewKVStoreKey("ibc")
	tkey := storetypes.NewTransientStoreKey("transient_ibc")

	now := time.Now().UTC()
	const currentHeight = 100
	ctx := testutil.DefaultContext(key, tkey).
		WithChainID("testchain-1").
		WithBlockHeight(currentHeight).
		WithBlockTime(now)

	clientStore := ctx.KVStore(key)
	proofHeight := clienttypes.NewHeight(1, 10)

	// consensus state was processed "just now" at the current height
	SetProcessedTime(clientStore, proofHeight, uint64(now.UnixNano()))
	SetProcessedHeight(clientStore, proofHeight, clienttypes.NewHeight(1, currentHeight))

	// sanity checks: small delays behave as expected
	require.NoError(t, verifyDelayPeriodPassed(ctx, clientStore, proofHeight, 0, 0))
	require.ErrorIs(t, verifyDelayPeriodPassed(ctx, clientStore, proofHeight, 10, 0), ErrDelayPeriodNotPassed)
	require.ErrorIs(t, verifyDelayPeriodPassed(ctx, clientStore, proofHeight, 0, 10), ErrDelayPeriodNotPassed)

	t.Run("time delay overflow", func(t *testing.T) {
		err := verifyDelayPeriodPassed(ctx, clientStore, proofHeight, math.MaxUint64-5, 0)
		require.Error(t, err, "processedTime + delayTimePeriod wraps around; the delay can never have passed")
	})

	t.Run("block delay overflow", func(t *testing.T) {
		err := verifyDelayPeriodPassed(ctx, clientStore, proofHeight, 0, math.MaxUint64-5)
		require.Error(t, err, "processedHeight + delayBlockPeriod wraps around; the delay can never have passed")
	})
}
