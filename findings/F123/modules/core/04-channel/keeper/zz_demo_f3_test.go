package keeper_test

import (
	"testing"

	"github.com/stretchr/testify/require"

	clienttypes "github.com/cosmos/ibc-go/v11/modules/core/02-client/types"
	"github.com/cosmos/ibc-go/v11/modules/core/04-channel/types"
	"github.com/cosmos/ibc-go/v11/modules/core/exported"
	localhost "github.com/cosmos/ibc-go/v11/modules/light-clients/09-localhost"
	ibctesting "github.com/cosmos/ibc-go/v11/testing"
	ibcmock "github.com/cosmos/ibc-go/v11/testing/mock"
)

// TestDemoF3LocalhostTimeoutWithFutureProofHeight demonstrates that a MsgTimeout over a
// localhost (loopback) channel must be rejected when the packet's height timeout has not
// been reached on the chain, even if the relayer supplies a proof height far in the future.
func TestDemoF3LocalhostTimeoutWithFutureProofHeight(t *testing.T) {
	coordinator := ibctesting.NewCoordinator(t, 1)
	chain := coordinator.GetChain(ibctesting.GetChainID(1))
	coordinator.CommitNBlocks(chain, 2)

	signer := chain.SenderAccount.GetAddress().String()
	hops := []string{exported.LocalhostConnectionID}
	portID := ibcmock.PortID

	selfHeight := func() clienttypes.Height {
		return clienttypes.GetSelfHeight(chain.GetContext())
	}

	// ---- channel handshake over the localhost connection (loopback: both ends on the same chain) ----
	res, err := chain.SendMsgs(types.NewMsgChannelOpenInit(portID, ibcmock.Version, types.UNORDERED, hops, portID, signer))
	require.NoError(t, err)
	chanA, err := ibctesting.ParseChannelIDFromEvents(res.Events)
	require.NoError(t, err)

	res, err = chain.SendMsgs(types.NewMsgChannelOpenTry(
		portID, ibcmock.Version, types.UNORDERED, hops,
		portID, chanA, ibcmock.Version,
		localhost.SentinelProof, selfHeight(), signer,
	))
	require.NoError(t, err)
	chanB, err := ibctesting.ParseChannelIDFromEvents(res.Events)
	require.NoError(t, err)
	require.NotEqual(t, chanA, chanB)

	_, err = chain.SendMsgs(types.NewMsgChannelOpenAck(portID, chanA, chanB, ibcmock.Version, localhost.SentinelProof, selfHeight(), signer))
	require.NoError(t, err)

	_, err = chain.SendMsgs(types.NewMsgChannelOpenConfirm(portID, chanB, localhost.SentinelProof, selfHeight(), signer))
	require.NoError(t, err)

	channelKeeper := chain.App.GetIBCKeeper().ChannelKeeper
	chA, found := channelKeeper.GetChannel(chain.GetContext(), portID, chanA)
	require.True(t, found)
	require.Equal(t, types.OPEN, chA.State)
	chB, found := channelKeeper.GetChannel(chain.GetContext(), portID, chanB)
	require.True(t, found)
	require.Equal(t, types.OPEN, chB.State)

	// ---- send a packet with a height timeout 1000 blocks in the future and no timestamp timeout ----
	current := selfHeight()
	timeoutHeight := clienttypes.NewHeight(current.GetRevisionNumber(), current.GetRevisionHeight()+1000)

	sequence, err := channelKeeper.SendPacket(chain.GetContext(), portID, chanA, timeoutHeight, 0, ibcmock.MockPacketData)
	require.NoError(t, err)
	coordinator.CommitBlock(chain)

	packet := types.NewPacket(ibcmock.MockPacketData, sequence, portID, chanA, portID, chanB, timeoutHeight, 0)
	require.True(t, channelKeeper.HasPacketCommitment(chain.GetContext(), portID, chanA, sequence))

	// the chain is nowhere near the timeout height
	current = selfHeight()
	require.True(t, current.LT(timeoutHeight), "current height %s, timeout height %s", current, timeoutHeight)

	// ---- relayer submits MsgTimeout with the sentinel proof and a proof height far in the future ----
	bogusProofHeight := clienttypes.NewHeight(current.GetRevisionNumber(), current.GetRevisionHeight()+100000)
	_, timeoutErr := chain.SendMsgs(types.NewMsgTimeout(packet, 1, localhost.SentinelProof, bogusProofHeight, signer))

	commitmentDeleted := !channelKeeper.HasPacketCommitment(chain.GetContext(), portID, chanA, sequence)

	// informational only: check whether the packet can still be received after the premature timeout
	if timeoutErr == nil {
		_, recvErr := chain.SendMsgs(types.NewMsgRecvPacket(packet, localhost.SentinelProof, selfHeight(), signer))
		_, receiptFound := channelKeeper.GetPacketReceipt(chain.GetContext(), portID, chanB, sequence)
		t.Logf("MsgTimeout accepted at height %s (timeout height %s, proof height %s); commitment deleted: %t; subsequent MsgRecvPacket err: %v; receipt written: %t",
			current, timeoutHeight, bogusProofHeight, commitmentDeleted, recvErr, receiptFound)
	}

	require.Error(t, timeoutErr, "MsgTimeout with a proof height above the chain's own height must be rejected: the packet's timeout height %s has not been reached (current height %s)", timeoutHeight, current)
	require.False(t, commitmentDeleted, "packet commitment must not be deleted by a premature timeout")
}
