package keeper

import (
	"testing"

	"github.com/stretchr/testify/require"

	"github.com/cosmos/cosmos-sdk/codec"
	codectypes "github.com/cosmos/cosmos-sdk/codec/types"
	"github.com/cosmos/cosmos-sdk/runtime"
	storetypes "github.com/cosmos/cosmos-sdk/store/v2/types"
	"github.com/cosmos/cosmos-sdk/testutil"

	"github.com/cosmos/ibc-go/v11/modules/core/03-connection/types"
)

// TestDemoF1GetBlockDelayExact demonstrates that getBlockDelay must return
// ceil(delayPeriod / maxExpectedTimePerBlock) exactly for all 64-bit inputs.
// The float64 based computation is inexact above 2^53.
func TestDemoF1GetBlockDelayExact(t *testing.T) {
	key := storetypes.NewKVStoreKey("ibc")
	tkey := storetypes.NewTransientStoreKey("transient_ibc")
	ctx := testutil.DefaultContext(key, tkey)

	cdc := codec.NewProtoCodec(codectypes.NewInterfaceRegistry())
	k := NewKeeper(cdc, runtime.NewKVStoreService(key), nil)

	const two53 = uint64(1) << 53
	const two52 = uint64(1) << 52

	testCases := []struct {
		name                    string
		maxExpectedTimePerBlock uint64
		delayPeriod             uint64
		expBlockDelay           uint64
	}{
		{"sanity: 30s blocks, 60s+1ns delay", 30_000_000_000, 60_000_000_001, 3},
		{"1ns blocks, delay 2^53+1", 1, two53 + 1, two53 + 1},
		{"2ns blocks, delay 2^53+1", 2, two53 + 1, two52 + 1},
		{"30s blocks, delay 30e9*4e8+1", 30_000_000_000, 30_000_000_000*400_000_000 + 1, 400_000_001},
	}

	for _, tc := range testCases {
		t.Run(tc.name, func(t *testing.T) {
			k.SetParams(ctx, types.NewParams(tc.maxExpectedTimePerBlock))
			connection := types.ConnectionEnd{DelayPeriod: tc.delayPeriod}

			got := k.getBlockDelay(ctx, connection)
			require.Equal(t, tc.expBlockDelay, got,
				"getBlockDelay(delayPeriod=%d, maxExpectedTimePerBlock=%d)", tc.delayPeriod, tc.maxExpectedTimePerBlock)
		})
	}
}
