#!/usr/bin/env python3
"""Print the sub-agent prompt for a property id (only the property text + its own worktree; nothing from /verif)."""
import json,sys
pid=sys.argv[1]
n=sys.argv[2] if len(sys.argv)>2 else "1"
p=[json.loads(l) for l in open('/verif/properties.jsonl') if json.loads(l)['id']==pid][0]
wt=f"/tmp/wt/{pid}" + ("" if n=="1" else f"_{n}")
print(f"""You are given a scratch git worktree of the Go repository cosmos/ibc-go (v11 development snapshot) at {wt}. Work ONLY inside {wt}; never touch /repo or /verif (do not even read /verif).

Property of ibc-go that is supposed to hold ("{p['title']}"):
{p['statement']}
(Quantified over: {p['quantifier']['text']})

Your task: produce ONE realistic change to the PRODUCTION (non-test) Go code of ibc-go in that worktree that BREAKS this property, while (a) the repository still compiles (go build ./... and go vet-free test compilation) and (b) the existing tests of the packages you touch (and their obvious dependents) still pass. The change should look like a plausible regression or a subtle bug a developer could introduce (a dropped or weakened check, a wrong identifier/argument, an off-by-one comparison, a missing or misplaced state write, use of the wrong context/store, an early return, two cooperating edits that each look fine alone...). It must need something specific to manifest — a particular interleaving or multi-step sequence of operations, an unusual input, a fault at a particular point — and must NOT be something ordinary use or the existing tests expose at once. Do not edit or delete existing tests. Prefer a small diff (1-15 lines) in the code that implements the mechanism behind the property. Try to pick a site/mechanism that is not the most obvious one if several exist.

Also write a demonstration: a new Go test file (placed in the appropriate package directory, name it zz_demo_{pid.lower()}_test.go) that FAILS with your change applied and PASSES without it (on the pristine tree). Use the repository's existing test helpers (testing/ package, ibctesting coordinator, suite patterns) as the other tests do.

Environment (offline sandbox): prefix every shell command with
  export GOFLAGS=-mod=mod GOPROXY=off GOSUMDB=off GOTOOLCHAIN=local PATH=/opt/veriftools/go1.26.8/bin:$PATH; unset GOWORK
Run tests narrowly, e.g. `cd {wt} && go test ./modules/core/04-channel/keeper/ -run 'TestKeeperTestSuite/TestRecvPacket' -count=1` — whole-suite runs are slow; run the full test set of each package you changed once at the end (`go test <pkg> -count=1`), plus `go build ./...`.

Deliverables (all under {wt}/out/):
  1. patch.diff  — `git diff` of the production-code change ONLY (no test files), relative to the worktree root, applicable with `git apply`.
  2. the demonstration test file (copy it there too, keep its intended path in meta.json).
  3. meta.json — {{"property":"{pid}","summary":"what the change does","needs":"what is needed for it to manifest","demo_path":"<path of the demo test in the repo>","demo_cmd":"<go test command that fails with the patch and passes without>","packages_tested":["..."],"existing_tests_pass":true}}
Verify both directions yourself (with the patch: demo fails, existing package tests pass; without the patch — `git stash` or `git apply -R` — demo passes). When done, leave the worktree with the patch applied and report briefly what you changed, where, and the commands you ran with their results.""")
