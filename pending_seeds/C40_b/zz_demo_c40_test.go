package ibccallbacks_test

import (
	"errors"
	"fmt"

	storetypes "github.com/cosmos/cosmos-sdk/store/v2/types"
	sdk "github.com/cosmos/cosmos-sdk/types"

	"github.com/cosmos/ibc-go/v11/modules/apps/callbacks/internal"
	"github.com/cosmos/ibc-go/v11/modules/apps/callbacks/types"
)

// TestDemoC40OutOfGasReportedAsError covers contract keepers whose VM traps the out of gas
// condition itself and reports it as a regular error instead of letting the gas meter panic
// propagate (the gas meter of the callback context is still past its limit).
func (s *CallbacksTestSuite) TestDemoC40OutOfGasReportedAsError() {
	vmErr := errors.New("vm: execution reverted: out of gas")

	// oogExecutor burns more gas than the execution limit, traps the gas meter panic like a VM
	// would do and surfaces it as an error.
	oogExecutor := func(cachedCtx sdk.Context) (err error) {
		defer func() {
			if r := recover(); r != nil {
				if _, ok := r.(storetypes.ErrorOutOfGas); !ok {
					panic(r)
				}
				err = vmErr
			}
		}()
		cachedCtx.GasMeter().ConsumeGas(cachedCtx.GasMeter().Limit()+1, "contract execution")
		return nil
	}

	for _, callbackType := range []types.CallbackType{
		types.CallbackTypeAcknowledgementPacket,
		types.CallbackTypeTimeoutPacket,
		types.CallbackTypeReceivePacket,
	} {
		s.Run(fmt.Sprintf("%s: relayer supplied less than the committed limit", callbackType), func() {
			s.setupChains()
			ctx := s.chainB.GetContext()

			callbackData := types.CallbackData{
				CallbackAddress:   s.chainB.SenderAccount.GetAddress().String(),
				SenderAddress:     s.chainB.SenderAccount.GetAddress().String(),
				ExecutionGasLimit: 400_000,
				CommitGasLimit:    1_000_000,
			}
			s.Require().True(callbackData.AllowRetry())

			// the whole transaction must be aborted so that it can be retried with more gas
			s.Require().PanicsWithValue(
				storetypes.ErrorOutOfGas{Descriptor: fmt.Sprintf("ibc %s callback out of gas; commitGasLimit: %d", callbackType, callbackData.CommitGasLimit)},
				func() {
					_ = internal.ProcessCallback(ctx, callbackType, callbackData, oogExecutor)
				},
			)
			s.Require().Equal(callbackData.ExecutionGasLimit, ctx.GasMeter().GasConsumed())
		})

		s.Run(fmt.Sprintf("%s: relayer supplied the committed limit", callbackType), func() {
			s.setupChains()
			ctx := s.chainB.GetContext()

			callbackData := types.CallbackData{
				CallbackAddress:   s.chainB.SenderAccount.GetAddress().String(),
				SenderAddress:     s.chainB.SenderAccount.GetAddress().String(),
				ExecutionGasLimit: 400_000,
				CommitGasLimit:    400_000,
			}
			s.Require().False(callbackData.AllowRetry())

			var err error
			s.Require().NotPanics(func() {
				err = internal.ProcessCallback(ctx, callbackType, callbackData, oogExecutor)
			})
			s.Require().ErrorIs(err, types.ErrCallbackOutOfGas)
			s.Require().Equal(callbackData.ExecutionGasLimit, ctx.GasMeter().GasConsumed())
		})
	}
}
