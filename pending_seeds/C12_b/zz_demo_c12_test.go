package keeper_test

import (
	"github.com/cosmos/ibc-go/v11/modules/core/04-channel/types"
	host "github.com/cosmos/ibc-go/v11/modules/core/24-host"
	ibctesting "github.com/cosmos/ibc-go/v11/testing"
)

// TestDemoC12ClosedChannelCannotBeConfirmedOpen checks that CLOSED is a terminal channel state:
// a channel end which was closed while in TRYOPEN must not be moved to OPEN by a
// (valid, honestly proven) MsgChannelOpenConfirm that arrives afterwards.
func (s *KeeperTestSuite) TestDemoC12ClosedChannelCannotBeConfirmedOpen() {
	path := ibctesting.NewPath(s.chainA, s.chainB)
	path.SetupConnections()
	path.SetChannelOrdered()

	s.Require().NoError(path.EndpointA.ChanOpenInit())
	s.Require().NoError(path.EndpointB.ChanOpenTry())
	s.Require().NoError(path.EndpointA.ChanOpenAck())
	s.Require().Equal(types.OPEN, path.EndpointA.GetChannel().State)

	// chain B closes its end while it is still in TRYOPEN (TRYOPEN -> CLOSED)
	s.Require().NoError(path.EndpointB.ChanCloseInit())
	s.Require().Equal(types.CLOSED, path.EndpointB.GetChannel().State)

	// the (late) open confirm is relayed to chain B with a valid proof that A is OPEN
	err := path.EndpointB.ChanOpenConfirm()
	s.Require().Error(err, "open confirm on a CLOSED channel end must be rejected")
	s.Require().Contains(err.Error(), types.ErrInvalidChannelState.Error())

	// CLOSED is terminal
	s.Require().Equal(types.CLOSED, path.EndpointB.GetChannel().State, "CLOSED channel end was re-opened")

	// keeper level check as well
	s.Require().NoError(path.EndpointB.UpdateClient())
	channelKey := host.ChannelKey(path.EndpointA.ChannelConfig.PortID, path.EndpointA.ChannelID)
	proof, proofHeight := s.chainA.QueryProof(channelKey)
	err = s.chainB.App.GetIBCKeeper().ChannelKeeper.ChanOpenConfirm(
		s.chainB.GetContext(), path.EndpointB.ChannelConfig.PortID, path.EndpointB.ChannelID, proof, proofHeight,
	)
	s.Require().ErrorIs(err, types.ErrInvalidChannelState)
}
