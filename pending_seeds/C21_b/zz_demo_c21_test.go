package tendermint_test

import (
	"time"

	clienttypes "github.com/cosmos/ibc-go/v11/modules/core/02-client/types"
	connectiontypes "github.com/cosmos/ibc-go/v11/modules/core/03-connection/types"
	"github.com/cosmos/ibc-go/v11/modules/core/exported"
	ibctm "github.com/cosmos/ibc-go/v11/modules/light-clients/07-tendermint"
	ibctesting "github.com/cosmos/ibc-go/v11/testing"
)

// TestDemoC21StatusExpiryMeasuredFromConsensusTimestamp checks that a tendermint client is Expired as soon as
// the trusting period has elapsed since the timestamp of its latest consensus state (the counterparty header time),
// regardless of when that header was processed locally, and that the expired client cannot be used to start a handshake.
func (s *TendermintTestSuite) TestDemoC21StatusExpiryMeasuredFromConsensusTimestamp() {
	path := ibctesting.NewPath(s.chainA, s.chainB)
	path.SetupClients()

	// let some local time pass on chain A and update the client: the new consensus state carries the
	// (older) counterparty header time, while it is processed at the (newer) local block time.
	s.coordinator.CommitNBlocks(s.chainA, 3)
	s.Require().NoError(path.EndpointA.UpdateClient())

	clientID := path.EndpointA.ClientID
	clientState, ok := path.EndpointA.GetClientState().(*ibctm.ClientState)
	s.Require().True(ok)

	consState, found := s.chainA.GetConsensusState(clientID, clientState.LatestHeight)
	s.Require().True(found)
	tmConsState, ok := consState.(*ibctm.ConsensusState)
	s.Require().True(ok)

	clientKeeper := s.chainA.App.GetIBCKeeper().ClientKeeper

	// sanity: the header was processed strictly after its own timestamp
	store := clientKeeper.ClientStore(s.chainA.GetContext(), clientID)
	processedTime, found := ibctm.GetProcessedTime(store, clientState.LatestHeight)
	s.Require().True(found)
	s.Require().Greater(int64(processedTime), tmConsState.Timestamp.UnixNano())

	// one nanosecond before the trusting period elapses: Active
	expiry := tmConsState.Timestamp.Add(clientState.TrustingPeriod)
	ctx := s.chainA.GetContext().WithBlockTime(expiry.Add(-1))
	s.Require().Equal(exported.Active, clientKeeper.GetClientStatus(ctx, clientID))

	// exactly when / just after the trusting period has elapsed since the latest consensus state: Expired
	for _, now := range []int64{0, 1, 1_000_000_000} {
		ctx = s.chainA.GetContext().WithBlockTime(expiry.Add(time.Duration(now)))
		s.Require().Equal(exported.Expired, clientKeeper.GetClientStatus(ctx, clientID), "offset %d", now)

		// no handshake step may be started through the expired client
		counterparty := connectiontypes.NewCounterparty(path.EndpointB.ClientID, "", s.chainB.GetPrefix())
		_, err := s.chainA.App.GetIBCKeeper().ConnectionKeeper.ConnOpenInit(ctx, clientID, counterparty, nil, 0)
		s.Require().Error(err, "offset %d", now)
		s.Require().ErrorIs(err, clienttypes.ErrClientNotActive)
	}
}
