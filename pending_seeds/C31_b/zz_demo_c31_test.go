package keeper_test

import (
	sdkmath "cosmossdk.io/math"

	sdk "github.com/cosmos/cosmos-sdk/types"

	pfmtypes "github.com/cosmos/ibc-go/v11/modules/apps/packet-forward-middleware/types"
	transfertypes "github.com/cosmos/ibc-go/v11/modules/apps/transfer/types"
	channeltypes "github.com/cosmos/ibc-go/v11/modules/core/04-channel/types"
	ibctesting "github.com/cosmos/ibc-go/v11/testing"
)

// TestDemoC31ForwardRefundKeepsTotalEscrow checks that the tracked total escrow on the
// middle chain (B) equals the combined balance of the transfer escrow accounts after a
// forwarded packet (A -> B -> C, token native to C) is refunded because C returned an error ack,
// while some of the same voucher is still escrowed on B towards A.
func (s *KeeperTestSuite) TestDemoC31ForwardRefundKeepsTotalEscrow() {
	pathAB := ibctesting.NewTransferPath(s.chainA, s.chainB)
	pathAB.Setup()
	pathBC := ibctesting.NewTransferPath(s.chainB, s.chainC)
	pathBC.Setup()

	ctxB := s.chainB.GetContext()
	bankB := s.chainB.GetSimApp().BankKeeper
	transferB := s.chainB.GetSimApp().TransferKeeper
	pfmB := s.chainB.GetSimApp().PFMKeeper

	portB := pathBC.EndpointA.ChannelConfig.PortID
	chanBC := pathBC.EndpointA.ChannelID // B's end of the B<->C channel
	chanBA := pathAB.EndpointB.ChannelID // B's end of the A<->B channel

	// voucher on B of a token native to C
	denom := transfertypes.NewDenom("uatomc", transfertypes.NewHop(portB, chanBC))
	voucher := denom.IBCDenom()
	transferB.SetDenom(ctxB, denom)

	holder := s.chainB.SenderAccount.GetAddress()
	intermediate := s.chainB.SenderAccounts[1].SenderAccount.GetAddress()
	escrowBA := transfertypes.GetEscrowAddress(portB, chanBA)
	escrowBC := transfertypes.GetEscrowAddress(portB, chanBC)

	// 100 vouchers exist on B (received earlier from C)
	hundred := sdk.NewCoin(voucher, sdkmath.NewInt(100))
	s.Require().NoError(bankB.MintCoins(ctxB, transfertypes.ModuleName, sdk.NewCoins(hundred)))
	s.Require().NoError(bankB.SendCoinsFromModuleToAccount(ctxB, transfertypes.ModuleName, holder, sdk.NewCoins(hundred)))

	// step 1: the holder sends all 100 vouchers on to chain A: escrowed on B
	s.Require().NoError(transferB.SendTransfer(ctxB, portB, chanBA, transfertypes.Token{Denom: denom, Amount: "100"}, holder))
	s.Require().Equal(sdkmath.NewInt(100), transferB.GetTotalEscrowForDenom(ctxB, voucher).Amount)

	// step 2: A sends 30 back with a forward to C. B receives (unescrow to the intermediate account) ...
	thirty := sdk.NewCoin(voucher, sdkmath.NewInt(30))
	s.Require().NoError(transferB.UnescrowCoin(ctxB, escrowBA, intermediate, thirty))
	// ... and forwards to C (token returns to its source: burned)
	s.Require().NoError(transferB.SendTransfer(ctxB, portB, chanBC, transfertypes.Token{Denom: denom, Amount: "30"}, intermediate))
	s.Require().Equal(sdkmath.NewInt(70), transferB.GetTotalEscrowForDenom(ctxB, voucher).Amount)

	// step 3: C answers with an error acknowledgement, PFM on B refunds the forwarded packet
	forwarded := channeltypes.Packet{
		Sequence:           1,
		SourcePort:         portB,
		SourceChannel:      chanBC,
		DestinationPort:    pathBC.EndpointB.ChannelConfig.PortID,
		DestinationChannel: pathBC.EndpointB.ChannelID,
	}
	data := transfertypes.NewInternalTransferRepresentation(
		transfertypes.Token{Denom: denom, Amount: "30"},
		intermediate.String(), s.chainC.SenderAccount.GetAddress().String(), "",
	)
	inFlight := &pfmtypes.InFlightPacket{
		OriginalSenderAddress: s.chainA.SenderAccount.GetAddress().String(),
		RefundChannelId:       chanBA,
		RefundPortId:          portB,
		PacketSrcChannelId:    pathAB.EndpointA.ChannelID,
		PacketSrcPortId:       pathAB.EndpointA.ChannelConfig.PortID,
		PacketTimeoutHeight:   "1-1000",
		PacketData:            []byte("data"),
		RefundSequence:        1,
	}
	err := pfmB.WriteAcknowledgementForForwardedPacket(ctxB, forwarded, data, inFlight, channeltypes.NewErrorAcknowledgement(transfertypes.ErrReceiveFailed))
	s.Require().NoError(err)

	// the tracked total must equal the combined balance of all transfer escrow accounts
	combined := bankB.GetBalance(ctxB, escrowBA, voucher).Amount.Add(bankB.GetBalance(ctxB, escrowBC, voucher).Amount)
	s.Require().Equal(sdkmath.NewInt(100), combined)
	tracked := transferB.GetTotalEscrowForDenom(ctxB, voucher).Amount
	s.Require().True(tracked.Equal(combined), "tracked total escrow %s != combined escrow balance %s", tracked, combined)
}
