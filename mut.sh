#!/bin/bash
# usage: mut.sh <prop> <file-under-/repo> <sed-expr>  — apply a one-off mutation, run the check, revert
prop=$1; f=$2; expr=$3
cd /repo && sed -i "$expr" "$f" && git diff --stat | tail -1
cd /verif && ./check.sh $prop quick 2>&1 | grep -v "^KNOWN" | cut -c1-300 | head -${4:-8}
git -C /repo checkout -- .
