#!/bin/bash
# usage: mut.sh <prop[,prop...]> <file-under-/repo> <sed-expr> [lines]
# One-off mutation for testing the checker: the sed expression is applied to a scratch COPY of the file, the
# resulting diff is handed to `ibcverif check --patch` (in-memory overlay). /repo is never modified.
props=$1; f=$2; expr=$3
. /verif/env.sh
t=$(mktemp -d /tmp/mut.XXXXXX); mkdir -p $t/a/$(dirname $f) $t/b/$(dirname $f)
cp /repo/$f $t/a/$f; sed "$expr" /repo/$f > $t/b/$f
(cd $t && diff -u a/$f b/$f > m.diff)
if [ ! -s $t/m.diff ]; then echo "mutation changed nothing"; rm -rf $t; exit 2; fi
grep -c '^[-+][^-+]' $t/m.diff | sed 's/^/changed lines: /'
for p in ${props//,/ }; do
  /verif/bin/ibcverif check $p --patch $t/m.diff 2>&1 | grep -v "^KNOWN\|^analysing" | cut -c1-300 | head -${4:-8}
done
rm -rf $t
