#!/bin/bash
# confirm_seed.sh <dir-with-out/> <seed-name>: independently confirm a seeded change in a fresh worktree:
# demo passes on pristine HEAD, fails with patch; existing tests of the touched packages pass with patch.
# On success stores it under /verif/seeded/<seed-name>/.
src=$1; name=$2
. /verif/env.sh
wt=/tmp/cf/$name; rm -rf $wt; mkdir -p /tmp/cf
git -C /repo worktree add -q --detach $wt HEAD || exit 2
meta=$src/out/meta.json
demo_path=$(jq -r .demo_path $meta); demo_cmd=$(jq -r .demo_cmd $meta)
demo_file=$(ls $src/out/*_test.go | head -1)
log=/tmp/cf/$name.log; : > $log
cd $wt
pkgdir=$(dirname $demo_path)
# the demo command may contain a cd into the agent's worktree; rewrite paths
demo_cmd=${demo_cmd//$src/$wt}
cp $demo_file $wt/$demo_path
echo "== pristine + demo: $demo_cmd" >> $log
( eval "$demo_cmd" ) >> $log 2>&1; r1=$?
git apply $src/out/patch.diff >> $log 2>&1 || { echo "PATCH DOES NOT APPLY" >> $log; r1=99; }
echo "== patched + demo" >> $log
( eval "$demo_cmd" ) >> $log 2>&1; r2=$?
rm -f $wt/$demo_path
echo "== patched, existing tests of touched packages" >> $log
pkgs=$(git diff --name-only | xargs -n1 dirname | sort -u | sed 's|^|./|')
go build ./... >> $log 2>&1; rb=$?
go test $pkgs -count=1 >> $log 2>&1; r3=$?
echo "RESULT pristine_demo=$r1 patched_demo=$r2 build=$rb existing=$r3" | tee -a $log
if [ $r1 -eq 0 ] && [ $r2 -ne 0 ] && [ $rb -eq 0 ] && [ $r3 -eq 0 ]; then
  mkdir -p /verif/seeded/$name
  cp $src/out/patch.diff /verif/seeded/$name/patch.diff
  cp $demo_file /verif/seeded/$name/
  jq --arg ran "pristine+demo: pass; patched+demo: fail; patched go build ./...: ok; patched go test $pkgs: pass (confirmed in a fresh worktree of /repo HEAD by confirm_seed.sh)" '. + {confirmed_by_me: $ran}' $meta > /verif/seeded/$name/meta.json
  echo CONFIRMED
else
  echo NOT-CONFIRMED
fi
cd /; git -C /repo worktree remove --force $wt
