#!/bin/bash
# f.sh <entry> <glob>: facts only (no effect atoms except KV writes), first event only
W=${W:-360} /verif/d.sh "$1" "$2" $3 | grep -v "PacketI\|^   | KV.Get\|^   | errnil(\|^   | ok(KV\|^   | call:\|Router\|haskey\|AccAddressFromBech32\|strings.TrimSpace\|KeyPrefix\|field:Prefix\|ParseClientIdentifier" | awk -v N=${N:-1} '/^== /{n++} n<=N'
