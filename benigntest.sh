#!/bin/bash
# benigntest.sh <dir-with-rNN.diff> <parallel> <prop>...: run the given checks on /repo + each behaviour-preserving
# refactor (in memory). Every line "ALARM" is a false alarm of the checker (after confirming the refactor really
# preserves behaviour). For testing the checker.
dir=$1; par=$2; shift 2
. /verif/env.sh
one() {
  d=$1; p=$2
  t=$(mktemp -d /tmp/ben.XXXXXX)
  out=$(/verif/bin/ibcverif check $p --patch $d --evidence-dir $t 2>&1); rc=$?
  if [ $rc -eq 0 ]; then r=quiet
  elif echo "$out" | grep -q "cannot load/type-check"; then r=NOCOMPILE
  elif [ $rc -eq 1 ]; then r="ALARM $(echo "$out" | grep '^REFUTED\|^UNDECIDED' | cut -c1-330 | head -3 | tr '\n' '|')"
  else r="ERROR rc=$rc $(echo "$out" | tail -1 | cut -c1-160)"; fi
  echo "$(basename $d)	$p	$r"
  rm -rf $t
}
export -f one
for d in $dir/r*.diff; do for p in "$@"; do printf '%s\0%s\0' "$d" "$p"; done; done | xargs -0 -n 2 -P $par bash -c 'one "$@"' _
