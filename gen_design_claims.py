#!/usr/bin/env python3
"""Regenerate the '* **Cnn** — …' lines of DESIGN.md §0a "Per-property claims as built" from MANIFEST.json
(level_claimed.text is the rule registry's LevelText). Run after gen_manifest.py."""
import json, re
m = json.load(open('/verif/MANIFEST.json'))
claims = {c['property_id']: c['level_claimed']['text'] for c in m['checks']}
lines = open('/verif/DESIGN.md').read().split('\n')
out = []
seen = set()
for l in lines:
    mm = re.match(r'^\* \*\*(C\d\d)\*\* — ', l)
    if mm and mm.group(1) in claims:
        pid = mm.group(1)
        out.append(f"* **{pid}** — {claims[pid]}")
        seen.add(pid)
    else:
        out.append(l)
missing = sorted(set(claims) - seen)
if missing:
    raise SystemExit(f"claims without a line in DESIGN.md: {missing}")
open('/verif/DESIGN.md', 'w').write('\n'.join(out))
print(f"updated {len(seen)} claim lines")
