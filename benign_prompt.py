#!/usr/bin/env python3
"""Print the sub-agent prompt for a *behaviour-preserving refactor* batch over a group of properties.
Usage: benign_prompt.py <group-name> <id> <id> ...   (the agent gets only property texts + its own worktree)."""
import json,sys
grp=sys.argv[1]; ids=sys.argv[2:]
props={json.loads(l)['id']:json.loads(l) for l in open('/verif/properties.jsonl')}
wt=f"/tmp/wt/benign_{grp}"
txt=[]
for i in ids:
    p=props[i]
    anch="; ".join(m['where'] for m in p['anchors'].get('mechanism',[]))
    txt.append(f"- {i} \"{p['title']}\": {p['statement']}\n  (code: {', '.join(p['anchors']['files'])}; mechanisms: {anch})")
nl="\n"
print(f"""You are given a scratch git worktree of the Go repository cosmos/ibc-go (v11 development snapshot) at {wt}. Work ONLY inside {wt}; never touch /repo or /verif (do not even read /verif).

These properties of ibc-go hold on this tree and MUST KEEP HOLDING after each of your changes:
{nl.join(txt)}

Your task: produce TEN independent, realistic, BEHAVIOUR-PRESERVING refactors of the PRODUCTION (non-test) Go code that implements the mechanisms behind these properties — the kind of clean-up a maintainer would merge without a second thought, after which every property above is exactly as true as before. Each refactor must touch the functions that implement these mechanisms (not comments only, not unrelated files). Spread them over the listed properties and over different styles, for example: extracting a block into a new helper function or method; inlining a small helper into its caller; reordering two independent validation checks; replacing an if/else chain by a switch (or back); inverting a condition with early return; renaming local variables, parameters or unexported functions; changing error-message wording or wrapping (same sentinel error); adding a log line, a telemetry counter or an extra event attribute; introducing a local variable for a repeated expression or removing one; turning a range loop into an index loop; moving a store lookup earlier/later when nothing in between depends on it; passing a value through a small struct or an extra parameter; replacing a hand-written loop by slices.Contains / a helper. Sizes from 3 to 40 changed lines. Do NOT change behaviour, stored bytes, keys, events consumed by tests, or public APIs used outside the package; do not edit tests.

Each refactor must, on its own (applied to the pristine tree), compile (`go build ./...`) and pass the existing tests of the packages it touches.

Environment (offline sandbox): prefix every shell command with
  export GOFLAGS=-mod=mod GOPROXY=off GOSUMDB=off GOTOOLCHAIN=local PATH=/opt/veriftools/go1.26.8/bin:$PATH; unset GOWORK
Run tests narrowly (`cd {wt} && go test ./modules/core/04-channel/keeper/ -count=1`); whole-suite runs are slow. The module modules/light-clients/08-wasm has its own go.mod (cd into it to build/test).

Procedure for each refactor k = 01..10: make the edit, build, run the touched packages' tests, save `git diff > {wt}/out/r<k>.diff`, then `git checkout -- .` to return to the pristine tree before the next one (each diff must apply to the pristine tree with `git apply`).

Deliverables under {wt}/out/: r01.diff … r10.diff and index.json = a list of {{"file":"r01.diff","style":"<which style>","functions":["pkg.Func", ...],"properties_nearby":["C..",...],"why_behaviour_is_unchanged":"one sentence","tests_run":"<command> -> ok"}}. Finish with a short report.""")
