// Package automata decides emptiness of intersection and ambiguity for the
// regular languages denoted by key layouts (sequences of segments). All
// decisions are exact constructions over the byte alphabet, for every
// identifier and sequence value at once.
package automata

// Seg is one segment of a layout language.
type Seg struct {
	Kind  byte      // 'L' literal, 'C' class+ (one or more bytes of Class), 'D' decimal uint64, 'F' fixed n arbitrary bytes, 'A' any bytes*, 'U' union of alternatives
	Lit   []byte    // for 'L'
	Class [256]bool // for 'C'
	N     int       // for 'F'
	Alts  [][]Seg   // for 'U'
}

type bitset [4]uint64

func (b *bitset) set(i int)         { b[i>>6] |= 1 << (uint(i) & 63) }
func (b bitset) and(o bitset) bitset { return bitset{b[0] & o[0], b[1] & o[1], b[2] & o[2], b[3] & o[3]} }
func (b bitset) empty() bool        { return b[0]|b[1]|b[2]|b[3] == 0 }
func (b bitset) first() byte {
	for w := 0; w < 4; w++ {
		if b[w] != 0 {
			for i := 0; i < 64; i++ {
				if b[w]&(1<<uint(i)) != 0 {
					return byte(w*64 + i)
				}
			}
		}
	}
	return 0
}

type edge struct {
	to  int
	set bitset
}

// NFA with byte-labelled edges and epsilon edges. State 0 is initial.
type NFA struct {
	edges  [][]edge
	eps    [][]int
	accept []bool
	seg    []int // segment index the state belongs to (for ambiguity)
	clos   [][]int
}

func (n *NFA) newState(seg int) int {
	n.edges = append(n.edges, nil)
	n.eps = append(n.eps, nil)
	n.accept = append(n.accept, false)
	n.seg = append(n.seg, seg)
	return len(n.edges) - 1
}

func (n *NFA) addEdge(s, t int, set bitset) {
	for i := range n.edges[s] {
		if n.edges[s][i].to == t {
			for w := 0; w < 4; w++ {
				n.edges[s][i].set[w] |= set[w]
			}
			return
		}
	}
	n.edges[s] = append(n.edges[s], edge{t, set})
}

func single(b byte) bitset { var s bitset; s.set(int(b)); return s }
func rng(lo, hi byte) bitset {
	var s bitset
	for i := int(lo); i <= int(hi); i++ {
		s.set(i)
	}
	return s
}
func all() bitset { return rng(0, 255) }
func class(c [256]bool) bitset {
	var s bitset
	for i := 0; i < 256; i++ {
		if c[i] {
			s.set(i)
		}
	}
	return s
}

// Build makes the NFA of the concatenation of segs.
func Build(segs []Seg) *NFA {
	n := &NFA{}
	cur := n.newState(0)
	cur = n.buildSeq(cur, segs, -1)
	n.accept[cur] = true
	n.clos = make([][]int, len(n.edges))
	for s := range n.edges {
		seen := map[int]bool{s: true}
		stack := []int{s}
		for len(stack) > 0 {
			x := stack[len(stack)-1]
			stack = stack[:len(stack)-1]
			for _, t := range n.eps[x] {
				if !seen[t] {
					seen[t] = true
					stack = append(stack, t)
				}
			}
		}
		for k := range seen {
			n.clos[s] = append(n.clos[s], k)
		}
	}
	return n
}

// buildSeq appends segs after state cur; fixedSeg >= 0 tags all states with that segment index.
func (n *NFA) buildSeq(cur int, segs []Seg, fixedSeg int) int {
	for si, sg := range segs {
		tag := si
		if fixedSeg >= 0 {
			tag = fixedSeg
		}
		switch sg.Kind {
		case 'L':
			for _, b := range sg.Lit {
				t := n.newState(tag)
				n.addEdge(cur, t, single(b))
				cur = t
			}
		case 'C':
			t := n.newState(tag)
			cs := class(sg.Class)
			n.addEdge(cur, t, cs)
			n.addEdge(t, t, cs)
			cur = t
		case 'A':
			t := n.newState(tag)
			n.eps[cur] = append(n.eps[cur], t)
			n.addEdge(t, t, all())
			cur = t
		case 'F':
			for i := 0; i < sg.N; i++ {
				t := n.newState(tag)
				n.addEdge(cur, t, all())
				cur = t
			}
		case 'D':
			// "0" | [1-9][0-9]{0,19}
			end := n.newState(tag)
			z := n.newState(tag)
			n.addEdge(cur, z, single('0'))
			n.eps[z] = append(n.eps[z], end)
			p := n.newState(tag)
			n.addEdge(cur, p, rng('1', '9'))
			n.eps[p] = append(n.eps[p], end)
			for i := 0; i < 19; i++ {
				q := n.newState(tag)
				n.addEdge(p, q, rng('0', '9'))
				n.eps[q] = append(n.eps[q], end)
				p = q
			}
			cur = end
		case 'U':
			end := n.newState(tag)
			for _, alt := range sg.Alts {
				start := n.newState(tag)
				n.eps[cur] = append(n.eps[cur], start)
				last := n.buildSeq(start, alt, tag)
				n.eps[last] = append(n.eps[last], end)
			}
			cur = end
		}
	}
	return cur
}

// Intersects reports whether L(a) ∩ L(b) is non-empty, with a witness.
func Intersects(a, b *NFA) (bool, []byte) {
	type node struct {
		x, y int
		prev int
		by   byte
	}
	var nodes []node
	seen := map[[2]int]bool{}
	push := func(x, y, prev int, by byte) {
		k := [2]int{x, y}
		if !seen[k] {
			seen[k] = true
			nodes = append(nodes, node{x, y, prev, by})
		}
	}
	for _, x := range a.clos[0] {
		for _, y := range b.clos[0] {
			push(x, y, -1, 0)
		}
	}
	for i := 0; i < len(nodes); i++ {
		nd := nodes[i]
		if a.accept[nd.x] && b.accept[nd.y] {
			var w []byte
			for j := i; nodes[j].prev >= 0; j = nodes[j].prev {
				w = append([]byte{nodes[j].by}, w...)
			}
			return true, w
		}
		for _, ex := range a.edges[nd.x] {
			for _, ey := range b.edges[nd.y] {
				cm := ex.set.and(ey.set)
				if cm.empty() {
					continue
				}
				by := cm.first()
				for _, cx := range a.clos[ex.to] {
					for _, cy := range b.clos[ey.to] {
						push(cx, cy, i, by)
					}
				}
			}
		}
	}
	return false, nil
}

// Ambiguous reports whether some string has two accepting runs that disagree
// on where a segment boundary falls (the concatenation is not uniquely
// decodable). Two runs disagree if at some position they are in states of
// different segments.
func Ambiguous(n *NFA) (bool, []byte) {
	type node struct {
		x, y int
		d    bool
		prev int
		by   byte
	}
	var nodes []node
	seen := map[[3]int]bool{}
	push := func(x, y int, d bool, prev int, by byte) {
		di := 0
		if d {
			di = 1
		}
		k := [3]int{x, y, di}
		if !seen[k] {
			seen[k] = true
			nodes = append(nodes, node{x, y, d, prev, by})
		}
	}
	push(0, 0, false, -1, 0)
	for i := 0; i < len(nodes); i++ {
		nd := nodes[i]
		// acceptance is judged on epsilon-closures
		if nd.d {
			ax, ay := false, false
			for _, cx := range n.clos[nd.x] {
				ax = ax || n.accept[cx]
			}
			for _, cy := range n.clos[nd.y] {
				ay = ay || n.accept[cy]
			}
			if ax && ay {
				var w []byte
				for j := i; nodes[j].prev >= 0; j = nodes[j].prev {
					w = append([]byte{nodes[j].by}, w...)
				}
				return true, w
			}
		}
		for _, sx := range n.clos[nd.x] {
			for _, sy := range n.clos[nd.y] {
				for _, ex := range n.edges[sx] {
					for _, ey := range n.edges[sy] {
						cm := ex.set.and(ey.set)
						if cm.empty() {
							continue
						}
						push(ex.to, ey.to, nd.d || n.seg[ex.to] != n.seg[ey.to], i, cm.first())
					}
				}
			}
		}
	}
	return false, nil
}
