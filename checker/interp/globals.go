package interp

import (
	"go/token"
	"go/types"
	"strings"

	"golang.org/x/tools/go/ssa"

	"ibcverif/load"
	"ibcverif/term"
)

// globalConst resolves a package-level variable of an analysed package to the
// constant bytes/string/number its initialiser assigns, provided no function
// other than the package initialiser ever stores to it. Key prefixes such as
// []byte("clients") thereby become literals in key layouts. The initialiser
// is not interpreted as a whole: only the value stored to the variable is
// evaluated, and only if it is built from constants.
// GlobalConst: the constant a never-reassigned package-level variable is initialised with.
func (e *Engine) GlobalConst(key string) (term.ID, bool) { return e.globalConst(key) }

func (e *Engine) globalConst(key string) (term.ID, bool) {
	if e.globals == nil {
		e.globals = map[string]term.ID{}
		e.globalsDone = map[string]bool{}
		e.mutatedGlobals = map[string]bool{}
		e.globalInit = map[string]ssa.Value{}
		seen := map[*ssa.Function]bool{}
		var scan func(fn *ssa.Function, isInit bool)
		scan = func(fn *ssa.Function, isInit bool) {
			if fn == nil || fn.Blocks == nil || seen[fn] {
				return
			}
			seen[fn] = true
			for _, b := range fn.Blocks {
				for _, ins := range b.Instrs {
					if st, ok := ins.(*ssa.Store); ok {
						if g, ok := st.Addr.(*ssa.Global); ok && g.Pkg != nil {
							k := load.ShortPkg(g.Pkg.Pkg.Path()) + "." + g.Name()
							if isInit {
								if _, dup := e.globalInit[k]; dup {
									e.mutatedGlobals[k] = true
								}
								e.globalInit[k] = st.Val
							} else {
								e.mutatedGlobals[k] = true
							}
						}
					}
				}
			}
			for _, an := range fn.AnonFuncs {
				scan(an, false)
			}
		}
		for _, sp := range e.P.SSAPkgs {
			for _, m := range sp.Members {
				switch m := m.(type) {
				case *ssa.Function:
					scan(m, m.Name() == "init")
				case *ssa.Type:
					for _, t := range []types.Type{m.Type(), types.NewPointer(m.Type())} {
						mset := e.P.SSA.MethodSets.MethodSet(t)
						for i := 0; i < mset.Len(); i++ {
							scan(e.P.SSA.MethodValue(mset.At(i)), false)
						}
					}
				}
			}
		}
	}
	if v, ok := e.globals[key]; ok {
		return v, v != 0
	}
	e.globals[key] = 0 // cut cycles
	iv, ok := e.globalInit[key]
	if !ok || e.mutatedGlobals[key] {
		return 0, false
	}
	t, ok := e.evalConst(iv, 0)
	if !ok {
		return 0, false
	}
	e.globals[key] = t
	return t, true
}

// evalConst evaluates an SSA value built only from constants.
func (e *Engine) evalConst(v ssa.Value, depth int) (term.ID, bool) {
	if depth > 12 {
		return 0, false
	}
	T := e.T
	switch v := v.(type) {
	case *ssa.Const:
		t := e.constTerm(v)
		return t, e.isConstTerm(t, 0)
	case *ssa.Convert:
		x, ok := e.evalConst(v.X, depth+1)
		if !ok {
			return 0, false
		}
		if isString(v.X.Type()) {
			if s, ok := v.Type().Underlying().(*types.Slice); ok {
				if b, ok := s.Elem().Underlying().(*types.Basic); ok && b.Kind() == types.Byte {
					return T.Mk("conv:bytes", x), true
				}
			}
		}
		if isString(v.Type()) && isString(v.X.Type()) {
			return x, true
		}
		return 0, false
	case *ssa.ChangeType:
		return e.evalConst(v.X, depth+1)
	case *ssa.MakeInterface:
		return e.evalConst(v.X, depth+1)
	case *ssa.BinOp:
		if v.Op == token.ADD && isString(v.Type()) {
			x, ok1 := e.evalConst(v.X, depth+1)
			y, ok2 := e.evalConst(v.Y, depth+1)
			if ok1 && ok2 {
				return T.Mk("concat", x, y), true
			}
		}
		return 0, false
	case *ssa.UnOp:
		if v.Op == token.MUL {
			if g, ok := v.X.(*ssa.Global); ok && g.Pkg != nil {
				return e.globalConst(load.ShortPkg(g.Pkg.Pkg.Path()) + "." + g.Name())
			}
		}
		return 0, false
	case *ssa.Slice:
		if v.Low != nil || v.High != nil {
			return 0, false
		}
		al, ok := v.X.(*ssa.Alloc)
		if !ok {
			return 0, false
		}
		at, ok := al.Type().(*types.Pointer).Elem().Underlying().(*types.Array)
		if !ok || at.Len() > 64 {
			return 0, false
		}
		elems := make([]term.ID, at.Len())
		for i := range elems {
			elems[i] = T.Mk("0")
		}
		for _, r := range *al.Referrers() {
			ia, ok := r.(*ssa.IndexAddr)
			if !ok {
				if _, isSlice := r.(*ssa.Slice); isSlice {
					continue
				}
				return 0, false
			}
			idx, ok := ia.Index.(*ssa.Const)
			if !ok {
				return 0, false
			}
			i := int(idx.Int64())
			for _, rr := range *ia.Referrers() {
				st, ok := rr.(*ssa.Store)
				if !ok || st.Addr != ia {
					return 0, false
				}
				x, ok := e.evalConst(st.Val, depth+1)
				if !ok || i < 0 || i >= len(elems) {
					return 0, false
				}
				elems[i] = x
			}
		}
		return T.Mk("arr", elems...), true
	case *ssa.Call:
		if sc := v.Call.StaticCallee(); sc != nil && !v.Call.IsInvoke() {
			k := load.FuncKey(sc)
			if sc.Pkg == nil && sc.Object() != nil {
				k = load.ObjKey(sc.Object().(*types.Func))
			}
			if k == "fmt.Sprintf" || k == "fmt.Appendf" {
				var args []term.ID
				for _, a := range v.Call.Args {
					x, ok := e.evalConst(a, depth+1)
					if !ok {
						return 0, false
					}
					args = append(args, x)
				}
				if n := len(args); n > 0 && T.Op(args[n-1]) == "arr" {
					args = append(args[:n-1:n-1], T.Args(args[n-1])...)
				}
				return T.Mk("call:"+k, args...), true
			}
		}
		return 0, false
	}
	return 0, false
}

func (e *Engine) isConstTerm(t term.ID, depth int) bool {
	if depth > 8 {
		return false
	}
	tm := e.T.Get(t)
	if len(tm.Args) == 0 {
		op := tm.Op
		return op == "nil" || (len(op) > 0 && op[0] == '"') || isNumber(op)
	}
	switch {
	case strings.HasPrefix(tm.Op, "conv:"), tm.Op == "arr", tm.Op == "concat", tm.Op == "append",
		tm.Op == "call:fmt.Sprintf", tm.Op == "call:fmt.Appendf":
		for _, a := range tm.Args {
			if !e.isConstTerm(a, depth+1) {
				return false
			}
		}
		return true
	}
	return false
}
