package interp

import (
	"fmt"
	"go/types"
	"maps"
	"strconv"
	"strings"

	"golang.org/x/tools/go/ssa"

	"ibcverif/load"
	"ibcverif/term"
)

// purePrefixes lists external callees (by object key prefix) that are
// functions of their arguments: no site tag, no effect, arguments do not
// escape. Everything else outside ibc-go is impure.
var purePrefixes = []string{
	"errors.Is", "errors.As", "errors.New", "errors.Unwrap", "bytes.", "strings.", "strconv.", "fmt.Sprint", "fmt.Append", "fmt.Errorf",
	"errorsmod.", "math.", "sdkmath.", "time.Time.", "time.Duration.", "time.Unix", "slices.Contains", "slices.Clone",
	"slices.Equal", "slices.Index", "crypto/sha256.Sum256", "encoding/binary.bigEndian.Uint", "encoding/binary.littleEndian.Uint",
	"encoding/binary.bigEndian.AppendUint", "encoding/hex.", "unicode", "regexp.Regexp.Match", "regexp.Regexp.Find", "regexp.MustCompile",
	"sdk.UnwrapSDKContext", "sdk.AccAddress", "sdk.Uint64ToBigEndian",
	"sdk.BigEndianToUint64", "sdk.Coin.", "sdk.Coins.",
	"sdk.NewCoin", "sdk.NewCoins", "sdk.NewInt",
	"sdk.ValidateDenom", "sdk.MustAccAddressFromBech32", "sdk.VerifyAddressFormat",
	"address.", "authtypes.NewModuleAddress",
	"sdk.Context.", "sdk.MsgTypeURL", "sdk.NewAttribute", "sdk.NewEvent",
	"sdk.NewDec", "sdk.KVStorePrefixIterator", "proto.MessageName",
	"sdk.ValidateAuthority",
	"prefix.NewStore", "github.com/cosmos/cosmos-sdk/runtime.KVStoreAdapter", "corestore.KVStoreService.OpenKVStore",
	"github.com/cometbft/cometbft/crypto/tmhash.Sum", "sdk.NewKVStoreKeys", "time.Time", "unicode/utf8.",
	"ethcrypto.Keccak256", "ethcommon.", "math/big.Int.Cmp", "math/big.Int.Sign", "math/big.NewInt",
	"reflect.TypeOf", "reflect.DeepEqual", "path.", "net/url.",
}

var impureExceptions = []string{
	"sdk.Context.CacheContext",
	"sdkmath.Int.Unmarshal", "sdkmath.Int.UnmarshalJSON",
}

func isPureExternal(key string) bool {
	for _, x := range impureExceptions {
		if strings.HasPrefix(key, x) {
			return false
		}
	}
	for _, p := range purePrefixes {
		if strings.HasPrefix(key, p) {
			return true
		}
	}
	return false
}

// ifaceKey names an interface method by its declaring interface when that is
// a named type, else by the static type of the receiver value.
func ifaceKey(c *ssa.CallCommon) string {
	sig := c.Method.Type().(*types.Signature)
	if r := sig.Recv(); r != nil {
		if n, ok := r.Type().(*types.Named); ok {
			return load.ShortPkg(pkgPath(n.Obj().Pkg())) + "." + n.Obj().Name() + "." + c.Method.Name()
		}
	}
	switch t := c.Value.Type().(type) {
	case *types.Named:
		return load.ShortPkg(pkgPath(t.Obj().Pkg())) + "." + t.Obj().Name() + "." + c.Method.Name()
	case *types.Alias:
		return load.ShortPkg(pkgPath(t.Obj().Pkg())) + "." + t.Obj().Name() + "." + c.Method.Name()
	}
	return "anon." + c.Method.Name()
}

func pkgPath(p *types.Package) string {
	if p == nil {
		return ""
	}
	return p.Path()
}

func (e *Engine) onStack(fn *ssa.Function) bool {
	for _, f := range e.stack {
		if f == fn {
			return true
		}
	}
	return false
}

// call interprets a call instruction (or a deferred call being run).
func (act *activation) call(a *alt, ins ssa.Instruction, c *ssa.CallCommon, deferred bool) []*alt {
	e := act.e
	T := e.T
	siteExtra := 0
	if deferred {
		siteExtra = 1
	}
	site := e.site(act.site, ins, siteExtra)
	argv := func(i int, v ssa.Value) term.ID {
		if deferred {
			if t, ok := a.frame[deferArgKey(ins.(*ssa.Defer), i)]; ok {
				return t
			}
		}
		return act.val(a, v)
	}
	var args []term.ID
	var recvArg term.ID
	if c.IsInvoke() {
		recvArg = argv(-1, c.Value)
		args = append(args, recvArg)
	}
	for i, x := range c.Args {
		args = append(args, argv(i, x))
	}
	// flatten a variadic tail given as arr(...)
	if _, isBuiltin := c.Value.(*ssa.Builtin); !isBuiltin && c.Signature() != nil && c.Signature().Variadic() && len(args) > 0 {
		sig := c.Signature()
		_ = sig
		last := args[len(args)-1]
		if T.Op(last) == "arr" {
			args = append(args[:len(args)-1:len(args)-1], T.Args(last)...)
		} else if last == e.nilT {
			args = args[:len(args)-1]
		}
	}
	var resultVal ssa.Value
	if v, ok := ins.(ssa.Value); ok && !deferred {
		resultVal = v
	}
	nres := 0
	if sig := c.Signature(); sig != nil {
		nres = sig.Results().Len()
	}

	// ---- builtins
	if b, ok := c.Value.(*ssa.Builtin); ok && !c.IsInvoke() {
		return act.builtin(a, ins, b, args, resultVal, site)
	}

	// ---- resolve the callee
	var fn *ssa.Function
	key := ""
	var fvs []term.ID
	if c.IsInvoke() {
		key = "iface:" + ifaceKey(c)
		// only interfaces declared by ibc-go are resolved to their (in-scope)
		// implementers: an interface of a dependency has implementers we do not see
		ownIface := c.Method.Pkg() != nil && strings.HasPrefix(c.Method.Pkg().Path(), "github.com/cosmos/ibc-go/")
		if !e.Seams(load.ObjKey(c.Method)) && ownIface {
			if it, ok := c.Value.Type().Underlying().(*types.Interface); ok {
				objs := map[types.Object]bool{}
				var one *types.Func
				for _, impl := range e.P.Implementers(it) {
					sel := e.P.SSA.MethodSets.MethodSet(impl).Lookup(c.Method.Pkg(), c.Method.Name())
					if sel != nil {
						if f, ok := sel.Obj().(*types.Func); ok && !objs[f] {
							objs[f] = true
							one = f
						}
					}
				}
				if len(objs) == 1 {
					fn = e.P.SSA.FuncValue(one)
				}
			}
		}
	} else if sc := c.StaticCallee(); sc != nil {
		fn = sc
		// a direct call of a closure literal: c.Value is the MakeClosure
		if mc, ok := c.Value.(*ssa.MakeClosure); ok {
			ct := act.val(a, mc)
			fvs = T.Args(ct)
		}
	} else {
		// dynamic call through a function value
		ft := argv(-1, c.Value)
		op := T.Op(ft)
		switch {
		case strings.HasPrefix(op, "closure:"):
			fn = e.closures[op[8:]]
			fvs = T.Args(ft)
		case strings.HasPrefix(op, "fn:"):
			fn = e.closures[op[3:]]
		}
		if fn == nil {
			key = "dyn"
			args = append([]term.ID{ft}, args...)
		}
	}
	if fn != nil {
		key = load.FuncKey(fn)
		if fn.Pkg == nil && fn.Object() != nil {
			key = load.ObjKey(fn.Object().(*types.Func))
		}
	}
	// slices.IndexFunc(xs, pred) / slices.ContainsFunc(xs, pred) with a predicate we can interpret: the call is
	// modelled as the loop it stands for — either nothing is found (-1 / false), or the result is an index i
	// (named by the call itself) with pred(xs[i]) holding. Dependencies have no bodies here, and kept opaque the
	// call would hide the predicate, which is all the content of such a search.
	var searchCt term.ID
	searchContains := false
	if fn != nil && !c.IsInvoke() && len(args) == 2 && resultVal != nil && (key == "slices.IndexFunc" || key == "slices.ContainsFunc") {
		ft := args[1]
		op := T.Op(ft)
		var pf *ssa.Function
		var pfvs []term.ID
		switch {
		case strings.HasPrefix(op, "closure:"):
			pf, pfvs = e.closures[op[8:]], T.Args(ft)
		case strings.HasPrefix(op, "fn:"):
			pf = e.closures[op[3:]]
		}
		if pf != nil && e.inScope(pf) && act.depth < e.MaxDepth && !e.onStack(pf) && !e.NoInline(load.FuncKey(pf)) {
			searchCt = T.Mk("call:"+key, args...)
			searchContains = key == "slices.ContainsFunc"
			fn, fvs, key = pf, pfvs, load.FuncKey(pf)
			args = []term.ID{T.Mk("index", args[0], searchCt)}
			nres = 1
		}
	}
	inline := fn != nil && e.inScope(fn) && act.depth < e.MaxDepth && !e.onStack(fn) && !e.NoInline(key)
	if fn != nil && e.inScope(fn) && !inline && !e.NoInline(key) {
		e.warn("not inlined (depth/recursion): " + key)
	}

	if !inline {
		pure := fn != nil && isPureExternal(key) || c.IsInvoke() && isPureExternal(strings.TrimPrefix(key, "iface:"))
		// in-scope helpers that are kept opaque but are functions of their arguments
		if key == "core/02-client/types.ParseChainID" || key == "core/02-client/types.GetSelfHeight" || (e.PureFn != nil && fn != nil && e.PureFn(key)) {
			pure = true
		}
		// a pointer to a tracked local handed to an opaque callee is shown as a
		// reference to the value it holds at this moment (e.g. Marshal(&x))
		targs := args
		for i, x := range args {
			if cid, path, ok := e.addrRoot(x); ok && len(path) == 0 {
				if cv, ok := a.cells[cid]; ok {
					if &targs[0] == &args[0] {
						targs = append([]term.ID(nil), args...)
					}
					targs[i] = T.Mk("ref", e.snapshot(cv.val, a.cells, 0))
				}
			}
		}
		var ct term.ID
		if v, ok := e.foldPure(key, targs); ok && pure {
			// comparison of two constant byte strings: keeps infeasible paths out
			if resultVal != nil {
				a.frame[resultVal] = v
			}
			return []*alt{a}
		}
		if pure {
			ct = T.Mk("call:"+key, targs...)
		} else {
			ct = T.MkSite("call:"+key, site, targs...)
		}
		if act.record {
			act.events = append(act.events, &Event{Key: key, Site: site, Kind: "call", Instr: ins, Fn: act.fn, Args: targs, Call: ct, Atoms: a.atoms, May: a.may, Stack: append([]string(nil), e.stackNames...)})
		}
		if !pure {
			a.impure = true
			a.atoms = a.atoms.Add(ct)
			// arguments that point to tracked cells escape; escaped cells are clobbered
			// a local whose address is handed to this opaque callee may be
			// rewritten by it. (A callee retaining the pointer for a later call to
			// write through is not modelled: assumption, see DESIGN.)
			readOnly := strings.Contains(key, "Marshal") && !strings.Contains(key, "Unmarshal") // encoders do not write their argument
			for _, x := range args {
				if readOnly {
					break
				}
				act.forAddrs(x, func(cid int32) {
					if _, ok := a.cells[cid]; ok {
						a.cells[cid] = cellVal{val: T.MkSite(fmt.Sprintf("esc#%d", cid), site), escaped: true}
					}
				})
			}
		}
		if resultVal != nil {
			a.frame[resultVal] = ct
		}
		return []*alt{a}
	}

	// ---- inline
	// the call is named (in facts and events) with pointers to tracked locals shown as what they hold now,
	// e.g. Set(ctx, T{Flow: &flow}) shows the flow; the callee itself receives the real arguments
	shown := args
	for i, x := range args {
		if T.Opaque(x) {
			if sx := e.snapshot(x, a.cells, 0); sx != x {
				if &shown[0] == &args[0] {
					shown = append([]term.ID(nil), args...)
				}
				shown[i] = sx
			}
		}
	}
	ct := T.MkSite("call:"+key, site, shown...)
	var preAtoms term.Set = a.atoms
	res := e.runFunc(fn, site, args, fvs, a, act.depth+1)
	if act.record {
		act.events = append(act.events, &Event{Key: key, Site: site, Kind: "call", Instr: ins, Fn: act.fn, Args: shown, Call: ct, Atoms: preAtoms, May: a.may, Inline: true, Stack: append([]string(nil), e.stackNames...)})
		act.events = append(act.events, res.events...)
	}
	var out []*alt
	sigRes := fn.Signature.Results()
	// a result on which the return alternatives disagree is referred to by the
	// call itself (structured term), so that later merges keep a usable name
	disagree := make([]bool, nres)
	// a small pure helper (a case split returning one of a few values, e.g. a
	// prefix splitter) keeps its actual values: the caller's branches on them
	// can then be decided per case
	smallPure := len(res.rets) <= 3 && e.KeepValues != nil && e.KeepValues(key)
	for _, r := range res.rets {
		if r.impure {
			smallPure = false
		}
	}
	for j := 0; j < nres && !smallPure; j++ {
		var first term.ID
		for _, r := range res.rets {
			var rt term.ID
			if j < len(r.results) {
				rt = r.results[j]
			}
			if rt == 0 || e.isConstLeaf(rt) || isErrorType(sigRes.At(j).Type()) {
				continue
			}
			if first == 0 {
				first = rt
			} else if first != rt {
				disagree[j] = true
			}
		}
	}
	for _, r := range res.rets {
		n := &alt{atoms: r.atoms, may: r.may.Union(a.may), impure: a.impure || r.impure, defers: a.defers}
		n.cells = maps.Clone(r.cells)
		if n.cells == nil {
			n.cells = map[int32]cellVal{}
		}
		n.heap = maps.Clone(r.heap)
		if n.heap == nil {
			n.heap = map[term.ID]term.ID{}
		}
		n.frame = maps.Clone(a.frame)
		if n.frame == nil {
			n.frame = map[ssa.Value]term.ID{}
		}
		if r.impure {
			n.atoms = n.atoms.Add(ct)
		}
		vals := make([]term.ID, nres)
		for j := 0; j < nres; j++ {
			var rt term.ID
			if j < len(r.results) {
				rt = r.results[j]
			}
			structured := ct
			if nres > 1 {
				structured = T.Mk(fmt.Sprintf("extract:%d", j), ct)
			}
			isErr := isErrorType(sigRes.At(j).Type())
			ns := unknownNil
			if isErr {
				if j < len(r.errState) && r.errState[j] != unknownNil {
					ns = r.errState[j]
				} else {
					ns = e.nilness(r.atoms, rt)
				}
			}
			switch {
			case rt == 0:
				vals[j] = structured
			case e.isConstLeaf(rt):
				vals[j] = rt
			case isErr:
				// keep the callee's error term when it says something (sentinel / wrap)
				if ns == nonNil && !T.Opaque(rt) && e.nilness(nil, rt) == nonNil {
					vals[j] = rt
				} else if ns == unknownNil && !T.Opaque(rt) && e.isErrCall(rt) {
					// the callee forwards the error of an inner call (tail call):
					// keep the inner term as the value and remember that this
					// call's outcome is that error's outcome
					vals[j] = rt
					n.atoms = n.atoms.Add(T.Mk("errvia", ct, rt))
				} else {
					vals[j] = structured
				}
			case !disagree[j] && (!T.Opaque(rt) || e.opaqueWithin(rt, args, fvs, a.cells) || e.freshCellPointer(rt, r)):
				// expressible in the caller's vocabulary (store reads keep their
				// key): transparent, so facts are anchored on keys, not helper names
				vals[j] = rt
			default:
				vals[j] = structured
				// the return alternatives disagree on this result, so it is named by the call; what this
				// alternative returned is kept as an equality valid on this path class (matching is modulo it)
				if disagree[j] {
					n.atoms = n.atoms.Add(T.Mk("is", structured, rt))
				}
			}
			// a boolean result known on this path class becomes a fact about the call
			if isBool(sigRes.At(j).Type()) && (rt == e.trueT || rt == e.falseT) {
				op := "T"
				if rt == e.falseT {
					op = "F"
				}
				n.atoms = n.atoms.Add(T.Mk(op, structured))
			} else if isBool(sigRes.At(j).Type()) && rt != 0 && vals[j] == rt && vals[j] != structured {
				// a boolean expression returned as is: when the caller later
				// learns its value, the call's outcome is learnt with it
				n.atoms = n.atoms.Add(T.Mk("boolvia", structured, rt))
			}
			if isErr {
				switch ns {
				case isNil:
					n.atoms = n.atoms.Add(T.Mk("ok", ct))
					if vals[j] != e.nilT {
						vals[j] = e.nilT
					}
				case nonNil:
					n.atoms = n.atoms.Add(T.Mk("fail", ct))
				}
			}
		}
		if resultVal != nil {
			if nres == 1 {
				n.frame[resultVal] = vals[0]
			} else if nres > 1 {
				n.frame[resultVal] = T.Mk("tuple", vals...)
			}
		}
		out = append(out, n)
	}
	if searchCt != 0 {
		// found: keep the predicate's path classes on which it holds; not found: the caller's state unchanged
		nf := a.clone()
		found := e.trueT
		if searchContains {
			nf.frame[resultVal] = e.falseT
			nf.atoms = nf.atoms.Add(T.Mk("F", searchCt))
		} else {
			nf.frame[resultVal] = T.Mk("-1")
			found = searchCt
		}
		res := []*alt{nf}
		for _, n := range out {
			v := n.frame[resultVal]
			if v == e.falseT || e.decide(n, v) == -1 {
				continue
			}
			if v != e.trueT {
				pos, _ := e.atomsOf(v)
				for _, p := range pos {
					n.atoms = n.atoms.Add(p)
				}
			}
			if searchContains {
				n.atoms = n.atoms.Add(T.Mk("T", searchCt))
			}
			n.frame[resultVal] = found
			res = append(res, n)
		}
		return res
	}
	return out
}

// opaqueWithin reports whether every activation-local unknown (phi#, top#,
// esc#, addr#) mentioned by t is already mentioned by the caller's arguments:
// then t is expressible in the caller's vocabulary although it is "opaque".
func (e *Engine) opaqueWithin(t term.ID, args, fvs []term.ID, cells map[int32]cellVal) bool {
	have := map[term.ID]bool{}
	seen := map[term.ID]bool{}
	var collect func(id term.ID, into map[term.ID]bool)
	collect = func(id term.ID, into map[term.ID]bool) {
		if seen[id] || !e.T.Opaque(id) {
			return
		}
		seen[id] = true
		tm := e.T.Get(id)
		if term.IsOpaqueOp(tm.Op) {
			into[id] = true
			// a pointer to a caller's local also makes that local's content expressible
			if cells != nil && strings.HasPrefix(tm.Op, "addr#") {
				if n, err := strconv.Atoi(tm.Op[5:]); err == nil {
					if cv, ok := cells[int32(n)]; ok {
						collect(cv.val, into)
					}
				}
			}
		}
		for _, x := range tm.Args {
			collect(x, into)
		}
	}
	for _, a := range args {
		collect(a, have)
	}
	for _, a := range fvs {
		collect(a, have)
	}
	need := map[term.ID]bool{}
	seen = map[term.ID]bool{}
	cells = nil
	collect(t, need)
	for id := range need {
		if !have[id] {
			return false
		}
	}
	return true
}

// constBytes: the term is a constant byte string (nil, "lit", conv:bytes("lit")).
func (e *Engine) constBytes(t term.ID) (string, bool) {
	if t == e.nilT {
		return "", true
	}
	tm := e.T.Get(t)
	if tm.Op == "conv:bytes" && len(tm.Args) == 1 {
		tm = e.T.Get(tm.Args[0])
	}
	if len(tm.Op) >= 2 && tm.Op[0] == '"' {
		if s, err := strconv.Unquote(tm.Op); err == nil {
			return s, true
		}
	}
	return "", false
}

// foldPure evaluates bytes.Equal / bytes.HasPrefix on two constant byte strings.
func (e *Engine) foldPure(key string, args []term.ID) (term.ID, bool) {
	// cosmos-sdk: AccAddress(nil).Equals(x) is false for a non-empty x, and
	// MustAccAddressFromBech32 never returns an empty address (it panics on "")
	if key == "sdk.AccAddress.Equals" && len(args) == 2 && args[0] == e.nilT && e.T.Op(args[1]) == "call:sdk.MustAccAddressFromBech32" {
		return e.falseT, true
	}
	if (key != "bytes.Equal" && key != "bytes.HasPrefix") || len(args) != 2 {
		return 0, false
	}
	x, ok1 := e.constBytes(args[0])
	y, ok2 := e.constBytes(args[1])
	if !ok1 || !ok2 {
		return 0, false
	}
	r := x == y
	if key == "bytes.HasPrefix" {
		r = strings.HasPrefix(x, y)
	}
	if r {
		return e.trueT, true
	}
	return e.falseT, true
}

// snapshot replaces pointers to tracked locals inside a value by references to
// the values they hold now (nested &T{...} literals), to a small depth.
func (e *Engine) snapshot(v term.ID, cells map[int32]cellVal, depth int) term.ID {
	if depth > 3 || !e.T.Opaque(v) {
		return v
	}
	tm := e.T.Get(v)
	if strings.HasPrefix(tm.Op, "addr#") {
		if n, err := strconv.Atoi(tm.Op[5:]); err == nil {
			if cv, ok := cells[int32(n)]; ok {
				return e.T.Mk("ref", e.snapshot(cv.val, cells, depth+1))
			}
		}
		return v
	}
	if len(tm.Args) == 0 {
		return v
	}
	args := make([]term.ID, len(tm.Args))
	changed := false
	for i, a := range tm.Args {
		args[i] = e.snapshot(a, cells, depth)
		if args[i] != a {
			changed = true
		}
	}
	if !changed {
		return v
	}
	return e.T.MkSite(tm.Op, tm.Site, args...)
}

// freshCellPointer: the callee returns a pointer to a cell it allocated
// (&T{...}); the cell travels with the returned state, so the pointer itself
// is a usable name in the caller.
func (e *Engine) freshCellPointer(rt term.ID, r *ret) bool {
	op := e.T.Op(rt)
	if !strings.HasPrefix(op, "addr#") {
		return false
	}
	n, err := strconv.Atoi(op[5:])
	if err != nil {
		return false
	}
	_, ok := r.cells[int32(n)]
	return ok
}

func (act *activation) builtin(a *alt, ins ssa.Instruction, b *ssa.Builtin, args []term.ID, resultVal ssa.Value, site int32) []*alt {
	e := act.e
	T := e.T
	var t term.ID
	switch b.Name() {
	case "len", "cap", "min", "max", "real", "imag", "complex":
		t = T.Mk(b.Name(), args...)
		if (b.Name() == "len" || b.Name() == "cap") && len(args) == 1 {
			// constant folding keeps infeasible paths out (len(nil) == 0)
			if args[0] == e.nilT {
				t = T.Mk("0")
			} else if op := T.Op(args[0]); len(op) > 1 && op[0] == '"' && b.Name() == "len" {
				if s, err := strconv.Unquote(op); err == nil {
					t = T.Mk(strconv.Itoa(len(s)))
				}
			} else if op == "arr" {
				t = T.Mk(strconv.Itoa(len(T.Args(args[0]))))
			}
		}
	case "append":
		if len(args) == 2 {
			t = T.Mk("append", args[0], args[1])
		} else {
			t = T.Mk("append", args...)
		}
	case "copy":
		// copy(local[lo:], src): the local array changes; record it in the cell
		// so later readers (hash of the buffer, ...) see the copied bytes
		if ci, ok := ins.(ssa.CallInstruction); ok && len(ci.Common().Args) == 2 {
			if sl, ok := ci.Common().Args[0].(*ssa.Slice); ok && sl.High == nil && sl.Max == nil {
				x := act.val(a, sl.X)
				if _, _, ok := e.addrRoot(x); ok {
					old := act.load(a, x, nil)
					if T.Op(old) != "top#bigarray" {
						lo := T.Mk("0")
						if sl.Low != nil {
							lo = act.val(a, sl.Low)
						}
						act.store(a, x, T.Mk("copied", old, lo, args[1]), ins)
					}
				}
			}
		}
		a.impure = true
		a.atoms = a.atoms.Add(T.MkSite("copy", site, args...))
		t = T.MkSite("copy", site, args...)
	case "delete":
		a.impure = true
		a.atoms = a.atoms.Add(T.Mk("mapdel", args...))
	case "recover":
		t = T.MkSite("recover", site)
	case "print", "println", "clear", "close":
		a.impure = true
	case "ssa:wrapnilchk":
		t = args[0]
	default:
		t = T.MkSite("builtin:"+b.Name(), site, args...)
	}
	if resultVal != nil && t != 0 {
		a.frame[resultVal] = t
	}
	if act.record {
		act.events = append(act.events, &Event{Key: "builtin:" + b.Name(), Site: site, Kind: "call", Instr: ins, Fn: act.fn, Args: args, Call: t, Atoms: a.atoms, Stack: append([]string(nil), e.stackNames...)})
	}
	return []*alt{a}
}
