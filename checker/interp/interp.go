// Package interp is an abstract interpreter over go/ssa that computes, for a
// protocol entry point, the facts (branch conditions known to hold) and
// effects (calls made, stores performed) on every class of paths, with callee
// bodies inlined (context-sensitive), bounded disjunction and a small memory
// model for local variables. Nothing is executed: values are symbolic terms.
package interp

import (
	"fmt"
	"go/types"
	"maps"
	"os"
	"sort"
	"strings"

	"golang.org/x/tools/go/ssa"

	"ibcverif/load"
	"ibcverif/term"
)

type cellVal struct {
	val     term.ID
	escaped bool
}

// alt is one alternative: a class of paths described by the facts/effects that
// hold on all of them and the memory they agree on.
type alt struct {
	atoms term.Set
	// may: effects (calls, stores) that happened on SOME of the paths merged into this class but not on all of
	// them. atoms is a must-set (facts and effects common to all merged paths); a rule that forbids an effect
	// has to look at atoms ∪ may, otherwise a write on one of several merged failing paths would be forgotten.
	may    term.Set
	cells  map[int32]cellVal
	heap   map[term.ID]term.ID
	frame  map[ssa.Value]term.ID
	defers []*ssa.Defer
	impure bool // the current activation performed an impure operation
}

func (a *alt) clone() *alt {
	n := &alt{atoms: a.atoms, may: a.may, impure: a.impure}
	n.cells = maps.Clone(a.cells)
	if n.cells == nil {
		n.cells = map[int32]cellVal{}
	}
	n.heap = maps.Clone(a.heap)
	if n.heap == nil {
		n.heap = map[term.ID]term.ID{}
	}
	n.frame = maps.Clone(a.frame)
	if n.frame == nil {
		n.frame = map[ssa.Value]term.ID{}
	}
	n.defers = append([]*ssa.Defer(nil), a.defers...)
	return n
}

// Event is a call observed during interpretation together with the facts and
// effects that held on the alternative reaching it.
type Event struct {
	Key    string // callee key: short function key, "iface:<method>", "dyn", "builtin:x"
	Site   int32
	Instr  ssa.Instruction
	Fn     *ssa.Function // enclosing function
	Args   []term.ID     // receiver first
	Call   term.ID       // the call term
	Atoms  term.Set      // before the call
	May    term.Set      // effects on some of the merged paths only (see alt.may)
	Inline bool
	Stack  []string // enclosing inlined functions, outermost first
	Kind   string   // "call", "panic", "return", "store", "go"
	Result []term.ID
}

type ret struct {
	atoms   term.Set
	may     term.Set
	cells   map[int32]cellVal
	heap    map[term.ID]term.ID
	results []term.ID
	impure  bool
	errState []nilState // per result: nil-ness of error results, decided before merging
}

type result struct {
	rets   []*ret
	events []*Event
}

type Engine struct {
	P          *load.Program
	T          *term.Table
	K          int
	MaxDepth   int
	Seams      func(key string) bool // interface methods never resolved to implementers
	NoInline   func(key string) bool
	Focus      []string              // additional predicate words (see FocusWords) that keep path classes apart for a rule family
	PureFn     func(key string) bool // in-scope helpers kept opaque (with NoInline) that are functions of their arguments; their definitions are checked separately
	KeepValues func(key string) bool // small pure helpers whose per-case result values are kept (not renamed to extract:i(call))
	sites      map[siteKey]int32
	siteInfo   []siteKey
	memo       map[string]*result
	closures   map[string]*ssa.Function
	stack      []*ssa.Function
	stackNames []string
	Warnings   map[string]int
	Steps      int
	Merges     int // path classes merged because more than K reached one program point (facts are intersected there)
	nilT       term.ID
	trueT      term.ID
	falseT     term.ID
	Sentinels  []string // gv names that keep their own error class
	focusCache map[term.ID]bool
	plainMerge bool

	globals        map[string]term.ID
	globalsDone    map[string]bool
	mutatedGlobals map[string]bool
	globalInit     map[string]ssa.Value
}

type siteKey struct {
	parent int32
	instr  ssa.Instruction
	extra  int
}

func New(P *load.Program) *Engine {
	e := &Engine{P: P, T: term.NewTable(), K: 12, MaxDepth: 14,
		sites: map[siteKey]int32{}, siteInfo: make([]siteKey, 1), memo: map[string]*result{},
		closures: map[string]*ssa.Function{}, Warnings: map[string]int{}}
	e.nilT = e.T.Mk("nil")
	e.trueT = e.T.Mk("true")
	e.falseT = e.T.Mk("false")
	e.Seams = DefaultSeams
	e.NoInline = DefaultNoInline
	e.focusCache = map[term.ID]bool{}
	e.Sentinels = []string{"ErrNoOpMsg"}
	return e
}

func (e *Engine) warn(s string) { e.Warnings[s]++ }

// DefaultNoInline lists in-scope functions treated as opaque calls because
// their bodies only add irrelevant path splits (event emission, logging,
// telemetry, port routing lookups).
func DefaultNoInline(key string) bool {
	base := key
	if i := strings.LastIndex(key, "."); i >= 0 {
		base = key[i+1:]
	}
	if strings.HasPrefix(base, "emit") || strings.HasPrefix(base, "Emit") || base == "Logger" {
		return true
	}
	switch key {
	case "core/05-port/keeper.Keeper.Route", "core/02-client/types.GetSelfHeight", "core/02-client/types.ParseChainID":
		return true
	}
	return strings.Contains(key, "/telemetry.") || strings.Contains(key, "internal/telemetry")
}

func (e *Engine) site(parent int32, instr ssa.Instruction, extra int) int32 {
	k := siteKey{parent, instr, extra}
	if id, ok := e.sites[k]; ok {
		return id
	}
	id := int32(len(e.siteInfo))
	e.siteInfo = append(e.siteInfo, k)
	e.sites[k] = id
	return id
}

// SitePos renders the source position of a site.
func (e *Engine) SitePos(s int32) string {
	if s <= 0 || int(s) >= len(e.siteInfo) {
		return "-"
	}
	k := e.siteInfo[s]
	if k.instr == nil {
		return "-"
	}
	return e.P.Pos(k.instr.Pos())
}

// DefaultSeams lists the interface methods that are external contracts of
// ibc-go: they are never resolved to their implementers.
func DefaultSeams(key string) bool {
	for _, p := range []string{
		"core/05-port/types.IBCModule.", "core/api.IBCModule.", "core/exported.LightClientModule.",
		"core/05-port/types.ICS4Wrapper.", "core/05-port/types.Middleware.", "core/api.PacketDataUnmarshaler",
		"apps/callbacks/types.ContractKeeper.", "core/05-port/types.PacketDataUnmarshaler.",
		"core/api.WriteAcknowledgementWrapper.", "core/exported.ClientMessage.", "core/exported.ClientState.",
		"core/exported.ConsensusState.", "core/exported.Acknowledgement.",
		"core/05-port/types.PacketUnmarshalerModule.", "core/exported.PacketData",
	} {
		if strings.HasPrefix(key, p) {
			return true
		}
	}
	return false
}

// ---------------------------------------------------------------- entry API

// Run interprets fn as an entry point: parameters are param#i.
type RunResult struct {
	Fn     *ssa.Function
	Events []*Event
	Rets   []*Ret
	E      *Engine
}

type Ret struct {
	Atoms   term.Set
	Results []term.ID
	May     term.Set // effects performed on some, not all, of the paths merged into this class
}

func (e *Engine) Run(fn *ssa.Function) *RunResult {
	args := make([]term.ID, len(fn.Params))
	for i := range fn.Params {
		args[i] = e.T.Mk(fmt.Sprintf("param#%d", i))
	}
	a := &alt{cells: map[int32]cellVal{}, heap: map[term.ID]term.ID{}}
	res := e.runFunc(fn, 0, args, nil, a, 0)
	rr := &RunResult{Fn: fn, Events: res.events, E: e}
	for _, r := range res.rets {
		rr.Rets = append(rr.Rets, &Ret{Atoms: r.atoms, Results: r.results, May: r.may})
	}
	return rr
}

// ---------------------------------------------------------------- fixpoint

func mix(x uint64) uint64 {
	x += 0x9e3779b97f4a7c15
	x = (x ^ (x >> 30)) * 0xbf58476d1ce4e5b9
	x = (x ^ (x >> 27)) * 0x94d049bb133111eb
	return x ^ (x >> 31)
}

type hash2 struct{ a, b uint64 }

func (h *hash2) add(tag, k, v uint64) {
	x := mix(tag*0x100000001b3 ^ mix(k) ^ mix(v+0x5bd1e995))
	h.a += x
	h.b += mix(x ^ 0xabcdef)
}

func coreHash(a *alt, h *hash2) {
	for _, id := range a.atoms {
		h.add(1, uint64(id), 0)
	}
	for k, c := range a.cells {
		e := uint64(0)
		if c.escaped {
			e = 1
		}
		h.add(2, uint64(k), uint64(c.val)<<1|e)
	}
	for k, v := range a.heap {
		h.add(3, uint64(k), uint64(v))
	}
}

// coreKey / altKey are order-independent 128-bit digests (plus sizes) of the
// state; used for memoisation and duplicate detection.
func coreKey(e *Engine, a *alt) string {
	var h hash2
	coreHash(a, &h)
	return fmt.Sprintf("%x.%x.%d.%d", h.a, h.b, len(a.atoms), len(a.cells))
}

var valueIDs = map[ssa.Value]uint64{}

func valueID(v ssa.Value) uint64 {
	if id, ok := valueIDs[v]; ok {
		return id
	}
	id := uint64(len(valueIDs) + 1)
	valueIDs[v] = id
	return id
}

func altKey(e *Engine, a *alt) string {
	var h hash2
	coreHash(a, &h)
	for k, v := range a.frame {
		h.add(4, valueID(k), uint64(v))
	}
	imp := 0
	if a.impure {
		imp = 1
	}
	return fmt.Sprintf("%x.%x.%d.%d.%d.%d.%d", h.a, h.b, len(a.atoms), len(a.cells), len(a.frame), len(a.defers), imp)
}

// higherOrderStd: small standard-library search helpers that take the predicate as a function value. Kept
// opaque they would hide the predicate (the only content of `slices.IndexFunc(xs, func(x) bool {...})`), so they
// are interpreted like the hand-written loop they replace.
func higherOrderStd(fn *ssa.Function) bool {
	o := fn
	if fn.Origin() != nil {
		o = fn.Origin()
	}
	if o.Pkg == nil || o.Pkg.Pkg.Path() != "slices" {
		return false
	}
	switch o.Name() {
	case "IndexFunc", "ContainsFunc":
		return true
	}
	return false
}

func (e *Engine) inScope(fn *ssa.Function) bool {
	if fn == nil || fn.Blocks == nil {
		return false
	}
	root := fn
	for root.Parent() != nil {
		root = root.Parent()
	}
	if root.Pkg != nil {
		return e.P.InScope[root.Pkg]
	}
	// synthetic wrappers / instantiations: decide by the object's package
	if o := root.Object(); o != nil && o.Pkg() != nil {
		if sp := e.P.SSA.Package(o.Pkg()); sp != nil {
			return e.P.InScope[sp]
		}
	}
	if root.Origin() != nil {
		return e.inScope(root.Origin())
	}
	return false
}

func (e *Engine) runFunc(fn *ssa.Function, site int32, args []term.ID, fvs []term.ID, in *alt, depth int) *result {
	mk := fmt.Sprintf("%p|%d|%v|%v|%s", fn, site, args, fvs, coreKey(e, in))
	if r, ok := e.memo[mk]; ok {
		return r
	}
	e.stack = append(e.stack, fn)
	e.stackNames = append(e.stackNames, load.FuncKey(fn))
	defer func() {
		e.stack = e.stack[:len(e.stack)-1]
		e.stackNames = e.stackNames[:len(e.stackNames)-1]
	}()

	act := &activation{e: e, fn: fn, site: site, depth: depth}
	start := &alt{atoms: in.atoms, may: in.may, cells: in.cells, heap: in.heap, frame: map[ssa.Value]term.ID{}}
	start = start.clone()
	start.impure = false
	start.defers = nil
	for i, p := range fn.Params {
		if i < len(args) {
			start.frame[p] = args[i]
		}
	}
	for i, fv := range fn.FreeVars {
		if i < len(fvs) {
			start.frame[fv] = fvs[i]
		}
	}
	res := act.fixpoint(start)
	e.memo[mk] = res
	return res
}

type activation struct {
	e      *Engine
	fn     *ssa.Function
	site   int32
	depth  int
	rets   []*ret
	events []*Event
	record bool
	cells  []int32 // cells allocated by this activation
}

type edge struct{ from, to int }

func (act *activation) fixpoint(start *alt) *result {
	fn := act.fn
	// reverse post-order
	order := rpo(fn)
	idx := map[*ssa.BasicBlock]int{}
	for i, b := range order {
		idx[b] = i
	}
	hasBack := false
	header := map[*ssa.BasicBlock]bool{}
	for _, b := range order {
		for _, s := range b.Succs {
			if idx[s] <= idx[b] {
				hasBack = true
				header[s] = true
			}
		}
	}
	edgeOut := map[edge][]*alt{}
	inKey := map[*ssa.BasicBlock]string{}
	inState := map[*ssa.BasicBlock][]*alt{}

	pass := func(record bool, passNo int) bool {
		changed := false
		act.record = record
		act.rets = nil
		act.events = nil
		for _, b := range order {
			var in []*alt
			if b == fn.Blocks[0] {
				in = []*alt{start}
			} else {
				for pi, p := range b.Preds {
					if _, ok := idx[p]; !ok {
						continue
					}
					outs := edgeOut[edge{p.Index, b.Index}]
					for _, o := range outs {
						c := o.clone()
						act.bindPhis(c, b, pi, header[b])
						in = append(in, c)
					}
				}
				if header[b] && passNo >= 3 {
					// forced convergence: one alternative per valuation of the
					// constant boolean flags carried around the loop
					groups := map[string][]*alt{}
					var order []string
					for _, x := range in {
						g := groupKeyOf(act.e, b, x)
						if _, ok := groups[g]; !ok {
							order = append(order, g)
						}
						groups[g] = append(groups[g], x)
					}
					// plain intersection within a group, and with the group's
					// previous state: order-independent and shrinking, so the
					// iteration must reach a fixpoint
					act.e.plainMerge = passNo >= 8 && passNo != 99
					oldByGroup := map[string]*alt{}
					for _, x := range inState[b] {
						oldByGroup[groupKeyOf(act.e, b, x)] = x
					}
					in = nil
					for _, g := range order {
						xs := groups[g]
						if o, ok := oldByGroup[g]; ok && passNo >= 4 {
							xs = append(append([]*alt(nil), xs...), o)
						}
						in = append(in, act.e.join(xs, 1)...)
					}
					act.e.plainMerge = false
				} else {
					in = act.e.join(in, act.e.K)
				}
			}
			if debugLoops && header[b] {
				var gs []string
				for _, x := range in {
					gs = append(gs, groupKeyOf(act.e, b, x))
				}
				fmt.Printf("LOOP %s block %d pass %d record=%v in=%d groups=%v\n", load.FuncKey(fn), b.Index, passNo, record, len(in), gs)
				if w := os.Getenv("VERIF_WATCH"); w != "" {
					for i, x := range in {
						n := 0
						for _, at := range x.atoms {
							if strings.Contains(act.e.T.String(at), w) {
								n++
							}
						}
						fmt.Printf("   alt %d: %d atoms, %d mention %q\n", i, len(x.atoms), n, w)
					}
				}
			}
			key := altsKey(act.e, in)
			if !record {
				if old, ok := inKey[b]; ok && old == key {
					continue
				}
				changed = true
				inKey[b] = key
				inState[b] = in
			} else {
				in = inState[b]
				if in == nil && b != fn.Blocks[0] {
					continue
				}
			}
			// clear outgoing edges then execute
			for _, s := range b.Succs {
				edgeOut[edge{b.Index, s.Index}] = nil
			}
			for _, a := range in {
				act.execBlock(b, a.clone(), edgeOut)
			}
			for _, s := range b.Succs {
				ek := edge{b.Index, s.Index}
				if record && act.depth <= 1 && idx[s] <= idx[b] && len(b.Instrs) > 0 {
					// what holds whenever the entry function's loop goes round again ("backedge"); the loops of a
					// function called directly by the entry function are recorded as "backedge1" (a loop of the
					// entry function that was extracted into a helper), which rules consult only as a fall-back
					kind := "backedge"
					if act.depth == 1 {
						kind = "backedge1"
					}
					pi := -1
					for i, p := range s.Preds {
						if p == b {
							pi = i
						}
					}
					for _, o := range edgeOut[ek] {
						// boolean flags carried round the loop: flagstep:<name>(value in this iteration, value in the next)
						var steps []term.ID
						for _, ins := range s.Instrs {
							phi, ok := ins.(*ssa.Phi)
							if !ok {
								break
							}
							if pi < 0 || !isBool(phi.Type()) || phi.Comment == "" {
								continue
							}
							cur, ok := o.frame[phi]
							if !ok {
								continue
							}
							steps = append(steps, act.e.T.Mk("flagstep:"+phi.Comment, cur, act.val(o, phi.Edges[pi])))
						}
						act.events = append(act.events, &Event{Key: kind, Kind: kind, Instr: b.Instrs[len(b.Instrs)-1], Fn: fn, Atoms: o.atoms, Args: steps})
					}
				}
				edgeOut[ek] = act.e.join(edgeOut[ek], act.e.K)
			}
		}
		return changed
	}

	if !hasBack {
		inState[fn.Blocks[0]] = []*alt{start}
		// single recording pass; inState is filled as we go
		act.record = true
		for _, b := range order {
			var in []*alt
			if b == fn.Blocks[0] {
				in = []*alt{start}
			} else {
				for pi, p := range b.Preds {
					if _, ok := idx[p]; !ok {
						continue
					}
					for _, o := range edgeOut[edge{p.Index, b.Index}] {
						c := o.clone()
						act.bindPhis(c, b, pi, false)
						in = append(in, c)
					}
				}
				in = act.e.join(in, act.e.K)
			}
			for _, a := range in {
				act.execBlock(b, a, edgeOut)
			}
		}
	} else {
		for i := 0; i < 12; i++ {
			if !pass(false, i) {
				break
			}
			if i == 11 {
				act.e.warn("fixpoint not reached in " + load.FuncKey(fn))
			}
		}
		pass(true, 99)
	}
	return &result{rets: act.groupRets(), events: act.events}
}

func rpo(fn *ssa.Function) []*ssa.BasicBlock {
	seen := map[*ssa.BasicBlock]bool{}
	var post []*ssa.BasicBlock
	var dfs func(b *ssa.BasicBlock)
	dfs = func(b *ssa.BasicBlock) {
		seen[b] = true
		for _, s := range b.Succs {
			if !seen[s] {
				dfs(s)
			}
		}
		post = append(post, b)
	}
	dfs(fn.Blocks[0])
	// the recover block, if any, is not reachable by normal edges; ignored
	for i, j := 0, len(post)-1; i < j; i, j = i+1, j-1 {
		post[i], post[j] = post[j], post[i]
	}
	return post
}

func altsKey(e *Engine, as []*alt) string {
	ks := make([]string, len(as))
	for i, a := range as {
		ks[i] = altKey(e, a)
	}
	sort.Strings(ks)
	return strings.Join(ks, "\n")
}

func (act *activation) bindPhis(a *alt, b *ssa.BasicBlock, predIdx int, widen bool) {
	// parallel assignment: evaluate all edge values first
	var phis []*ssa.Phi
	var vals []term.ID
	for _, ins := range b.Instrs {
		phi, ok := ins.(*ssa.Phi)
		if !ok {
			break
		}
		phis = append(phis, phi)
		if widen {
			// loop-carried values are widened to an unknown, except boolean
			// flags whose incoming value is a constant: path classes are kept
			// apart by the value of such flags (finite domain, so this converges)
			v := act.val(a, phi.Edges[predIdx])
			if isBool(phi.Type()) && (v == act.e.trueT || v == act.e.falseT) {
				vals = append(vals, v)
			} else {
				vals = append(vals, act.e.T.Mk(fmt.Sprintf("phi#%d", act.e.site(act.site, phi, 0))))
			}
		} else {
			vals = append(vals, act.val(a, phi.Edges[predIdx]))
		}
	}
	// back edge into a widened header: the symbol phi#N now names the value
	// of the next iteration, so facts and memory that mention it (they are
	// about the previous iteration) are forgotten
	var stale []string
	for i, phi := range phis {
		if old, ok := a.frame[phi]; widen && ok && old == vals[i] && strings.HasPrefix(act.e.T.Op(vals[i]), "phi#") {
			stale = append(stale, act.e.T.Op(vals[i]))
		}
		a.frame[phi] = vals[i]
	}
	if len(stale) > 0 {
		T := act.e.T
		memo := map[term.ID]bool{}
		var mentions func(id term.ID) bool
		mentions = func(id term.ID) bool {
			if v, ok := memo[id]; ok {
				return v
			}
			tm := T.Get(id)
			r := false
			for _, s := range stale {
				if tm.Op == s {
					r = true
				}
			}
			if !r && T.Opaque(id) {
				for _, x := range tm.Args {
					if mentions(x) {
						r = true
						break
					}
				}
			}
			memo[id] = r
			return r
		}
		kept := make(term.Set, 0, len(a.atoms))
		for _, id := range a.atoms {
			if !mentions(id) {
				kept = append(kept, id)
			}
		}
		a.atoms = kept
		for k, cv := range a.cells {
			if mentions(cv.val) {
				a.cells[k] = cellVal{val: T.Mk(fmt.Sprintf("top#l%d", k)), escaped: cv.escaped}
			}
		}
		for k, v := range a.heap {
			if mentions(v) || mentions(k) {
				delete(a.heap, k)
			}
		}
	}
}

// join unites alternatives, dropping duplicates, and merges the most similar
// pairs until at most k remain.
func (e *Engine) join(as []*alt, k int) []*alt {
	if len(as) <= 1 {
		return as
	}
	seen := map[string]*alt{}
	var out []*alt
	for _, a := range as {
		key := altKey(e, a)
		if kept, ok := seen[key]; ok {
			if len(a.may) > 0 {
				kept.may = kept.may.Union(a.may)
			}
			continue
		}
		seen[key] = a
		out = append(out, a)
	}
	if len(out) > k {
		score := func(x, y *alt) int {
			// similarity of facts, with a heavy penalty for values the two
			// alternatives bind differently (merging would forget them)
			s := x.atoms.IntersectLen(y.atoms)*2 - len(x.atoms) - len(y.atoms) - 1000*frameDisagreements(x, y)
			// predicate abstraction: path classes that differ on a predicate the
			// properties talk about are merged last
			s -= 400 * e.focusDiff(x.atoms, y.atoms)
			return s
		}
		n := len(out)
		sc := make([][]int, n)
		for i := range sc {
			sc[i] = make([]int, n)
		}
		for i := 0; i < n; i++ {
			for j := i + 1; j < n; j++ {
				sc[i][j] = score(out[i], out[j])
			}
		}
		alive := make([]bool, n)
		for i := range alive {
			alive[i] = true
		}
		cnt := n
		e.Merges += n - k
		for cnt > k {
			bi, bj, best, first := 0, 1, 0, true
			for i := 0; i < n; i++ {
				if !alive[i] {
					continue
				}
				for j := i + 1; j < n; j++ {
					if alive[j] && (first || sc[i][j] > best) {
						bi, bj, best, first = i, j, sc[i][j], false
					}
				}
			}
			out[bi] = e.merge(out[bi], out[bj])
			alive[bj] = false
			cnt--
			for j := 0; j < n; j++ {
				if !alive[j] || j == bi {
					continue
				}
				if j < bi {
					sc[j][bi] = score(out[j], out[bi])
				} else {
					sc[bi][j] = score(out[bi], out[j])
				}
			}
		}
		var res []*alt
		for i := 0; i < n; i++ {
			if alive[i] {
				res = append(res, out[i])
			}
		}
		out = res
	}
	return out
}

// headKey identifies the call an atom is about: effect atoms and their
// outcome wrappers (ok/fail/T/F/errnil/errnonnil/errvia/boolvia) for the same
// call instruction on the same inline path share a key.
func (e *Engine) headKey(id term.ID) (string, bool) {
	tm := e.T.Get(id)
	switch tm.Op {
	case "ok", "fail", "T", "F", "errnil", "errnonnil", "errvia", "boolvia", "eq", "ne":
		if len(tm.Args) > 0 {
			inner := stripExtract(e.T, tm.Args[0])
			it := e.T.Get(inner)
			if strings.HasPrefix(it.Op, "call:") && it.Site != 0 {
				return fmt.Sprintf("%s|%s@%d", tm.Op, it.Op, it.Site), true
			}
		}
		return "", false
	}
	if strings.HasPrefix(tm.Op, "call:") && tm.Site != 0 {
		return fmt.Sprintf("%s@%d", tm.Op, tm.Site), true
	}
	return "", false
}

// antiUnify returns the most specific term that generalises x and y:
// differing sub-terms become the unknown top#au.
func (e *Engine) antiUnify(x, y term.ID, depth int) term.ID {
	if x == y {
		return x
	}
	tx, ty := e.T.Get(x), e.T.Get(y)
	if depth > 12 || tx.Op != ty.Op || tx.Site != ty.Site || len(tx.Args) != len(ty.Args) || len(tx.Args) == 0 {
		return e.T.Mk("top#au")
	}
	args := make([]term.ID, len(tx.Args))
	for i := range args {
		args[i] = e.antiUnify(tx.Args[i], ty.Args[i], depth+1)
	}
	return e.T.MkSite(tx.Op, tx.Site, args...)
}

// generalise is the meet of two fact sets: the common atoms, plus, for atoms
// about the same call instruction that differ only in some arguments, their
// anti-unification (so "this call happened / succeeded" survives a merge of
// path classes that passed different values).
func (e *Engine) generalise(a, b term.Set) term.Set {
	out := a.Intersect(b)
	if len(out) == len(a) || len(out) == len(b) {
		return out
	}
	idx := map[string][]term.ID{}
	for _, id := range b {
		if out.Has(id) {
			continue
		}
		if k, ok := e.headKey(id); ok {
			idx[k] = append(idx[k], id)
		}
	}
	if len(idx) == 0 {
		return out
	}
	for _, id := range a {
		if out.Has(id) {
			continue
		}
		k, ok := e.headKey(id)
		if !ok {
			continue
		}
		cands := idx[k]
		if len(cands) != 1 {
			continue
		}
		g := e.antiUnify(id, cands[0], 0)
		if strings.HasPrefix(e.T.Op(g), "top#") {
			continue
		}
		out = out.Add(g)
	}
	// comparisons that share one operand: keep the comparison with the other
	// operand generalised (e.g. timeout <= f(client) for two different clients)
	cmpIdx := map[string][]term.ID{}
	isCmp := func(op string) bool { return op == "eq" || op == "ne" || op == "lt" || op == "le" }
	for _, id := range b {
		tm := e.T.Get(id)
		if out.Has(id) || !isCmp(tm.Op) {
			continue
		}
		for pos := 0; pos < 2; pos++ {
			k := fmt.Sprintf("%s|%d|%d", tm.Op, pos, tm.Args[pos])
			cmpIdx[k] = append(cmpIdx[k], id)
		}
	}
	if len(cmpIdx) > 0 {
		for _, id := range a {
			tm := e.T.Get(id)
			if out.Has(id) || !isCmp(tm.Op) {
				continue
			}
			for pos := 0; pos < 2; pos++ {
				cands := cmpIdx[fmt.Sprintf("%s|%d|%d", tm.Op, pos, tm.Args[pos])]
				if len(cands) != 1 {
					continue
				}
				o := e.antiUnify(tm.Args[1-pos], e.T.Get(cands[0]).Args[1-pos], 0)
				if strings.HasPrefix(e.T.Op(o), "top#") {
					continue
				}
				if pos == 0 {
					out = out.Add(e.T.Mk(tm.Op, tm.Args[0], o))
				} else {
					out = out.Add(e.T.Mk(tm.Op, o, tm.Args[1]))
				}
				break
			}
		}
	}
	return out
}

// FocusWords are substrings of printed facts that mark a predicate the
// properties distinguish path classes by (channel ordering, acknowledgement
// outcome, no-op, state constants, ...). Effects (calls) are never focus atoms.
var FocusWords = []string{"Ordering", "Acknowledgement.Success", "ErrNoOpMsg", "field:State(", "PacketStatus", "field:Status(", "IsAllowed", "isSuccess", "HasPrefix", "Success(", "Async"}

func (e *Engine) isFocus(id term.ID) bool {
	if v, ok := e.focusCache[id]; ok {
		return v
	}
	tm := e.T.Get(id)
	v := false
	switch tm.Op {
	case "eq", "ne", "T", "F", "lt", "le":
		s := e.T.String(id)
		for _, w := range FocusWords {
			if strings.Contains(s, w) {
				v = true
				break
			}
		}
		for _, w := range e.Focus {
			if strings.Contains(s, w) {
				v = true
				break
			}
		}
	}
	e.focusCache[id] = v
	return v
}

// focusDiff counts focus facts present in exactly one of the two sets.
func (e *Engine) focusDiff(a, b term.Set) int {
	n, i, j := 0, 0, 0
	for i < len(a) || j < len(b) {
		switch {
		case j >= len(b) || (i < len(a) && a[i] < b[j]):
			if e.isFocus(a[i]) {
				n++
			}
			i++
		case i >= len(a) || a[i] > b[j]:
			if e.isFocus(b[j]) {
				n++
			}
			j++
		default:
			i++
			j++
		}
	}
	return n
}

func frameDisagreements(a, b *alt) int {
	n := 0
	for k, va := range a.frame {
		if vb, ok := b.frame[k]; ok && va != vb {
			n++
		}
	}
	for k, va := range a.cells {
		if vb, ok := b.cells[k]; ok && va.val != vb.val {
			n++
		}
	}
	return n
}

var debugLoops = os.Getenv("VERIF_DEBUG_LOOPS") != ""

// groupKeyOf is the valuation of the constant boolean phis of block b in x.
func groupKeyOf(e *Engine, b *ssa.BasicBlock, x *alt) string {
	var sb strings.Builder
	for _, ins := range b.Instrs {
		phi, ok := ins.(*ssa.Phi)
		if !ok {
			break
		}
		if v := x.frame[phi]; v == e.trueT {
			sb.WriteByte('t')
		} else if v == e.falseT {
			sb.WriteByte('f')
		} else {
			sb.WriteByte('-')
		}
	}
	return sb.String()
}

func (e *Engine) merge(a, b *alt) *alt {
	n := &alt{impure: a.impure || b.impure}
	if e.plainMerge {
		n.atoms = a.atoms.Intersect(b.atoms)
	} else {
		n.atoms = e.generalise(a.atoms, b.atoms)
	}
	// effects that only one side performed are remembered as "may have happened"
	n.may = a.may.Union(b.may)
	for _, side := range []term.Set{a.atoms, b.atoms} {
		for _, id := range side {
			if !n.atoms.Has(id) && e.isEffect(id) {
				n.may = n.may.Add(id)
			}
		}
	}
	n.cells = map[int32]cellVal{}
	for k, va := range a.cells {
		if vb, ok := b.cells[k]; ok {
			if va.val == vb.val {
				n.cells[k] = cellVal{va.val, va.escaped || vb.escaped}
			} else {
				n.cells[k] = cellVal{e.T.Mk(fmt.Sprintf("top#m%d", k)), va.escaped || vb.escaped}
			}
		}
	}
	n.heap = map[term.ID]term.ID{}
	for k, va := range a.heap {
		if vb, ok := b.heap[k]; ok && va == vb {
			n.heap[k] = va
		} else if ok {
			n.heap[k] = e.T.Mk(fmt.Sprintf("top#h%d", k))
		}
	}
	for k := range b.heap {
		if _, ok := a.heap[k]; !ok {
			n.heap[k] = e.T.Mk(fmt.Sprintf("top#h%d", k))
		}
	}
	for k := range a.heap {
		if _, ok := b.heap[k]; !ok {
			n.heap[k] = e.T.Mk(fmt.Sprintf("top#h%d", k))
		}
	}
	n.frame = map[ssa.Value]term.ID{}
	for k, va := range a.frame {
		if vb, ok := b.frame[k]; ok && va == vb {
			n.frame[k] = va
		}
	}
	if len(a.defers) == len(b.defers) {
		same := true
		for i := range a.defers {
			if a.defers[i] != b.defers[i] {
				same = false
			}
		}
		if same {
			n.defers = a.defers
		} else {
			e.warn("defers differ at merge")
		}
	} else {
		e.warn("defers differ at merge")
	}
	return n
}

// isEffect: the atom records something that was done (an opaque impure call, a store through a pointer, a map
// update), as opposed to a fact that was learnt.
func (e *Engine) isEffect(id term.ID) bool {
	tm := e.T.Get(id)
	switch {
	case strings.HasPrefix(tm.Op, "call:"):
		return true
	case tm.Op == "store" || tm.Op == "mapset" || tm.Op == "mapdel" || tm.Op == "go":
		return true
	}
	return false
}

// ---------------------------------------------------------------- returns

type retClass struct {
	key  string
	alts []*alt
	res  [][]term.ID
}

func (act *activation) addRet(a *alt, results []term.ID) {
	r := &ret{atoms: a.atoms, may: a.may, cells: a.cells, heap: a.heap, results: results, impure: a.impure}
	act.rets = append(act.rets, r)
}

// groupRets merges return alternatives by outcome class (error nil / known
// sentinel / other error / unknown; boolean constants) with bound K per class.
func (act *activation) groupRets() []*ret {
	e := act.e
	sig := act.fn.Signature.Results()
	for _, r := range act.rets {
		r.errState = make([]nilState, len(r.results))
		for i := 0; i < sig.Len() && i < len(r.results); i++ {
			if isErrorType(sig.At(i).Type()) {
				r.errState[i] = e.nilness(r.atoms, r.results[i])
			}
		}
	}
	if len(act.rets) <= 1 {
		return act.rets
	}
	classes := map[string][]*ret{}
	var order []string
	for _, r := range act.rets {
		var sb strings.Builder
		for i := 0; i < sig.Len() && i < len(r.results); i++ {
			t := sig.At(i).Type()
			switch {
			case isErrorType(t):
				switch e.nilness(r.atoms, r.results[i]) {
				case isNil:
					sb.WriteString("N")
				case nonNil:
					sb.WriteString("E:" + e.sentinelOf(r.results[i]))
				default:
					sb.WriteString("U")
				}
			case isBool(t):
				switch r.results[i] {
				case e.trueT:
					sb.WriteString("t")
				case e.falseT:
					sb.WriteString("f")
				default:
					sb.WriteString("b")
				}
			default:
				if r.results[i] == e.nilT {
					sb.WriteString("0")
				} else {
					sb.WriteString("-")
				}
			}
		}
		k := sb.String()
		if _, ok := classes[k]; !ok {
			order = append(order, k)
		}
		classes[k] = append(classes[k], r)
	}
	var out []*ret
	for _, k := range order {
		rs := classes[k]
		bound := e.K
		if strings.Contains(k, "E:") {
			// failing returns of a callee are merged into one class (the caller usually just forwards the
			// error) — except for a helper called directly by the entry function, whose few failure causes
			// stay apart: a block of the entry function extracted into a helper keeps its guards visible
			bound = 1
			if act.depth == 1 {
				bound = e.K
			}
		}
		out = append(out, e.joinRets(rs, bound, act.site)...)
	}
	return out
}

func (e *Engine) joinRets(rs []*ret, k int, site int32) []*ret {
	if len(rs) <= 1 {
		return rs
	}
	// reuse alt merge: encode results in the frame via synthetic keys
	as := make([]*alt, len(rs))
	for i, r := range rs {
		as[i] = &alt{atoms: r.atoms, may: r.may, cells: r.cells, heap: r.heap, frame: map[ssa.Value]term.ID{}, impure: r.impure}
		for j, t := range r.results {
			as[i].frame[resultKey(j)] = t
		}
	}
	as = e.join(as, k)
	out := make([]*ret, len(as))
	n := len(rs[0].results)
	for i, a := range as {
		res := make([]term.ID, n)
		for j := 0; j < n; j++ {
			if t, ok := a.frame[resultKey(j)]; ok {
				res[j] = t
			} else {
				res[j] = 0 // disagreement: caller substitutes a call-based term
			}
		}
		out[i] = &ret{atoms: a.atoms, may: a.may, cells: a.cells, heap: a.heap, results: res, impure: a.impure, errState: rs[0].errState}
	}
	return out
}

var resultKeys []*ssa.Const

func resultKey(j int) ssa.Value {
	for len(resultKeys) <= j {
		resultKeys = append(resultKeys, &ssa.Const{})
	}
	return resultKeys[j]
}

func isErrorType(t types.Type) bool {
	n, ok := t.(*types.Named)
	return ok && n.Obj().Pkg() == nil && n.Obj().Name() == "error"
}

func isBool(t types.Type) bool {
	b, ok := t.Underlying().(*types.Basic)
	return ok && b.Kind() == types.Bool
}

type nilState int

const (
	unknownNil nilState = iota
	isNil
	nonNil
)

// nilness decides whether an error-typed term is known nil / non-nil.
func (e *Engine) nilness(atoms term.Set, t term.ID) nilState {
	if t == 0 {
		return unknownNil
	}
	if t == e.nilT {
		return isNil
	}
	tm := e.T.Get(t)
	op := tm.Op
	switch {
	case strings.HasPrefix(op, "gv:"):
		return nonNil
	case op == "call:errorsmod.Wrap" || op == "call:errorsmod.Wrapf":
		if len(tm.Args) > 0 {
			return e.nilness(atoms, tm.Args[0])
		}
	case op == "call:errors.New" || op == "call:fmt.Errorf" || op == "call:errorsmod.Register" ||
		op == "call:errors.Join" && false:
		return nonNil
	case strings.HasPrefix(op, "addr#"):
		return nonNil
	}
	if atoms.Has(e.T.Mk("fail", stripExtract(e.T, t))) || atoms.Has(e.T.Mk("errnonnil", t)) {
		return nonNil
	}
	if atoms.Has(e.T.Mk("ok", stripExtract(e.T, t))) || atoms.Has(e.T.Mk("errnil", t)) {
		return isNil
	}
	return unknownNil
}

func stripExtract(T *term.Table, t term.ID) term.ID {
	for strings.HasPrefix(T.Op(t), "extract:") {
		t = T.Args(t)[0]
	}
	return t
}

// sentinelOf returns the name of a listed sentinel error at the root of a
// wrapped error term, or "".
func (e *Engine) sentinelOf(t term.ID) string {
	for {
		tm := e.T.Get(t)
		if strings.HasPrefix(tm.Op, "gv:") {
			for _, s := range e.Sentinels {
				if strings.HasSuffix(tm.Op, "."+s) {
					return s
				}
			}
			return ""
		}
		if (tm.Op == "call:errorsmod.Wrap" || tm.Op == "call:errorsmod.Wrapf") && len(tm.Args) > 0 {
			t = tm.Args[0]
			continue
		}
		return ""
	}
}
