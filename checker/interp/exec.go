package interp

import (
	"fmt"
	"go/constant"
	"go/token"
	"go/types"
	"strconv"
	"strings"

	"golang.org/x/tools/go/ssa"

	"ibcverif/load"
	"ibcverif/term"
)

func typeShort(t types.Type) string {
	return types.TypeString(t, func(p *types.Package) string { return load.ShortPkg(p.Path()) })
}

// val returns the term of an SSA value in alternative a.
func (act *activation) val(a *alt, v ssa.Value) term.ID {
	e := act.e
	switch v := v.(type) {
	case *ssa.Const:
		return e.constTerm(v)
	case *ssa.Global:
		return e.T.Mk("gaddr:" + load.ShortPkg(v.Pkg.Pkg.Path()) + "." + v.Name())
	case *ssa.Function:
		k := load.FuncKey(v)
		e.closures[k] = v
		return e.T.Mk("fn:" + k)
	case *ssa.Builtin:
		return e.T.Mk("builtin:" + v.Name())
	}
	if t, ok := a.frame[v]; ok {
		return t
	}
	if ins, ok := v.(ssa.Instruction); ok {
		return e.T.Mk(fmt.Sprintf("top#%d", e.site(act.site, ins, 0)))
	}
	return e.T.Mk("top#" + v.Name())
}

func (e *Engine) constTerm(c *ssa.Const) term.ID {
	if c.Value == nil {
		// zero value: nil for pointer-like types, zero:T for aggregates
		switch c.Type().Underlying().(type) {
		case *types.Struct, *types.Array:
			return e.T.Mk("zero:" + typeShort(c.Type()))
		case *types.Basic:
			return e.T.Mk("0")
		}
		return e.nilT
	}
	if n, ok := e.P.ConstName(c.Type(), c.Value); ok {
		return e.T.Mk(n)
	}
	switch c.Value.Kind() {
	case constant.Bool:
		if constant.BoolVal(c.Value) {
			return e.trueT
		}
		return e.falseT
	case constant.String:
		return e.T.Mk(strconv.Quote(constant.StringVal(c.Value)))
	}
	return e.T.Mk(c.Value.ExactString())
}

// ---------------------------------------------------------------- memory

// addrRoot decomposes an address term into (cell id, path) if it is rooted at
// a tracked cell.
func (e *Engine) addrRoot(t term.ID) (int32, []term.ID, bool) {
	var path []term.ID
	cur := t
	for {
		tm := e.T.Get(cur)
		switch {
		case strings.HasPrefix(tm.Op, "addr#"):
			n, _ := strconv.Atoi(tm.Op[5:])
			// path collected innermost-last; reverse
			for i, j := 0, len(path)-1; i < j; i, j = i+1, j-1 {
				path[i], path[j] = path[j], path[i]
			}
			return int32(n), path, true
		case strings.HasPrefix(tm.Op, "faddr:"), tm.Op == "iaddr":
			path = append(path, cur)
			cur = tm.Args[0]
		default:
			return 0, nil, false
		}
	}
}

// readStep applies one address step (faddr:f / iaddr) to a value term.
func (e *Engine) readStep(val term.ID, step term.ID) term.ID {
	st := e.T.Get(step)
	if strings.HasPrefix(st.Op, "faddr:") {
		return e.field(val, st.Op[6:])
	}
	return e.index(val, st.Args[1])
}

func (e *Engine) field(val term.ID, f string) term.ID {
	cur := val
	for {
		tm := e.T.Get(cur)
		if strings.HasPrefix(tm.Op, "with:") {
			if tm.Op == "with:"+f {
				return tm.Args[1]
			}
			cur = tm.Args[0]
			continue
		}
		break
	}
	if tm := e.T.Get(cur); tm.Op == "deref" {
		cur = tm.Args[0] // field paths do not distinguish a pointer from its pointee
	}
	return e.T.Mk("field:"+f, cur)
}

func (e *Engine) index(val term.ID, i term.ID) term.ID {
	tm := e.T.Get(val)
	if tm.Op == "arr" {
		if n, err := strconv.Atoi(e.T.Op(i)); err == nil && n >= 0 && n < len(tm.Args) {
			return tm.Args[n]
		}
	}
	cur := val
	for {
		tm := e.T.Get(cur)
		if tm.Op == "withidx" {
			if tm.Args[1] == i {
				return tm.Args[2]
			}
			// different index term: cannot decide aliasing unless both constants
			if isNumber(e.T.Op(tm.Args[1])) && isNumber(e.T.Op(i)) {
				cur = tm.Args[0]
				continue
			}
			return e.T.Mk("index", val, i)
		}
		break
	}
	return e.T.Mk("index", cur, i)
}

func isNumber(s string) bool { _, err := strconv.Atoi(s); return err == nil }

// writePath returns val with the location at path replaced by nv.
func (e *Engine) writePath(val term.ID, path []term.ID, nv term.ID) term.ID {
	if len(path) == 0 {
		return nv
	}
	st := e.T.Get(path[0])
	if strings.HasPrefix(st.Op, "faddr:") {
		f := st.Op[6:]
		inner := e.writePath(e.field(val, f), path[1:], nv)
		return e.withField(val, f, inner)
	}
	i := st.Args[1]
	inner := e.writePath(e.index(val, i), path[1:], nv)
	tm := e.T.Get(val)
	if tm.Op == "arr" {
		if n, err := strconv.Atoi(e.T.Op(i)); err == nil && n >= 0 && n < len(tm.Args) {
			args := append([]term.ID(nil), tm.Args...)
			args[n] = inner
			return e.T.Mk("arr", args...)
		}
	}
	return e.T.Mk("withidx", val, i, inner)
}

// withField sets field f, keeping the with-chain sorted by field name and
// without duplicates, so that equal struct values get equal terms.
func (e *Engine) withField(val term.ID, f string, nv term.ID) term.ID {
	type fv struct {
		f string
		v term.ID
	}
	var fs []fv
	cur := val
	for {
		tm := e.T.Get(cur)
		if strings.HasPrefix(tm.Op, "with:") {
			if tm.Op[5:] != f {
				fs = append(fs, fv{tm.Op[5:], tm.Args[1]})
			}
			cur = tm.Args[0]
			continue
		}
		break
	}
	fs = append(fs, fv{f, nv})
	// sort descending so the outermost is the smallest name... any fixed order works
	for i := 1; i < len(fs); i++ {
		for j := i; j > 0 && fs[j].f < fs[j-1].f; j-- {
			fs[j], fs[j-1] = fs[j-1], fs[j]
		}
	}
	out := cur
	for _, x := range fs {
		out = e.T.Mk("with:"+x.f, out, x.v)
	}
	return out
}

func (act *activation) load(a *alt, addr term.ID, ins ssa.Instruction) term.ID {
	e := act.e
	if c, path, ok := e.addrRoot(addr); ok {
		cv, ok := a.cells[c]
		if !ok {
			return e.T.Mk(fmt.Sprintf("top#%d", e.site(act.site, ins, 0)))
		}
		v := cv.val
		for _, st := range path {
			v = e.readStep(v, st)
		}
		return v
	}
	if v, ok := a.heap[addr]; ok {
		return v
	}
	tm := e.T.Get(addr)
	switch {
	case strings.HasPrefix(tm.Op, "gaddr:"):
		if v, ok := e.globalConst(tm.Op[6:]); ok {
			return v
		}
		return e.T.Mk("gv:" + tm.Op[6:])
	case strings.HasPrefix(tm.Op, "faddr:"):
		return e.field(act.loadPtr(a, tm.Args[0]), tm.Op[6:])
	case tm.Op == "iaddr":
		return e.index(act.loadPtr(a, tm.Args[0]), tm.Args[1])
	}
	return e.T.Mk("deref", addr)
}

// loadPtr views a pointer-to-struct term as the struct it points to (we do not
// distinguish a pointer from its pointee in field paths).
func (act *activation) loadPtr(a *alt, p term.ID) term.ID {
	e := act.e
	tm := e.T.Get(p)
	if strings.HasPrefix(tm.Op, "faddr:") || tm.Op == "iaddr" || strings.HasPrefix(tm.Op, "addr#") {
		return act.load(a, p, nil)
	}
	return p
}

func (act *activation) store(a *alt, addr, v term.ID, ins ssa.Instruction) {
	e := act.e
	if c, path, ok := e.addrRoot(addr); ok {
		cv := a.cells[c]
		if cv.val == 0 {
			cv.val = e.T.Mk(fmt.Sprintf("top#c%d", c))
		}
		if len(path) > 0 && e.T.Op(cv.val) == "top#bigarray" {
			return
		}
		cv.val = e.writePath(cv.val, path, v)
		a.cells[c] = cv
		act.escapeInto(a, v)
		return
	}
	a.heap[addr] = v
	a.impure = true
	sv := e.snapshot(v, a.cells, 0) // what a stored &T{...} holds at this point
	a.atoms = a.atoms.Add(e.T.Mk("store", addr, sv))
	act.escapeInto(a, v)
	if act.record {
		act.events = append(act.events, &Event{Key: "store", Kind: "store", Instr: ins, Fn: act.fn, Args: []term.ID{addr, sv}, Atoms: a.atoms, Stack: append([]string(nil), e.stackNames...)})
	}
}

// flags lists the boolean loop-carried variables of the function whose value
// is a known constant in this alternative, as flag:<name>(value).
func (act *activation) flags(a *alt) []term.ID {
	var out []term.ID
	for _, b := range act.fn.Blocks {
		for _, ins := range b.Instrs {
			phi, ok := ins.(*ssa.Phi)
			if !ok {
				break
			}
			if !isBool(phi.Type()) || phi.Comment == "" {
				continue
			}
			if v, ok := a.frame[phi]; ok && (v == act.e.trueT || v == act.e.falseT) {
				out = append(out, act.e.T.Mk("flag:"+phi.Comment, v))
			}
		}
	}
	return out
}

// escapeInto marks cells whose address is contained in v as escaped.
func (act *activation) escapeInto(a *alt, v term.ID) {
	act.forAddrs(v, func(c int32) {
		if cv, ok := a.cells[c]; ok && !cv.escaped {
			cv.escaped = true
			a.cells[c] = cv
		}
	})
}

func (act *activation) forAddrs(v term.ID, f func(int32)) {
	tm := act.e.T.Get(v)
	if strings.HasPrefix(tm.Op, "addr#") {
		n, _ := strconv.Atoi(tm.Op[5:])
		f(int32(n))
	}
	for _, x := range tm.Args {
		act.forAddrs(x, f)
	}
}

// ---------------------------------------------------------------- blocks

func (act *activation) execBlock(b *ssa.BasicBlock, a *alt, edgeOut map[edge][]*alt) {
	alts := []*alt{a}
	for _, ins := range b.Instrs {
		act.e.Steps++
		switch ins := ins.(type) {
		case *ssa.Phi:
			continue
		case *ssa.If:
			for _, x := range alts {
				act.branch(b, x, ins, edgeOut)
			}
			return
		case *ssa.Jump:
			ek := edge{b.Index, b.Succs[0].Index}
			edgeOut[ek] = append(edgeOut[ek], alts...)
			return
		case *ssa.Return:
			for _, x := range alts {
				res := make([]term.ID, len(ins.Results))
				for i, r := range ins.Results {
					res[i] = act.val(x, r)
				}
				act.addRet(x, res)
				if act.record && act.depth == 0 {
					// per-return-site view of the entry function (return classes are merged by outcome)
					// a returned &T{...} is shown with what it holds
					shown := make([]term.ID, len(res))
					for i, r := range res {
						shown[i] = act.e.snapshot(r, x.cells, 0)
					}
					act.events = append(act.events, &Event{Key: "return", Kind: "return", Instr: ins, Fn: act.fn, Args: shown, Atoms: x.atoms, May: x.may, Result: act.flags(x)})
				}
			}
			return
		case *ssa.Panic:
			if act.record {
				for _, x := range alts {
					act.events = append(act.events, &Event{Key: "panic", Kind: "panic", Instr: ins, Fn: act.fn, Args: []term.ID{act.val(x, ins.X)}, Atoms: x.atoms, Stack: append([]string(nil), act.e.stackNames...)})
				}
			}
			return
		}
		var next []*alt
		for _, x := range alts {
			next = append(next, act.exec(x, ins)...)
		}
		alts = next
		if len(alts) == 0 {
			return
		}
		// alternatives are merged only at block entry; inside a block the
		// outcome classes of a call must stay apart until the branch that
		// tests them. A hard cap keeps pathological cases bounded.
		if len(alts) > 8*act.e.K {
			act.e.warn("hard cap on alternatives inside a block: " + load.FuncKey(act.fn))
			alts = act.e.join(alts, 8*act.e.K)
		}
	}
}

func (act *activation) branch(b *ssa.BasicBlock, a *alt, ins *ssa.If, edgeOut map[edge][]*alt) {
	e := act.e
	c := act.val(a, ins.Cond)
	pos, neg := e.atomsOf(c)
	// an error forwarded through wrappers: the outcome applies to every call
	// recorded as returning that error (errvia)
	{
		ct := c
		if e.T.Op(ct) == "not" {
			ct = e.T.Args(ct)[0]
		}
		for _, at := range a.atoms {
			tm := e.T.Get(at)
			if tm.Op != "boolvia" {
				continue
			}
			eb, eneg := tm.Args[1], false
			if e.T.Op(eb) == "not" {
				eb, eneg = e.T.Args(eb)[0], true
			}
			if eb == ct {
				tA, fA := e.T.Mk("T", tm.Args[0]), e.T.Mk("F", tm.Args[0])
				if (e.T.Op(c) == "not") != eneg {
					pos, neg = append(pos, fA), append(neg, tA)
				} else {
					pos, neg = append(pos, tA), append(neg, fA)
				}
			}
		}
		if e.T.Op(ct) == "errnil" {
			x := e.T.Args(ct)[0]
			for _, at := range a.atoms {
				tm := e.T.Get(at)
				if tm.Op == "errvia" && tm.Args[1] == x {
					okA, failA := e.T.Mk("ok", tm.Args[0]), e.T.Mk("fail", tm.Args[0])
					if e.T.Op(c) == "not" {
						pos, neg = append(pos, failA), append(neg, okA)
					} else {
						pos, neg = append(pos, okA), append(neg, failA)
					}
				}
			}
		}
	}
	tEdge := edge{b.Index, b.Succs[0].Index}
	fEdge := edge{b.Index, b.Succs[1].Index}
	switch e.decide(a, c) {
	case 1:
		if c != e.trueT {
			for _, p := range pos {
				a.atoms = a.atoms.Add(p)
			}
		}
		edgeOut[tEdge] = append(edgeOut[tEdge], a)
	case -1:
		if c != e.falseT {
			for _, n := range neg {
				a.atoms = a.atoms.Add(n)
			}
		}
		edgeOut[fEdge] = append(edgeOut[fEdge], a)
	default:
		f := a.clone()
		for _, p := range pos {
			a.atoms = a.atoms.Add(p)
		}
		for _, n := range neg {
			f.atoms = f.atoms.Add(n)
		}
		edgeOut[tEdge] = append(edgeOut[tEdge], a)
		edgeOut[fEdge] = append(edgeOut[fEdge], f)
	}
}

// atomsOf returns the atoms added when boolean term c is true / false.
func (e *Engine) atomsOf(c term.ID) (pos, neg []term.ID) {
	T := e.T
	tm := T.Get(c)
	switch tm.Op {
	case "not":
		n, p := e.atomsOf(tm.Args[0])
		return p, n
	case "errnil":
		x := tm.Args[0]
		pos = []term.ID{c}
		neg = []term.ID{T.Mk("errnonnil", x)}
		if e.isErrCall(x) {
			pos = append(pos, T.Mk("ok", stripExtract(T, x)))
			neg = append(neg, T.Mk("fail", stripExtract(T, x)))
		}
		return pos, neg
	case "eq":
		return []term.ID{c}, []term.ID{T.Mk("ne", tm.Args[0], tm.Args[1])}
	case "ne":
		return []term.ID{c}, []term.ID{T.Mk("eq", tm.Args[0], tm.Args[1])}
	case "lt":
		return []term.ID{c}, []term.ID{T.Mk("le", tm.Args[1], tm.Args[0])}
	case "le":
		return []term.ID{c}, []term.ID{T.Mk("lt", tm.Args[1], tm.Args[0])}
	}
	return []term.ID{T.Mk("T", c)}, []term.ID{T.Mk("F", c)}
}

// isErrCall: the term is (an extract of) a call, used to phrase err==nil as ok(call).
func (e *Engine) isErrCall(x term.ID) bool {
	op := e.T.Op(stripExtract(e.T, x))
	return strings.HasPrefix(op, "call:") || op == "calldyn"
}

// decide evaluates boolean term c in alternative a: 1 true, -1 false, 0 unknown.
func (e *Engine) decide(a *alt, c term.ID) int {
	if c == e.trueT {
		return 1
	}
	if c == e.falseT {
		return -1
	}
	T := e.T
	tm := T.Get(c)
	switch tm.Op {
	case "not":
		return -e.decide(a, tm.Args[0])
	case "errnil":
		switch e.nilness(a.atoms, tm.Args[0]) {
		case isNil:
			return 1
		case nonNil:
			return -1
		}
		return 0
	case "eq", "ne":
		x, y := tm.Args[0], tm.Args[1]
		r := 0
		if x == y && !T.Opaque(x) {
			r = 1
		} else if e.isConstLeaf(x) && e.isConstLeaf(y) {
			r = -1
		} else if x == e.nilT || y == e.nilT {
			o := x
			if x == e.nilT {
				o = y
			}
			// the address of a variable, of a field or element reached through an address, of a global,
			// and function values are never nil
			if op := T.Op(o); strings.HasPrefix(op, "addr#") || strings.HasPrefix(op, "closure:") || strings.HasPrefix(op, "fn:") ||
				strings.HasPrefix(op, "gaddr:") || strings.HasPrefix(op, "faddr:") { // &p.f panics on a nil p, so a computed field address is non-nil
				r = -1
			}
		}
		if r == 0 {
			if a.atoms.Has(T.Mk("eq", x, y)) || a.atoms.Has(T.Mk("eq", y, x)) {
				r = 1
			} else if a.atoms.Has(T.Mk("ne", x, y)) || a.atoms.Has(T.Mk("ne", y, x)) {
				r = -1
			}
		}
		if tm.Op == "ne" {
			return -r
		}
		return r
	case "lt", "le":
		x, y := tm.Args[0], tm.Args[1]
		if xi, err := strconv.ParseInt(T.Op(x), 10, 64); err == nil {
			if yi, err := strconv.ParseInt(T.Op(y), 10, 64); err == nil {
				if tm.Op == "lt" && xi < yi || tm.Op == "le" && xi <= yi {
					return 1
				}
				return -1
			}
		}
		if a.atoms.Has(c) {
			return 1
		}
		var negA term.ID
		if tm.Op == "lt" {
			negA = T.Mk("le", y, x)
		} else {
			negA = T.Mk("lt", y, x)
		}
		if a.atoms.Has(negA) {
			return -1
		}
		return 0
	}
	if tm.Op == "call:errors.Is" && len(tm.Args) == 2 {
		// the root of a wrapped sentinel decides errors.Is against a sentinel
		x := tm.Args[0]
		for {
			xt := T.Get(x)
			if (xt.Op == "call:errorsmod.Wrap" || xt.Op == "call:errorsmod.Wrapf") && len(xt.Args) > 0 {
				x = xt.Args[0]
				continue
			}
			break
		}
		if strings.HasPrefix(T.Op(x), "gv:") && strings.HasPrefix(T.Op(tm.Args[1]), "gv:") {
			if x == tm.Args[1] {
				return 1
			}
			return -1
		}
	}
	if a.atoms.Has(T.Mk("T", c)) {
		return 1
	}
	if a.atoms.Has(T.Mk("F", c)) {
		return -1
	}
	return 0
}

func (e *Engine) isConstLeaf(x term.ID) bool {
	tm := e.T.Get(x)
	if len(tm.Args) != 0 {
		return false
	}
	op := tm.Op
	if op == "nil" || op == "true" || op == "false" || op[0] == '"' || isNumber(op) {
		return true
	}
	// named constants: shortpkg.NAME with no call/field prefix
	if !strings.Contains(op, ":") && !strings.Contains(op, "#") && strings.Contains(op, ".") {
		return true
	}
	return false
}

// ---------------------------------------------------------------- instructions

func cmpOp(op token.Token) (string, bool, bool) { // name, swap, ok
	switch op {
	case token.EQL:
		return "eq", false, true
	case token.NEQ:
		return "ne", false, true
	case token.LSS:
		return "lt", false, true
	case token.LEQ:
		return "le", false, true
	case token.GTR:
		return "lt", true, true
	case token.GEQ:
		return "le", true, true
	}
	return "", false, false
}

func (act *activation) exec(a *alt, ins ssa.Instruction) []*alt {
	e := act.e
	T := e.T
	one := []*alt{a}
	switch ins := ins.(type) {
	case *ssa.DebugRef:
		return one
	case *ssa.Alloc:
		c := e.site(act.site, ins, 0)
		act.cells = append(act.cells, c)
		et := ins.Type().(*types.Pointer).Elem()
		var z term.ID
		switch u := et.Underlying().(type) {
		case *types.Struct:
			z = T.Mk("zero:" + typeShort(et))
		case *types.Array:
			if u.Len() <= 16 {
				args := make([]term.ID, u.Len())
				for i := range args {
					args[i] = T.Mk("zero:" + typeShort(u.Elem()))
				}
				z = T.Mk("arr", args...)
			} else if u.Len() > 64 {
				// large tables (generated descriptors): not tracked
				z = T.Mk("top#bigarray")
			} else {
				z = T.Mk("zero:" + typeShort(et))
			}
		case *types.Basic:
			switch {
			case u.Info()&types.IsString != 0:
				z = T.Mk(`""`)
			case u.Info()&types.IsBoolean != 0:
				z = e.falseT
			default:
				z = T.Mk("0")
			}
		default:
			z = e.nilT
		}
		a.cells[c] = cellVal{val: z}
		a.frame[ins] = T.Mk(fmt.Sprintf("addr#%d", c))
	case *ssa.FieldAddr:
		st := deref(ins.X.Type()).Underlying().(*types.Struct)
		a.frame[ins] = T.Mk("faddr:"+st.Field(ins.Field).Name(), act.val(a, ins.X))
	case *ssa.Field:
		st := ins.X.Type().Underlying().(*types.Struct)
		a.frame[ins] = e.field(act.val(a, ins.X), st.Field(ins.Field).Name())
	case *ssa.IndexAddr:
		a.frame[ins] = T.Mk("iaddr", act.val(a, ins.X), act.val(a, ins.Index))
	case *ssa.Index:
		a.frame[ins] = e.index(act.val(a, ins.X), act.val(a, ins.Index))
	case *ssa.Lookup:
		m, k := act.val(a, ins.X), act.val(a, ins.Index)
		s := e.site(act.site, ins, 0)
		if ins.CommaOk {
			a.frame[ins] = T.Mk("tuple", T.MkSite("lookup", s, m, k), T.MkSite("haskey", s, m, k))
		} else {
			a.frame[ins] = T.MkSite("lookup", s, m, k)
		}
	case *ssa.UnOp:
		x := act.val(a, ins.X)
		switch ins.Op {
		case token.MUL:
			a.frame[ins] = act.load(a, x, ins)
		case token.NOT:
			if T.Op(x) == "not" {
				a.frame[ins] = T.Args(x)[0]
			} else if x == e.trueT {
				a.frame[ins] = e.falseT
			} else if x == e.falseT {
				a.frame[ins] = e.trueT
			} else {
				a.frame[ins] = T.Mk("not", x)
			}
		case token.SUB:
			a.frame[ins] = T.Mk("neg", x)
		case token.ARROW:
			a.frame[ins] = T.MkSite("recv", e.site(act.site, ins, 0), x)
		default:
			a.frame[ins] = T.Mk("unop:"+ins.Op.String(), x)
		}
	case *ssa.BinOp:
		x, y := act.val(a, ins.X), act.val(a, ins.Y)
		if name, swap, ok := cmpOp(ins.Op); ok {
			if swap {
				x, y = y, x
			}
			if (name == "eq" || name == "ne") && (x == e.nilT || y == e.nilT) && (isErrorType(ins.X.Type()) || isErrorType(ins.Y.Type())) {
				o := x
				if x == e.nilT {
					o = y
				}
				if name == "eq" {
					a.frame[ins] = T.Mk("errnil", o)
				} else {
					a.frame[ins] = T.Mk("not", T.Mk("errnil", o))
				}
			} else {
				a.frame[ins] = T.Mk(name, x, y)
			}
		} else if ins.Op == token.ADD && isString(ins.Type()) {
			a.frame[ins] = T.Mk("concat", x, y)
		} else {
			a.frame[ins] = T.Mk("binop:"+ins.Op.String(), x, y)
		}
	case *ssa.Store:
		act.store(a, act.val(a, ins.Addr), act.val(a, ins.Val), ins)
	case *ssa.ChangeType:
		a.frame[ins] = act.val(a, ins.X)
	case *ssa.ChangeInterface:
		a.frame[ins] = act.val(a, ins.X)
	case *ssa.MakeInterface:
		a.frame[ins] = act.val(a, ins.X)
	case *ssa.SliceToArrayPointer:
		a.frame[ins] = act.val(a, ins.X)
	case *ssa.Convert:
		a.frame[ins] = act.convert(a, ins.X, ins.Type())
	case *ssa.MultiConvert:
		a.frame[ins] = act.convert(a, ins.X, ins.Type())
	case *ssa.Extract:
		t := act.val(a, ins.Tuple)
		if T.Op(t) == "tuple" && ins.Index < len(T.Args(t)) {
			a.frame[ins] = T.Args(t)[ins.Index]
		} else {
			a.frame[ins] = T.Mk(fmt.Sprintf("extract:%d", ins.Index), t)
		}
	case *ssa.TypeAssert:
		x := act.val(a, ins.X)
		if ins.CommaOk {
			a.frame[ins] = T.Mk("tuple", x, T.Mk("istype:"+typeShort(ins.AssertedType), x))
		} else {
			a.frame[ins] = x
		}
	case *ssa.Slice:
		x := act.val(a, ins.X)
		if _, _, ok := e.addrRoot(x); ok {
			v := act.load(a, x, ins)
			// a freshly made, still all-zero buffer is about to be filled through
			// the slice: keep a reference to the buffer, not its (stale) value
			fresh := T.Op(v) == "arr" && len(T.Args(v)) > 0
			if fresh {
				for _, el := range T.Args(v) {
					if !strings.HasPrefix(T.Op(el), "zero:") {
						fresh = false
						break
					}
				}
			}
			if fresh && ins.Low == nil {
				a.frame[ins] = T.Mk("sliceof", x)
				break
			}
			x = v
		}
		if ins.Low == nil && ins.High == nil && ins.Max == nil {
			a.frame[ins] = x
		} else {
			lo, hi := T.Mk("0"), e.nilT
			if ins.Low != nil {
				lo = act.val(a, ins.Low)
			}
			if ins.High != nil {
				hi = act.val(a, ins.High)
			}
			a.frame[ins] = T.Mk("slice", x, lo, hi)
		}
	case *ssa.MakeSlice:
		a.frame[ins] = T.MkSite("make:slice", e.site(act.site, ins, 0), act.val(a, ins.Len))
	case *ssa.MakeMap:
		a.frame[ins] = T.MkSite("make:map", e.site(act.site, ins, 0))
	case *ssa.MakeChan:
		a.frame[ins] = T.MkSite("make:chan", e.site(act.site, ins, 0))
	case *ssa.MakeClosure:
		fn := ins.Fn.(*ssa.Function)
		k := load.FuncKey(fn)
		e.closures[k] = fn
		bs := make([]term.ID, len(ins.Bindings))
		for i, b := range ins.Bindings {
			bs[i] = act.val(a, b)
		}
		a.frame[ins] = T.Mk("closure:"+k, bs...)
	case *ssa.MapUpdate:
		a.atoms = a.atoms.Add(T.Mk("mapset", act.val(a, ins.Map), act.val(a, ins.Key), act.val(a, ins.Value)))
		a.impure = true
	case *ssa.Range:
		a.frame[ins] = T.MkSite("range", e.site(act.site, ins, 0), act.val(a, ins.X))
	case *ssa.Next:
		s := e.site(act.site, ins, 0)
		it := act.val(a, ins.Iter)
		a.frame[ins] = T.Mk("tuple", T.MkSite("next:ok", s, it), T.MkSite("next:key", s, it), T.MkSite("next:val", s, it))
	case *ssa.Select:
		a.frame[ins] = T.MkSite("select", e.site(act.site, ins, 0))
		e.warn("select")
	case *ssa.Send:
		a.impure = true
	case *ssa.Go:
		a.impure = true
		if act.record {
			act.events = append(act.events, &Event{Key: "go", Kind: "go", Instr: ins, Fn: act.fn, Atoms: a.atoms, Stack: append([]string(nil), e.stackNames...)})
		}
	case *ssa.Defer:
		a.defers = append(a.defers, ins)
		// argument values are captured now
		for i, arg := range ins.Call.Args {
			a.frame[deferArgKey(ins, i)] = act.val(a, arg)
		}
		a.frame[deferArgKey(ins, -1)] = act.val(a, ins.Call.Value)
	case *ssa.RunDefers:
		alts := []*alt{a}
		ds := a.defers
		for i := len(ds) - 1; i >= 0; i-- {
			var next []*alt
			for _, x := range alts {
				next = append(next, act.call(x, ds[i], &ds[i].Call, true)...)
			}
			alts = next
		}
		for _, x := range alts {
			x.defers = nil
		}
		return alts
	case *ssa.Call:
		return act.call(a, ins, &ins.Call, false)
	default:
		e.warn(fmt.Sprintf("unhandled instruction %T", ins))
		if v, ok := ins.(ssa.Value); ok {
			a.frame[v] = T.Mk(fmt.Sprintf("top#%d", e.site(act.site, ins, 0)))
		}
	}
	return one
}

type deferKey struct {
	d *ssa.Defer
	i int
}

var deferKeys = map[deferKey]*ssa.Const{}

func deferArgKey(d *ssa.Defer, i int) ssa.Value {
	k := deferKey{d, i}
	if c, ok := deferKeys[k]; ok {
		return c
	}
	c := &ssa.Const{}
	deferKeys[k] = c
	return c
}

func deref(t types.Type) types.Type {
	if p, ok := t.Underlying().(*types.Pointer); ok {
		return p.Elem()
	}
	return t
}

func isString(t types.Type) bool {
	b, ok := t.Underlying().(*types.Basic)
	return ok && b.Info()&types.IsString != 0
}

func (act *activation) convert(a *alt, x ssa.Value, to types.Type) term.ID {
	T := act.e.T
	v := act.val(a, x)
	from := x.Type().Underlying()
	tu := to.Underlying()
	// conversions between a named type and its underlying basic type of the same
	// kind are value-preserving: transparent
	if fb, ok := from.(*types.Basic); ok {
		if tb, ok := tu.(*types.Basic); ok && (fb.Kind() == tb.Kind() || fb.Info()&types.IsUntyped != 0) {
			return v
		}
	}
	if isString(to) {
		if _, ok := from.(*types.Slice); ok {
			return T.Mk("conv:string", v)
		}
		if isString(x.Type()) {
			return v
		}
	}
	if s, ok := tu.(*types.Slice); ok && isString(x.Type()) {
		if b, ok := s.Elem().Underlying().(*types.Basic); ok && b.Kind() == types.Byte {
			return T.Mk("conv:bytes", v)
		}
	}
	if _, ok := tu.(*types.Slice); ok {
		if _, ok := from.(*types.Slice); ok {
			return v
		}
	}
	return T.Mk("conv:"+typeShort(to), v)
}
