// Package relang decides questions about the regular languages denoted by the
// (anchored, ASCII) regular expressions that ibc-go uses to validate
// identifiers and denominations: emptiness of intersections, with a shortest
// witness. Expressions are parsed with regexp/syntax and turned into an
// epsilon-NFA over bytes; nothing is matched against run-time data.
package relang

import (
	"fmt"
	"regexp/syntax"
)

type NFA struct {
	// state 0 is the start; Accept is the single accepting state
	Eps    [][]int
	Edges  [][]edge
	Accept int
}

type edge struct {
	set [4]uint64
	to  int
}

func (n *NFA) newState() int {
	n.Eps = append(n.Eps, nil)
	n.Edges = append(n.Edges, nil)
	return len(n.Eps) - 1
}

func has(s *[4]uint64, b byte) bool { return s[b>>6]&(1<<(b&63)) != 0 }
func set(s *[4]uint64, b byte)      { s[b>>6] |= 1 << (b & 63) }

// Compile builds the NFA of the language of whole strings matched by re.
// The expression must be anchored at both ends (^...$) or is treated as if it
// were (full-match semantics), which is how ibc-go and the SDK use them.
func Compile(re string) (*NFA, error) {
	r, err := syntax.Parse(re, syntax.Perl)
	if err != nil {
		return nil, err
	}
	r = r.Simplify()
	n := &NFA{}
	s := n.newState()
	f, err := n.build(r, s)
	if err != nil {
		return nil, err
	}
	n.Accept = f
	return n, nil
}

// Lit is the language {s}.
func Lit(s string) *NFA {
	n := &NFA{}
	cur := n.newState()
	for i := 0; i < len(s); i++ {
		nx := n.newState()
		var bs [4]uint64
		set(&bs, s[i])
		n.Edges[cur] = append(n.Edges[cur], edge{bs, nx})
		cur = nx
	}
	n.Accept = cur
	return n
}

// Concat is the concatenation of the languages.
func Concat(parts ...*NFA) *NFA {
	n := &NFA{}
	cur := n.newState()
	for _, p := range parts {
		off := len(n.Eps)
		for i := range p.Eps {
			n.newState()
			for _, t := range p.Eps[i] {
				n.Eps[off+i] = append(n.Eps[off+i], off+t)
			}
			for _, e := range p.Edges[i] {
				n.Edges[off+i] = append(n.Edges[off+i], edge{e.set, off + e.to})
			}
		}
		n.Eps[cur] = append(n.Eps[cur], off)
		cur = off + p.Accept
	}
	n.Accept = cur
	return n
}

// Union is the union of the languages.
func Union(parts ...*NFA) *NFA {
	n := &NFA{}
	s := n.newState()
	f := n.newState()
	for _, p := range parts {
		off := len(n.Eps)
		for i := range p.Eps {
			n.newState()
			for _, t := range p.Eps[i] {
				n.Eps[off+i] = append(n.Eps[off+i], off+t)
			}
			for _, e := range p.Edges[i] {
				n.Edges[off+i] = append(n.Edges[off+i], edge{e.set, off + e.to})
			}
		}
		n.Eps[s] = append(n.Eps[s], off)
		n.Eps[off+p.Accept] = append(n.Eps[off+p.Accept], f)
	}
	n.Accept = f
	return n
}

func (n *NFA) build(r *syntax.Regexp, from int) (int, error) {
	switch r.Op {
	case syntax.OpEmptyMatch, syntax.OpBeginText, syntax.OpEndText, syntax.OpBeginLine, syntax.OpEndLine:
		return from, nil
	case syntax.OpLiteral:
		cur := from
		for _, ru := range r.Rune {
			if ru > 127 {
				return 0, fmt.Errorf("non-ASCII literal")
			}
			nx := n.newState()
			var bs [4]uint64
			set(&bs, byte(ru))
			if r.Flags&syntax.FoldCase != 0 {
				if ru >= 'a' && ru <= 'z' {
					set(&bs, byte(ru-32))
				} else if ru >= 'A' && ru <= 'Z' {
					set(&bs, byte(ru+32))
				}
			}
			n.Edges[cur] = append(n.Edges[cur], edge{bs, nx})
			cur = nx
		}
		return cur, nil
	case syntax.OpCharClass:
		var bs [4]uint64
		for i := 0; i+1 < len(r.Rune); i += 2 {
			lo, hi := r.Rune[i], r.Rune[i+1]
			for c := lo; c <= hi && c < 256; c++ {
				set(&bs, byte(c))
			}
		}
		nx := n.newState()
		n.Edges[from] = append(n.Edges[from], edge{bs, nx})
		return nx, nil
	case syntax.OpAnyChar, syntax.OpAnyCharNotNL:
		var bs [4]uint64
		for c := 0; c < 256; c++ {
			if r.Op == syntax.OpAnyCharNotNL && c == '\n' {
				continue
			}
			set(&bs, byte(c))
		}
		nx := n.newState()
		n.Edges[from] = append(n.Edges[from], edge{bs, nx})
		return nx, nil
	case syntax.OpCapture:
		return n.build(r.Sub[0], from)
	case syntax.OpConcat:
		cur := from
		for _, s := range r.Sub {
			var err error
			cur, err = n.build(s, cur)
			if err != nil {
				return 0, err
			}
		}
		return cur, nil
	case syntax.OpAlternate:
		f := n.newState()
		for _, s := range r.Sub {
			st := n.newState()
			n.Eps[from] = append(n.Eps[from], st)
			e, err := n.build(s, st)
			if err != nil {
				return 0, err
			}
			n.Eps[e] = append(n.Eps[e], f)
		}
		return f, nil
	case syntax.OpStar, syntax.OpPlus, syntax.OpQuest:
		st := n.newState()
		n.Eps[from] = append(n.Eps[from], st)
		e, err := n.build(r.Sub[0], st)
		if err != nil {
			return 0, err
		}
		f := n.newState()
		n.Eps[e] = append(n.Eps[e], f)
		if r.Op != syntax.OpPlus {
			n.Eps[from] = append(n.Eps[from], f)
		}
		if r.Op != syntax.OpQuest {
			n.Eps[e] = append(n.Eps[e], st)
		}
		return f, nil
	case syntax.OpRepeat:
		// Simplify removes bounded repeats except very large ones; expand by hand
		cur := from
		for i := 0; i < r.Min; i++ {
			var err error
			cur, err = n.build(r.Sub[0], cur)
			if err != nil {
				return 0, err
			}
		}
		if r.Max < 0 {
			st := n.newState()
			n.Eps[cur] = append(n.Eps[cur], st)
			e, err := n.build(r.Sub[0], st)
			if err != nil {
				return 0, err
			}
			f := n.newState()
			n.Eps[cur] = append(n.Eps[cur], f)
			n.Eps[e] = append(n.Eps[e], f, st)
			return f, nil
		}
		f := n.newState()
		n.Eps[cur] = append(n.Eps[cur], f)
		for i := r.Min; i < r.Max; i++ {
			var err error
			cur, err = n.build(r.Sub[0], cur)
			if err != nil {
				return 0, err
			}
			n.Eps[cur] = append(n.Eps[cur], f)
		}
		return f, nil
	}
	return 0, fmt.Errorf("unsupported regexp construct %v", r.Op)
}

func (n *NFA) closure(states []int) []int {
	seen := map[int]bool{}
	var out []int
	var st []int
	for _, s := range states {
		if !seen[s] {
			seen[s] = true
			st = append(st, s)
		}
	}
	for len(st) > 0 {
		s := st[len(st)-1]
		st = st[:len(st)-1]
		out = append(out, s)
		for _, t := range n.Eps[s] {
			if !seen[t] {
				seen[t] = true
				st = append(st, t)
			}
		}
	}
	return out
}

// Intersect reports whether the languages of all the automata share a string,
// with a shortest witness. The search is over tuples of single states after
// epsilon closure (on-the-fly product), breadth first.
func Intersect(ns ...*NFA) (bool, string) {
	type node struct {
		key  string
		sets [][]int
		prev int
		b    byte
	}
	mk := func(sets [][]int) string {
		return fmt.Sprint(sets)
	}
	norm := func(n *NFA, ss []int) []int {
		c := n.closure(ss)
		// sort for a canonical key
		for i := 1; i < len(c); i++ {
			for j := i; j > 0 && c[j] < c[j-1]; j-- {
				c[j], c[j-1] = c[j-1], c[j]
			}
		}
		return c
	}
	start := make([][]int, len(ns))
	for i, n := range ns {
		start[i] = norm(n, []int{0})
	}
	nodes := []node{{key: mk(start), sets: start, prev: -1}}
	seen := map[string]bool{nodes[0].key: true}
	accepting := func(sets [][]int) bool {
		for i, n := range ns {
			ok := false
			for _, s := range sets[i] {
				if s == n.Accept {
					ok = true
				}
			}
			if !ok {
				return false
			}
		}
		return true
	}
	for qi := 0; qi < len(nodes); qi++ {
		cur := nodes[qi]
		if accepting(cur.sets) {
			var w []byte
			for i := qi; nodes[i].prev >= 0; i = nodes[i].prev {
				w = append(w, nodes[i].b)
			}
			for i, j := 0, len(w)-1; i < j; i, j = i+1, j-1 {
				w[i], w[j] = w[j], w[i]
			}
			return true, string(w)
		}
		if len(nodes) > 400000 {
			return false, "<search bound exceeded>"
		}
		// prefer printable witnesses: try bytes in a friendly order
		for _, b := range byteOrder {
			next := make([][]int, len(ns))
			dead := false
			for i, n := range ns {
				var ts []int
				for _, s := range cur.sets[i] {
					for _, e := range n.Edges[s] {
						if has(&e.set, b) {
							ts = append(ts, e.to)
						}
					}
				}
				if len(ts) == 0 {
					dead = true
					break
				}
				next[i] = norm(n, ts)
			}
			if dead {
				continue
			}
			k := mk(next)
			if seen[k] {
				continue
			}
			seen[k] = true
			nodes = append(nodes, node{key: k, sets: next, prev: qi, b: b})
		}
	}
	return false, ""
}

var byteOrder = func() []byte {
	var o []byte
	for _, s := range []string{"abcdefghijklmnopqrstuvwxyz", "0123456789", "/-_.:", "ABCDEFGHIJKLMNOPQRSTUVWXYZ"} {
		o = append(o, s...)
	}
	seen := map[byte]bool{}
	for _, b := range o {
		seen[b] = true
	}
	for c := 0; c < 256; c++ {
		if !seen[byte(c)] {
			o = append(o, byte(c))
		}
	}
	return o
}()
