package main

import (
	"fmt"
	_ "golang.org/x/tools/go/packages"
	_ "golang.org/x/tools/go/ssa"
	_ "golang.org/x/tools/go/ssa/ssautil"
)

func main() { fmt.Println("ok") }
