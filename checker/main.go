package main

import (
	"encoding/json"
	"flag"
	"fmt"
	"os"
	"path"
	"runtime/debug"
	"runtime/pprof"
	"sort"
	"strings"
	"time"

	"ibcverif/interp"
	"ibcverif/load"
	"ibcverif/rules"
)

const verifDir = "/verif"

func main() {
	os.Setenv("PATH", "/opt/veriftools/go1.26.8/bin:"+os.Getenv("PATH"))
	for _, kv := range []string{"GOFLAGS=-mod=mod", "GOPROXY=off", "GOSUMDB=off", "GOTOOLCHAIN=local"} {
		k, v, _ := strings.Cut(kv, "=")
		os.Setenv(k, v)
	}
	os.Unsetenv("GOWORK")
	if len(os.Args) < 2 {
		fmt.Println("usage: ibcverif check <id> [--tier quick|thorough] | list | manifest | dump <funckey> [glob]")
		os.Exit(2)
	}
	switch os.Args[1] {
	case "dump":
		dump(os.Args[2:])
	case "check":
		os.Exit(check(os.Args[2:]))
	case "list":
		ids := make([]string, 0)
		for id := range rules.Registry {
			ids = append(ids, id)
		}
		sort.Strings(ids)
		for _, id := range ids {
			fmt.Println(id, rules.Registry[id].Title)
		}
	case "manifest":
		manifest()
	case "storeops":
		c := rules.NewCtx(&rules.Prop{ID: "X"}, "quick")
		for _, op := range c.StoreOps("main") {
			fmt.Printf("%-6s %-70q %-70s %s\n", op.Op, c.Engine("main").T.LayoutString(op.Prefix)+"|"+op.Layout, op.Fn, op.Where)
		}
	case "storereads":
		c := rules.NewCtx(&rules.Prop{ID: "X"}, "quick")
		for _, l := range c.StoreReadsDump("main") {
			fmt.Println(l)
		}
	default:
		fmt.Println("unknown command")
		os.Exit(2)
	}
}

func check(args []string) (code int) {
	if len(args) == 0 {
		fmt.Println("check: missing property id")
		return 2
	}
	id := args[0]
	fs := flag.NewFlagSet("check", flag.ExitOnError)
	tier := fs.String("tier", "quick", "quick|thorough")
	repo := fs.String("repo", "/repo", "repository under analysis")
	patch := fs.String("patch", "", "testing the checker: analyse the repository with this patch applied in memory (the tree is not touched)")
	evd := fs.String("evidence-dir", os.TempDir()+"/ibcverif-patched-evidence", "where evidence goes when --patch is given")
	fs.Parse(args[1:])
	if t := os.Getenv("VERIF_TIER"); t != "" && *tier == "quick" && false {
		*tier = t
	}
	p := rules.Registry[id]
	if p == nil {
		fmt.Println("unknown property", id)
		return 2
	}
	started := time.Now()
	if pf := os.Getenv("VERIF_PROF"); pf != "" {
		f, _ := os.Create(pf)
		pprof.StartCPUProfile(f)
		defer pprof.StopCPUProfile()
	}
	c := rules.NewCtx(p, *tier)
	c.RepoDir = *repo
	if *patch != "" {
		ov, files, err := rules.OverlayFromPatch(*repo, *patch)
		if err != nil {
			fmt.Println("check --patch:", err)
			return 2
		}
		c.Overlay = ov
		c.EvidenceDir = *evd
		fmt.Println("analysing", *repo, "with an in-memory patch of", files, "- evidence in", *evd)
	}
	func() {
		defer func() {
			if r := recover(); r != nil {
				c.Add(&rules.Obligation{Rule: id + "/analyser", Construct: "panic", Status: rules.Undecided, Detail: fmt.Sprintf("analyser panic: %v\n%s", r, debug.Stack())})
			}
		}()
		p.Run(c)
		c.RunDeps(verifDir)
	}()
	if *tier == "thorough" {
		c.AuditVariants(verifDir)
		for _, v := range c.Variants {
			fmt.Printf("variant %v: %v %v\n", v["seed"], v["status"], v["reported_as"])
		}
	}
	return c.Finish(verifDir, started)
}

func manifest() {
	ids := make([]string, 0)
	for id := range rules.Registry {
		ids = append(ids, id)
	}
	sort.Strings(ids)
	type chk map[string]any
	var checks []chk
	for _, id := range ids {
		p := rules.Registry[id]
		checks = append(checks, chk{
			"property_id":   id,
			"quick_cmd":     "./check.sh " + id + " quick",
			"thorough_cmd":  "./check.sh " + id + " thorough",
			"evidence_file": "/verif/evidence/" + id + ".json",
			"engine":        "ibcverif",
			"level_claimed": map[string]string{"category": "other", "text": p.LevelText, "design_ref": p.Design},
			"level_note":    p.Note,
			"technique":     p.Technique,
		})
	}
	b, _ := json.MarshalIndent(checks, "", " ")
	fmt.Println(string(b))
}

func dump(args []string) {
	fs := flag.NewFlagSet("dump", flag.ExitOnError)
	dir := fs.String("dir", "/repo", "module dir")
	pat := fs.String("pkgs", "./modules/...", "package patterns")
	rets := fs.Bool("rets", false, "print return alternatives")
	patch := fs.String("patch", "", "apply this patch in memory first")
	fs.Parse(args)
	t0 := time.Now()
	var overlay map[string][]byte
	if *patch != "" {
		ov, _, err := rules.OverlayFromPatch("/repo", *patch)
		if err != nil {
			fmt.Println("patch:", err)
			os.Exit(2)
		}
		overlay = ov
	}
	P, err := load.Load(load.Config{Dir: *dir, Patterns: strings.Split(*pat, ","), Overlay: overlay})
	if err != nil {
		fmt.Println("load error:", err)
		os.Exit(1)
	}
	fmt.Printf("loaded %d root pkgs, %d funcs in %.1fs\n", len(P.Pkgs), P.NumFuncs, time.Since(t0).Seconds())
	if fs.NArg() == 0 {
		var ks []string
		for k := range P.Funcs {
			ks = append(ks, k)
		}
		sort.Strings(ks)
		for _, k := range ks {
			fmt.Println(k)
		}
		return
	}
	fn := P.Funcs[fs.Arg(0)]
	if fn == nil {
		fmt.Println("no such function", fs.Arg(0))
		os.Exit(1)
	}
	glob := "*"
	if fs.NArg() > 1 {
		glob = fs.Arg(1)
	}
	e := interp.New(P)
	if prof := os.Getenv("VERIF_PROFILE"); prof != "" {
		rules.ApplyProfile(e, prof)
	}
	t1 := time.Now()
	rr := e.Run(fn)
	fmt.Printf("interpreted in %.2fs, %d steps, %d events, %d rets\n", time.Since(t1).Seconds(), e.Steps, len(rr.Events), len(rr.Rets))
	for _, ev := range rr.Events {
		g := strings.ReplaceAll(glob, "/", "\x01")
		k := strings.ReplaceAll(ev.Key, "/", "\x01")
		if ok, _ := path.Match(g, k); !ok {
			continue
		}
		fmt.Printf("\n== %s %s at %s in %s (inline=%v)\n", ev.Kind, ev.Key, P.Pos(ev.Instr.Pos()), load.FuncKey(ev.Fn), ev.Inline)
		for i, a := range ev.Args {
			fmt.Printf("   arg%d: %s\n", i, e.T.String(a))
		}
		if ev.Kind == "return" {
			for _, a := range ev.Result {
				fmt.Printf("   %s\n", e.T.String(a))
			}
		}
		for _, at := range ev.Atoms {
			fmt.Printf("   | %s\n", e.T.String(at))
		}
	}
	if *rets {
		for i, r := range rr.Rets {
			fmt.Printf("\n== ret %d\n", i)
			for j, x := range r.Results {
				fmt.Printf("   res%d: %s\n", j, e.T.String(x))
			}
			for _, at := range r.Atoms {
				fmt.Printf("   | %s\n", e.T.String(at))
			}
		}
	}
	var ws []string
	for w, n := range e.Warnings {
		ws = append(ws, fmt.Sprintf("%s x%d", w, n))
	}
	sort.Strings(ws)
	for _, w := range ws {
		fmt.Println("warn:", w)
	}
}
