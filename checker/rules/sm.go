package rules

import (
	"golang.org/x/tools/go/ssa"

	"ibcverif/interp"
	"ibcverif/term"
)

const sm = "light-clients/06-solomachine"

func init() {
	Register(&Prop{ID: "C26", Title: "Solo machine signatures are single-use and timestamps never decrease",
		Technique: "abstract interpretation (go/ssa): field-by-field binding of the sign bytes handed to the signature check on every successful return, must-store of the incremented sequence and the signed timestamp before the client state is persisted, timestamp guards, misbehaviour data-difference guard and freeze write",
		LevelText: "Decides that every successful solo-machine verification (header, membership, non-membership) passed the signature check with the stored public key over sign bytes built from exactly {the client's current sequence, the signed timestamp, the stored diversifier, the path element, the data}, and that before its client state is persisted the sequence was incremented by one (so the same signature cannot verify again) and the timestamp is one that was compared ≥ the stored timestamp; that a header update stores the header's key, diversifier and timestamp with the sequence incremented; that misbehaviour requires two successful signature checks over the same sequence with stateless validation having rejected identical (path,data) pairs and identical signatures; and that misbehaviour persists IsFrozen=true while Status reports Frozen for it. The cryptographic signature check itself (cosmos-sdk) is trusted.",
		Note:      "go/types + go/ssa; cosmos-sdk crypto trusted", Design: "§5 C26", Run: runC26})
}

func runC26(c *Ctx) {
	const which = "main"
	e := c.Engine(which)
	if e == nil {
		return
	}
	// ---- produceVerificationArgs(cdc#0, cs#1, proof#2)
	if rr := c.Run(which, sm+".produceVerificationArgs"); rr != nil {
		n := 0
		sig := c.pats(which, nil, "extract:0(call:"+sm+".UnmarshalSignatureData(_, field:SignatureData(?p)))")[0]
		for _, r := range rr.Rets {
			if !NilErr(e)(r) || len(r.Results) != 5 {
				continue
			}
			n++
			cst := "light-clients/06-solomachine.produceVerificationArgs"
			okAll := true
			chk := func(name, src string, id int) {
				p := c.pats(which, nil, src)[0]
				if !e.T.Any(p, setOf(r.Results[id]), nil) {
					c.bad("C26/args/"+name, cst, "", "result "+name+" is "+clip(e.T.String(r.Results[id]), 160)+", expected "+src)
					okAll = false
				}
			}
			chk("public-key", "~or(extract:0(call:"+sm+".ConsensusState.GetPubKey(field:ConsensusState(param#1))), call:*Any.GetCachedValue(field:PublicKey(field:ConsensusState(param#1))))", 0)
			chk("sequence", "field:Sequence(param#1)", 3)
			chk("timestamp", "field:Timestamp(?p)", 2)
			if !e.T.Any(sig, setOf(r.Results[1]), nil) {
				c.bad("C26/args/signature", cst, "", "signature data is "+clip(e.T.String(r.Results[1]), 160))
				okAll = false
			}
			// timestamp compared against the stored one, and both come from the unmarshalled proof
			env := term.Env{}
			e.T.Match(c.pats(which, nil, "field:Timestamp(?p)")[0], r.Results[2], term.Env{}, func(en term.Env) bool { env = en; return true })
			ps := c.pats(which, nil, "le(field:Timestamp(field:ConsensusState(param#1)), field:Timestamp(?p))", "ok(call:iface:codec.BinaryCodec.Unmarshal(param#0, param#2, _))")
			if ok, miss, _ := c.Holds(e, r.Atoms, env, ps); !ok {
				c.bad("C26/args/timestamp-not-decreasing", cst, "", "missing: "+miss)
				okAll = false
			}
			if okAll {
				c.ok("C26/args", cst, "", "returns (stored public key, proof's signature data, proof's timestamp ≥ stored timestamp, current sequence)")
			}
		}
		if n == 0 {
			c.bad("C26/args", sm+".produceVerificationArgs", "", "no successful return class found")
		}
	}
	pva := "call:" + sm + ".produceVerificationArgs(param#2, param#0, param#3)"
	signBytes := func(seq, ts, div, path, data string) string {
		return "ref(~and(~wf(Sequence, " + seq + "), ~wf(Timestamp, " + ts + "), ~wf(Diversifier, " + div + "), ~wf(Path, " + path + "), ~wf(Data, " + data + ")))"
	}
	// ---- verifyMembership(cs#0, store#1, cdc#2, proof#3, path#4, value#5) / verifyNonMembership(.., path#4)
	for _, x := range []struct{ fn, data string }{{"verifyMembership", "param#5"}, {"verifyNonMembership", "nil"}} {
		rr := c.Run(which, sm+".ClientState."+x.fn)
		if rr == nil {
			continue
		}
		seq := "~or(field:Sequence(param#0), extract:3(" + pva + "))"
		ts := "~or(extract:2(" + pva + "), field:Timestamp(esc#*))"
		sb := signBytes(seq, ts, "field:Diversifier(field:ConsensusState(param#0))", "index(field:KeyPath(param#4), 1)", x.data)
		c.CheckRets(which, "C26/"+x.fn, rr, NilErr(e), 1, nil,
			Req{Name: "signature-over-exact-sign-bytes", Any: all(
				"ok("+pva+")",
				"ok(call:"+sm+".VerifySignature(~or(extract:0("+pva+"), call:*Any.GetCachedValue(field:PublicKey(field:ConsensusState(param#0)))), extract:0(call:iface:codec.BinaryCodec.Marshal(param#2, "+sb+")), ~or(extract:1("+pva+"), extract:0(call:"+sm+".UnmarshalSignatureData))))",
				"eq(len(field:KeyPath(param#4)), 2)",
			)},
			Req{Name: "sequence-consumed", Any: all("store(faddr:Sequence(param#0), binop:+(field:Sequence(param#0), 1))")},
			Req{Name: "timestamp-advanced-to-signed-one", Any: all("store(faddr:Timestamp(field:ConsensusState(param#0)), " + ts + ")")},
		)
		c.persisted(which, "C26/"+x.fn, rr, "param#1", "param#0",
			"store(faddr:Sequence(param#0), binop:+(field:Sequence(param#0), 1))")
	}
	// ---- verifyHeader(cs#0, cdc#1, header#2)
	if rr := c.Run(which, sm+".ClientState.verifyHeader"); rr != nil {
		hd := "extract:0(call:iface:codec.BinaryCodec.Marshal(param#1, ref(~and(~wf(NewPubKey, field:NewPublicKey(param#2)), ~wf(NewDiversifier, field:NewDiversifier(param#2))))))"
		sb := signBytes("field:Sequence(param#0)", "field:Timestamp(param#2)", "field:Diversifier(field:ConsensusState(param#0))", `conv:bytes("solomachine:header")`, hd)
		c.CheckRets(which, "C26/header", rr, NilErr(e), 1, nil,
			Req{Name: "timestamp-not-decreasing", Any: all("le(field:Timestamp(field:ConsensusState(param#0)), field:Timestamp(param#2))")},
			Req{Name: "signature-over-exact-sign-bytes", Any: all(
				"ok(call:" + sm + ".VerifySignature(call:*Any.GetCachedValue(field:PublicKey(field:ConsensusState(param#0))), extract:0(call:iface:codec.BinaryCodec.Marshal(param#1, " + sb + ")), extract:0(call:" + sm + ".UnmarshalSignatureData(_, field:Signature(param#2)))))")},
		)
	}
	// ---- UpdateState(cs#0, ctx#1, cdc#2, store#3, msg#4)
	if rr := c.Run(which, sm+".ClientState.UpdateState"); rr != nil {
		c.persisted(which, "C26/update-state", rr, "param#3", "param#0",
			"store(faddr:Sequence(param#0), binop:+(field:Sequence(param#0), 1))",
			"store(faddr:ConsensusState(param#0), ref(~and(~wf(PublicKey, field:NewPublicKey(param#4)), ~wf(Diversifier, field:NewDiversifier(param#4)), ~wf(Timestamp, field:Timestamp(param#4)))))")
	}
	// ---- VerifyClientMessage dispatch
	if rr := c.Run(which, sm+".ClientState.VerifyClientMessage"); rr != nil {
		c.CheckRets(which, "C26/dispatch", rr, NilErr(e), 1, nil,
			Req{Name: "header-or-misbehaviour-verified", Any: [][]string{
				{"ok(call:" + sm + ".ClientState.verifyHeader(param#0, param#2, _))"},
				{"ok(call:" + sm + ".ClientState.verifyMisbehaviour(_, param#2, _))"},
			}})
	}
	// ---- misbehaviour: two signature checks, same sequence
	if rr := c.Run(which, sm+".ClientState.verifyMisbehaviour"); rr != nil {
		c.CheckRets(which, "C26/misbehaviour", rr, NilErr(e), 1, nil,
			Req{Name: "both-signatures-verified", Any: all(
				"ok(call:"+sm+".ClientState.verifySignatureAndData(_, param#1, param#2, field:SignatureOne(param#2)))",
				"ok(call:"+sm+".ClientState.verifySignatureAndData(_, param#1, param#2, field:SignatureTwo(param#2)))",
			)})
	}
	if rr := c.Run(which, sm+".ClientState.verifySignatureAndData"); rr != nil {
		sb := signBytes("field:Sequence(param#2)", "field:Timestamp(param#3)", "field:Diversifier(field:ConsensusState(param#0))", "field:Path(param#3)", "field:Data(param#3)")
		c.CheckRets(which, "C26/misbehaviour-signature", rr, NilErr(e), 1, nil,
			Req{Name: "signature-over-exact-sign-bytes", Any: all(
				"ok(call:" + sm + ".VerifySignature(call:*Any.GetCachedValue(field:PublicKey(field:ConsensusState(param#0))), extract:0(call:iface:codec.BinaryCodec.Marshal(param#1, " + sb + ")), extract:0(call:" + sm + ".UnmarshalSignatureData(_, field:Signature(param#3)))))")})
	}
	if rr := c.Run(which, sm+".Misbehaviour.ValidateBasic"); rr != nil {
		c.CheckRets(which, "C26/misbehaviour-validate", rr, NilErr(e), 1, nil,
			Req{Name: "different-data-for-one-sequence", Any: [][]string{
				{"F(call:bytes.Equal(field:Path(field:SignatureOne(param#0)), field:Path(field:SignatureTwo(param#0))))"},
				{"F(call:bytes.Equal(field:Data(field:SignatureOne(param#0)), field:Data(field:SignatureTwo(param#0))))"},
			}},
			Req{Name: "different-signatures", Any: all("F(call:bytes.Equal(field:Signature(field:SignatureOne(param#0)), field:Signature(field:SignatureTwo(param#0))))")},
		)
	}
	// stateless validation of the client message happens before the handler runs
	if rr := c.Run(which, "core/02-client/types.MsgUpdateClient.ValidateBasic"); rr != nil {
		c.CheckRets(which, "C26/msg-validate", rr, NilErr(e), 1, nil,
			Req{Name: "client-message-validated", Any: all("ok(call:iface:core/exported.ClientMessage.ValidateBasic)")})
	}
	// ---- module level: the client state verified against is the stored one, under the client's own store
	store := `call:prefix.NewStore(_, ~key("clients/{s}/", param#2))`
	csOf := "extract:0(call:$clientT.UnmarshalClientState(_, call:iface:*KVStore.Get(" + store + `, conv:bytes("clientState"))))`
	for _, m := range []struct {
		lcm, fn string
		args    map[int]string
	}{
		{"VerifyMembership", "verifyMembership", map[int]string{0: csOf, 1: store, 3: "param#6", 4: "param#7", 5: "param#8"}},
		{"VerifyNonMembership", "verifyNonMembership", map[int]string{0: csOf, 1: store, 3: "param#6", 4: "param#7"}},
		{"VerifyClientMessage", "VerifyClientMessage", map[int]string{0: csOf, 3: store, 4: "param#3"}},
		{"UpdateState", "UpdateState", map[int]string{0: csOf, 3: store, 4: "param#3"}},
	} {
		if rr := c.Run(which, sm+".LightClientModule."+m.lcm); rr != nil {
			c.Check(which, "C26/module/"+m.lcm, c.Calls(rr, sm+".ClientState."+m.fn), 1, nil, nil, Req{Name: "stored-client-state-own-store", Args: m.args})
			if m.lcm != "UpdateState" {
				c.CheckRets(which, "C26/module/"+m.lcm, rr, NilErr(e), 1, nil, Req{Name: "success-requires-verification", Any: all("ok(call:" + sm + ".ClientState." + m.fn + ")")})
			}
		}
	}
	// ---- freeze
	if rr := c.Run(which, sm+".LightClientModule.UpdateStateOnMisbehaviour"); rr != nil {
		c.persisted(which, "C26/freeze", rr, store, csOf, "store(faddr:IsFrozen("+csOf+"), true)")
	}
	if rr := c.Run(which, sm+".LightClientModule.Status"); rr != nil {
		act := c.pats(which, nil, "core/exported.Active")[0]
		notFrozen := c.pats(which, nil, "~or(F(field:IsFrozen("+csOf+")), eq(field:IsFrozen("+csOf+"), false))")
		n := 0
		for _, r := range rr.Rets {
			if len(r.Results) == 1 && e.T.Any(act, setOf(r.Results[0]), nil) {
				n++
				if ok, miss, _ := c.Holds(e, r.Atoms, nil, notFrozen); !ok {
					c.bad("C26/status", sm+".LightClientModule.Status", "", "Active is reported on a path that has not established IsFrozen=false of the stored client state: missing "+miss)
				}
			}
		}
		if n > 0 {
			c.ok("C26/status", sm+".LightClientModule.Status", "", "Active only when the stored client state is not frozen")
		} else {
			c.bad("C26/status", sm+".LightClientModule.Status", "", "no return class yields Active")
		}
	}
}

// persisted requires that the function writes the client state `cs` under the
// "clientState" key of `store`, and that at that write all `stores` (field
// updates of cs) have already happened; and that it is the only store write.
func (c *Ctx) persisted(which, rule string, rr *interp.RunResult, store, cs string, stores ...string) {
	e := c.Engine(which)
	var sets []*interp.Event
	for _, ev := range rr.Events {
		ci, ok := ev.Instr.(ssa.CallInstruction)
		if !ok || ev.Kind != "call" {
			continue
		}
		if op, ok := isKVWriteMethod(ci.Common()); ok && op == "set" {
			sets = append(sets, ev)
		}
	}
	c.Check(which, rule+"/persist", sets, 1, nil, nil,
		Req{Name: "client-state-written-after-updates", Args: map[int]string{0: store, 1: `conv:bytes("clientState")`, 2: "extract:0(call:iface:codec.BinaryCodec.MarshalInterface(_, " + cs + "))"}, Any: all(stores...)})
	_ = e
}
