package rules

import (
	"fmt"

	"ibcverif/relang"
	"ibcverif/term"
)

func init() {
	Register(&Prop{ID: "C42", Title: "Rate limiting charges exactly the denomination ICS-20 moves",
		Technique: "abstract interpretation (go/ssa): term shape of the two rate-limit denomination parsers and of the packet-info builder (channel, amount, sender, receiver binding); regular-language decision (product automata over the validators' expressions read from the source) of whether re-parsing the packet's path string can disagree with the denomination ICS-20 debits for a native token",
		LevelText: "Decides that for a send the rate-limited denomination is the packet's denomination string itself when it starts with \"ibc/\" and otherwise IBCDenom(ExtractDenomFromPath(string)), charged to the packet's source channel; that for a receive it is IBCDenom(ExtractDenomFromPath(string minus \"srcPort/srcChannel/\")) when the string has that prefix and otherwise IBCDenom(ExtractDenomFromPath(\"dstPort/dstChannel/\"+string)), charged to the destination channel — the string-level counterparts of ICS-20's remove-first-hop / prepend-receiving-hop; that amount, sender and receiver are the packet's; and, by the same language decision as C33, whether some native denomination accepted for transfer is split by that re-parsing, in which case ICS-20 debits the native denomination while rate limiting charges ibc/hash(path) and a limit on the native denomination is bypassed (reported with a witness). Does not decide the equivalence of the string-level and trace-level prefix handling for every path string.",
		Note:      "go/types + go/ssa + regexp/syntax; cosmos-sdk default denom regex assumed", Design: "§5 C42", Run: runC42})
}

// nativeSplitByParser decides whether ExtractDenomFromPath splits a denomination that transfer validation accepts as
// native. Returns ("yes", witness), ("no", ""), or ("undecided", reason).
func (c *Ctx) nativeSplitByParser(which string) (string, string, string) {
	chanRE, pos := c.regexLiteral(which, "core/04-channel/types", "IsChannelIDFormat")
	cliRE, _ := c.regexLiteral(which, "core/02-client/types", "IsClientIDFormat")
	if chanRE == "" || cliRE == "" {
		return "undecided", "channel/client identifier expressions not found in the source", pos
	}
	if !c.hopConditionShape(which) {
		return "undecided", "the parser's hop condition is not the known form", pos
	}
	native, err1 := relang.Compile(sdkDenomRegex)
	ch, err2 := relang.Compile(chanRE)
	cl, err3 := relang.Compile(cliRE)
	seg, err4 := relang.Compile(`^[^/]*$`)
	rest, err5 := relang.Compile(`^.*[^ \t\n/].*$`)
	notVoucher, err6 := relang.Compile(`^([^i].*|i[^b].*|ib[^c].*|ibc[^/].*|.{0,3})$`)
	chSafe, err7 := relang.Compile(`^channel-[0-9]{1,19}$`)
	for _, err := range []error{err1, err2, err3, err4, err5, err6, err7} {
		if err != nil {
			return "undecided", "cannot compile expressions: " + err.Error(), pos
		}
	}
	exact := relang.Concat(seg, relang.Lit("/"), relang.Union(chSafe, relang.Lit("09-localhost")), relang.Lit("/"), rest)
	over := relang.Concat(seg, relang.Lit("/"), relang.Union(ch, cl, relang.Lit("09-localhost")), relang.Lit("/"), rest)
	if yes, w := relang.Intersect(native, notVoucher, exact, relang.Concat(seg, relang.Lit("/"), ch, relang.Lit("/"), rest)); yes {
		return "yes", w, pos
	}
	if yes, w := relang.Intersect(native, notVoucher, exact); yes {
		return "yes", w, pos
	}
	if maybe, w := relang.Intersect(native, notVoucher, over); maybe {
		return "undecided", fmt.Sprintf("only client-identifier-shaped candidates such as %q remain", w), pos
	}
	return "no", "", pos
}

func runC42(c *Ctx) {
	const which = "main"
	e := ics20Engine(c, which)
	if e == nil {
		return
	}
	any := func(src string, set term.Set) bool { return e.T.Any(c.pats(which, nil, src)[0], set, nil) }
	rk := "apps/rate-limiting/keeper"
	ibcDenom := func(s string) string {
		return "call:" + xferT + ".Denom.IBCDenom(call:" + xferT + ".ExtractDenomFromPath(" + s + "))"
	}
	// ---- ParseDenomFromSendPacket(packet#0)
	if rr := c.Run(which, rk+".ParseDenomFromSendPacket"); rr != nil {
		fk := rk + ".ParseDenomFromSendPacket"
		nV, nP := 0, 0
		for _, ev := range rr.Events {
			if ev.Kind != "return" || len(ev.Args) != 1 {
				continue
			}
			switch {
			case any(`T(call:strings.HasPrefix(field:Denom(param#0), "ibc/"))`, ev.Atoms) && e.T.String(ev.Args[0]) == "field:Denom(param#0)":
				nV++
			case any(`F(call:strings.HasPrefix(field:Denom(param#0), "ibc/"))`, ev.Atoms) && any(ibcDenom("field:Denom(param#0)"), setOf(ev.Args[0])):
				nP++
			default:
				c.bad("C42/send-denom", fk, e.P.Pos(ev.Instr.Pos()), "send denomination is "+clip(e.T.String(ev.Args[0]), 140))
			}
		}
		if nV > 0 && nP > 0 {
			c.ok("C42/send-denom", fk, "", "\"ibc/…\" strings as they are, otherwise IBCDenom(ExtractDenomFromPath(string))")
		} else {
			c.bad("C42/send-denom", fk, "", "expected the voucher-string and the parsed case")
		}
	}
	// ---- ParseDenomFromRecvPacket(packet#0, packetData#1)
	if rr := c.Run(which, rk+".ParseDenomFromRecvPacket"); rr != nil {
		fk := rk + ".ParseDenomFromRecvPacket"
		srcPfx := "concat(call:" + xferT + ".Hop.String(call:" + xferT + ".NewHop(field:SourcePort(param#0), field:SourceChannel(param#0))), \"/\")"
		dstHop := "call:" + xferT + ".Hop.String(call:" + xferT + ".NewHop(~or(field:DestinationPort(param#0), call:core/04-channel/types.Packet.GetDestPort(param#0)), ~or(field:DestinationChannel(param#0), call:core/04-channel/types.Packet.GetDestChannel(param#0))))"
		has := "call:strings.HasPrefix(field:Denom(param#1), ~or(" + srcPfx + ", binop:+(_, \"/\")))"
		nB, nF := 0, 0
		for _, ev := range rr.Events {
			if ev.Kind != "return" || len(ev.Args) != 1 {
				continue
			}
			switch {
			case any("T("+has+")", ev.Atoms) && any(ibcDenom("slice(field:Denom(param#1), len(_), nil)"), setOf(ev.Args[0])):
				nB++
			case any("F("+has+")", ev.Atoms) && any(ibcDenom("~and(~in("+dstHop+"), ~in(field:Denom(param#1)))"), setOf(ev.Args[0])):
				nF++
			default:
				c.bad("C42/recv-denom", fk, e.P.Pos(ev.Instr.Pos()), "receive denomination is "+clip(e.T.String(ev.Args[0]), 200))
			}
		}
		if nB > 0 && nF > 0 {
			c.ok("C42/recv-denom", fk, "", "source prefix stripped when present, otherwise the receiving hop prepended, then IBCDenom(ExtractDenomFromPath(·))")
		} else {
			c.bad("C42/recv-denom", fk, "", fmt.Sprintf("expected the returning and the forward case, got %d/%d", nB, nF))
		}
	}
	// ---- ParsePacketInfo(packet#0, direction#1)
	if rr := c.Run(which, rk+".ParsePacketInfo"); rr != nil {
		fk := rk + ".ParsePacketInfo"
		nS, nR := 0, 0
		for _, ev := range rr.Events {
			if ev.Kind != "return" || len(ev.Args) != 2 || e.T.String(ev.Args[1]) != "nil" {
				continue
			}
			info := setOf(ev.Args[0])
			base := any("~and(~wf(Amount, extract:0(call:sdkmath.NewIntFromString(field:Amount(?d)))), ~wf(Sender, field:Sender(?d)), ~wf(Receiver, field:Receiver(?d)))", info)
			switch {
			case any("eq(param#1, apps/rate-limiting/types.PACKET_SEND)", ev.Atoms):
				nS++
				if !base || !any("~and(~wf(ChannelID, ~or(field:SourceChannel(param#0), call:core/04-channel/types.Packet.GetSourceChannel(param#0))), ~wf(Denom, call:"+rk+".ParseDenomFromSendPacket(_)))", info) {
					c.bad("C42/packet-info", fk, e.P.Pos(ev.Instr.Pos()), "send info is "+clip(e.T.String(ev.Args[0]), 200))
				}
			default:
				nR++
				if !base || !any("~and(~wf(ChannelID, ~or(field:DestinationChannel(param#0), call:core/04-channel/types.Packet.GetDestChannel(param#0))), ~wf(Denom, call:"+rk+".ParseDenomFromRecvPacket(param#0, _)))", info) {
					c.bad("C42/packet-info", fk, e.P.Pos(ev.Instr.Pos()), "receive info is "+clip(e.T.String(ev.Args[0]), 200))
				}
			}
		}
		if nS > 0 && nR > 0 {
			c.ok("C42/packet-info", fk, "", "send: source channel and send denomination; receive: destination channel and receive denomination; amount/sender/receiver from the packet data")
		} else {
			c.bad("C42/packet-info", fk, "", "expected a send and a receive case")
		}
	}
	// ---- does re-parsing disagree with ICS-20 for a native denomination?
	construct := rk + ".ParseDenomFromSendPacket native denomination with identifier-shaped second segment"
	switch st, w, pos := c.nativeSplitByParser(which); st {
	case "yes":
		c.bad("C42/native-denom-reparsed", construct, pos, fmt.Sprintf("ICS-20 debits a native denomination such as %q under its own name, but rate limiting re-parses the packet's path string and charges ibc/hash(path): a rate limit on the native denomination is never applied to it", w))
	case "no":
		c.ok("C42/native-denom-reparsed", construct, "", "no denomination accepted as native is split by the re-parsing")
	default:
		c.undecided("C42/native-denom-reparsed", construct, pos, w)
	}
}
