package rules

import (
	"fmt"
	"go/constant"
	"go/types"
	"strings"

	"golang.org/x/tools/go/ssa"

	"ibcverif/interp"
	"ibcverif/term"
)

const att = "light-clients/attestations"

func init() {
	Register(&Prop{ID: "C28", Title: "Attestor quorum, distinct signers and domain separation",
		Technique: "abstract interpretation (go/ssa) with loop back-edge invariants: what holds every time the signature loop goes round (length, recovery over the tagged hash, first occurrence of the signer, membership in the attestor set), quorum guard on the success return, shape of the tagged hash, flag-typestate of the non-membership loop, freeze write and frozen guards",
		LevelText: "Decides that verifySignatures returns nil only after its loop has gone over every signature of the proof and the signature count is at least MinRequiredSigs, and that every iteration that continues has checked: length 65, public-key recovery succeeded over sha256(tag || sha256(attestation data of this proof)) with the tag argument at byte 0, the recovered address was not seen before in this call (and is recorded), and it is in a set filled only from the client's configured attestor addresses; that updates use the state tag and proofs the packet tag and the two constants differ; that membership succeeds only on an element of the decoded packet list of the same signed data with 32-byte path and commitment equal to keccak(path element) and the given 32-byte value, at the attested height equal to the proof height, on a non-frozen client with a stored consensus state at that height; that non-membership succeeds only if the loop covered all packets, found the path, and no matching element had a commitment that is not 32 zero bytes; that an update whose timestamp differs from the stored one at that height is misbehaviour, which persists IsFrozen=true, and that a frozen client verifies nothing. go-ethereum's ecrecover/keccak and the ABI decoder are trusted.",
		Note:      "go/types + go/ssa; go-ethereum crypto and abi trusted", Design: "§5 C28", Run: runC28})
}

func runC28(c *Ctx) {
	const which = "main"
	e := c.Engine(which)
	if e == nil {
		return
	}
	any := func(src string, set term.Set, env term.Env) bool {
		return e.T.Any(c.pats(which, nil, src)[0], set, env)
	}
	// ---- TaggedSigningInput(data#0, type#1)
	tagged := func(data, tag string) string {
		return "call:crypto/sha256.Sum256(copied(withidx(zero:[33]byte, 0, ~or(" + tag + ", conv:*(" + tag + "))), 1, call:crypto/sha256.Sum256(" + data + ")))"
	}
	if rr := c.Run(which, att+".TaggedSigningInput"); rr != nil {
		n := 0
		for _, r := range rr.Rets {
			if len(r.Results) == 1 {
				n++
				if any(tagged("param#0", "param#1"), setOf(r.Results[0]), nil) {
					c.ok("C28/tagged-hash", att+".TaggedSigningInput", "", "sha256(tag || sha256(data)) with the tag at byte 0 of a 33-byte preimage")
				} else {
					c.bad("C28/tagged-hash", att+".TaggedSigningInput", "", "result is "+clip(e.T.String(r.Results[0]), 200))
				}
			}
		}
		if n == 0 {
			c.bad("C28/tagged-hash", att+".TaggedSigningInput", "", "no result")
		}
	}
	c.distinctTags(which)
	// ---- verifySignatures(cs#0, proof#1, type#2)
	if rr := c.Run(which, att+".ClientState.verifySignatures"); rr != nil {
		fk := att + ".ClientState.verifySignatures"
		sigs := "field:Signatures(param#1)"
		nNil := 0
		for _, ev := range rr.Events {
			if ev.Kind != "return" || len(ev.Args) != 1 || e.T.String(ev.Args[0]) != "nil" {
				continue
			}
			nNil++
			for _, rq := range []struct{ name, src string }{
				{"quorum", "le(conv:int(field:MinRequiredSigs(param#0)), len(" + sigs + "))"},
				{"all-signatures-visited", "le(len(" + sigs + "), _)"},
			} {
				if any(rq.src, ev.Atoms, nil) {
					c.ok("C28/signatures/"+rq.name, fk+"@"+c.retOrdinal(rr, ev), e.P.Pos(ev.Instr.Pos()), rq.src)
				} else {
					c.bad("C28/signatures/"+rq.name, fk+"@"+c.retOrdinal(rr, ev), e.P.Pos(ev.Instr.Pos()), "success return without "+rq.src)
				}
			}
		}
		if nNil == 0 {
			c.bad("C28/signatures/quorum", fk, "", "no success return found")
		}
		// iteration invariant
		sig := "index(" + sigs + ", ?i)"
		stp := "call:ethcrypto.SigToPub(" + tagged("field:AttestationData(param#1)", "param#2") + ", call:" + att + ".normalizeSignature(" + sig + "))"
		addr := "call:ethcrypto.PubkeyToAddress(deref(extract:0(" + stp + ")))"
		inv := []string{
			"eq(len(" + sig + "), 65)",
			"ok(" + stp + ")",
			"F(lookup(?seen, " + addr + "))",
			"mapset(?seen, " + addr + ", true)",
			"T(lookup(?att, " + addr + "))",
		}
		isSigLoop := c.pats(which, nil, "~in(index("+sigs+", _))")[0]
		nIter := 0
		var seenMap, attMap term.ID
		for _, ev := range rr.Events {
			if ev.Kind != "backedge" || !e.T.Any(isSigLoop, ev.Atoms, nil) {
				continue
			}
			nIter++
			ok, miss, env := c.Holds(e, ev.Atoms, term.Env{}, c.pats(which, nil, inv...))
			if !ok {
				c.bad("C28/signatures/iteration", fk, e.P.Pos(ev.Instr.Pos()), "the loop continues to the next signature without: "+miss)
				continue
			}
			seenMap, attMap = env["seen"], env["att"]
			if !strings.HasPrefix(e.T.Op(seenMap), "make:map") || !strings.HasPrefix(e.T.Op(attMap), "make:map") || seenMap == attMap {
				c.bad("C28/signatures/iteration", fk, e.P.Pos(ev.Instr.Pos()), "the seen-set and attestor-set are not two maps made in this call")
			}
		}
		if nIter == 0 {
			c.bad("C28/signatures/iteration", fk, "", "signature loop not found")
		} else {
			c.ok("C28/signatures/iteration", fk, "", fmt.Sprintf("%d path classes round the signature loop all carry: %s", nIter, strings.Join(inv, "; ")))
		}
		// the two sets are written only as expected
		if attMap != 0 {
			pm := c.pats(which, nil, "mapset(?m, ?k, ?v)")[0]
			pk := c.pats(which, nil, "call:ethcommon.HexToAddress(index(field:AttestorAddresses(param#0), _))")[0]
			pa := c.pats(which, nil, "call:ethcrypto.PubkeyToAddress(_)")[0]
			bad := false
			n := 0
			for _, ev := range rr.Events {
				// terms are compared modulo the equalities of this path class (results of helper calls)
				e.T.Alias = e.T.AliasesOf(ev.Atoms)
				for _, at := range ev.Atoms {
					e.T.Match(pm, at, term.Env{}, func(en term.Env) bool {
						n++
						switch en["m"] {
						case attMap:
							if !e.T.Any(pk, setOf(en["k"]), nil) || e.T.String(en["v"]) != "true" {
								bad = true
								c.bad("C28/signatures/attestor-set", fk, e.P.Pos(ev.Instr.Pos()), "the attestor set receives "+clip(e.T.String(en["k"]), 120))
							}
						case seenMap:
							if !e.T.Any(pa, setOf(en["k"]), nil) {
								bad = true
								c.bad("C28/signatures/seen-set", fk, e.P.Pos(ev.Instr.Pos()), "the seen set receives "+clip(e.T.String(en["k"]), 120))
							}
						}
						return true
					})
				}
				e.T.Alias = nil
				if ev.Kind == "call" && strings.HasPrefix(ev.Key, "builtin:delete") {
					bad = true
					c.bad("C28/signatures/attestor-set", fk, e.P.Pos(ev.Instr.Pos()), "an entry is deleted from a set during verification")
				}
			}
			if !bad && n > 0 {
				c.ok("C28/signatures/attestor-set", fk, "", "filled only with the client's configured attestor addresses; seen-set only with recovered signers")
			}
		}
	}
	// ---- who passes which tag
	if rr := c.Run(which, att+".ClientState.VerifyClientMessage"); rr != nil {
		c.CheckRets(which, "C28/update", rr, NilErr(e), 1, nil,
			Req{Name: "not-frozen-and-state-tag", Any: all(
				"F(field:IsFrozen(param#0))",
				"ok(call:"+att+".ClientState.verifySignatures(param#0, param#4, "+att+".AttestationTypeState))")})
	}
	proofOf := "esc#*"
	decoded := "index(extract:0(call:abi.Arguments.Unpack(gv:" + att + ".packetAttestationArgs, field:AttestationData(" + proofOf + "))), 0)"
	packets := "make:slice(len(field:Packets(" + decoded + ")))"
	elem := "index(" + packets + ", ?j)"
	keccak := "call:ethcrypto.Keccak256(index(field:KeyPath(param#5), 0))"
	common := []string{
		"F(field:IsFrozen(param#0))",
		"T(extract:1(call:" + att + ".getConsensusState(param#1, param#2, param#3)))",
		"ok(call:iface:codec.BinaryCodec.Unmarshal(param#2, param#4, _))",
		"ok(call:" + att + ".ClientState.verifySignatures(param#0, ~or(addr#*, ref(esc#*)), " + att + ".AttestationTypePacket))",
		"ok(call:" + att + ".ABIDecodePacketAttestation(field:AttestationData(" + proofOf + ")))",
		"eq(field:Height(" + decoded + "), field:RevisionHeight(param#3))",
		"eq(len(field:KeyPath(param#5)), 1)",
	}
	// ---- verifyMembership(cs#0, store#1, cdc#2, height#3, proof#4, path#5, value#6)
	if rr := c.Run(which, att+".ClientState.verifyMembership"); rr != nil {
		c.CheckRets(which, "C28/membership", rr, NilErr(e), 1, nil,
			Req{Name: "attested-commitment-at-hashed-path-and-height", Any: all(append(append([]string{}, common...),
				"eq(len(param#6), 32)",
				"eq(len(field:Commitment("+elem+")), 32)",
				"eq(len(field:Path("+elem+")), 32)",
				"T(call:bytes.Equal(field:Commitment("+elem+"), param#6))",
				"T(call:bytes.Equal(field:Path("+elem+"), "+keccak+"))",
			)...)})
	}
	// ---- verifyNonMembership(cs#0, store#1, cdc#2, height#3, proof#4, path#5)
	if rr := c.Run(which, att+".ClientState.verifyNonMembership"); rr != nil {
		fk := att + ".ClientState.verifyNonMembership"
		c.CheckRets(which, "C28/non-membership", rr, NilErr(e), 1, nil,
			Req{Name: "signed-packet-list-at-height", Any: all(append(append([]string{}, common...), "le(len("+packets+"), _)")...)})
		// flags at the success return
		nNil := 0
		for _, ev := range rr.Events {
			if ev.Kind != "return" || len(ev.Args) != 1 || e.T.String(ev.Args[0]) != "nil" {
				continue
			}
			nNil++
			fl := setOf(ev.Result...)
			if any("flag:foundMatchingPath(true)", fl, nil) && any("flag:allZeroCommitments(true)", fl, nil) {
				c.ok("C28/non-membership/flags", fk+"@"+c.retOrdinal(rr, ev), e.P.Pos(ev.Instr.Pos()), "success only with foundMatchingPath and allZeroCommitments both true")
			} else {
				c.bad("C28/non-membership/flags", fk+"@"+c.retOrdinal(rr, ev), e.P.Pos(ev.Instr.Pos()), "success return without foundMatchingPath=true and allZeroCommitments=true")
			}
		}
		if nNil == 0 {
			c.bad("C28/non-membership/flags", fk, "", "no success return")
		}
		// flag transitions round the packet loop
		match := "T(call:bytes.Equal(field:Path(" + elem + "), " + keccak + "))"
		notZero := []string{
			"ne(len(field:Commitment(" + elem + ")), 32)",
			"F(call:bytes.Equal(field:Commitment(" + elem + "), gv:" + att + ".nonMembershipCommitment))",
		}
		nSteps := 0
		for _, ev := range rr.Events {
			if ev.Kind != "backedge" {
				continue
			}
			steps := setOf(ev.Args...)
			if !any("flagstep:allZeroCommitments(_, _)", steps, nil) {
				continue
			}
			nSteps++
			pos := e.P.Pos(ev.Instr.Pos())
			if any("flagstep:allZeroCommitments(false, true)", steps, nil) {
				c.bad("C28/non-membership/all-zero-monotone", fk, pos, "allZeroCommitments is set back to true inside the loop")
			}
			if any("flagstep:foundMatchingPath(false, true)", steps, nil) && !any(match, ev.Atoms, term.Env{}) {
				c.bad("C28/non-membership/found-only-on-match", fk, pos, "foundMatchingPath becomes true without the element's path equal to the hashed key path")
			}
			if any(match, ev.Atoms, term.Env{}) && (any(notZero[0], ev.Atoms, term.Env{}) || any(notZero[1], ev.Atoms, term.Env{})) &&
				!any("flagstep:allZeroCommitments(_, false)", steps, nil) {
				c.bad("C28/non-membership/non-zero-clears-flag", fk, pos, "a matching element with a non-zero (or malformed) commitment leaves allZeroCommitments true")
			}
			// an element whose path matches but whose commitment has not been compared must not keep the flag
			if any(match, ev.Atoms, term.Env{}) && any("flagstep:allZeroCommitments(_, true)", steps, nil) {
				if !(any("eq(len(field:Commitment("+elem+")), 32)", ev.Atoms, term.Env{}) && any("T(call:bytes.Equal(field:Commitment("+elem+"), gv:"+att+".nonMembershipCommitment))", ev.Atoms, term.Env{})) {
					c.bad("C28/non-membership/zero-checked", fk, pos, "a matching element keeps allZeroCommitments without its commitment being checked to be 32 zero bytes")
				}
			}
		}
		if nSteps >= 3 {
			c.ok("C28/non-membership/loop", fk, "", fmt.Sprintf("%d path classes round the packet loop respect the flag discipline", nSteps))
		} else {
			c.bad("C28/non-membership/loop", fk, "", fmt.Sprintf("packet loop with its two flags not found (%d classes)", nSteps))
		}
	}
	c.zeroCommitment(which)
	// ---- misbehaviour
	store := `call:prefix.NewStore(_, ~key("clients/{s}/", param#2))`
	csOf := "extract:0(call:$clientT.UnmarshalClientState(_, call:iface:*KVStore.Get(" + store + `, conv:bytes("clientState"))))`
	if rr := c.Run(which, att+".LightClientModule.CheckForMisbehaviour"); rr != nil {
		fk := att + ".LightClientModule.CheckForMisbehaviour"
		dec := "extract:0(call:abi.Arguments.Unpack(gv:" + att + ".stateAttestationArgs, field:AttestationData(param#3)))"
		h := "~and(~wf(RevisionNumber, 0), ~wf(RevisionHeight, index(" + dec + ", 0)))"
		cons := "extract:0(call:$clientT.UnmarshalConsensusState(_, call:iface:*KVStore.Get(" + store + `, ~key("consensusStates/{s}", ` + h + "))))"
		want := "ne(field:Timestamp(" + cons + "), ~in(index(" + dec + ", 1)))"
		n := 0
		for _, ev := range rr.Events {
			if ev.Kind != "return" || len(ev.Args) != 1 {
				continue
			}
			n++
			if e.T.String(ev.Args[0]) == "false" {
				if any("F(extract:1(call:"+att+".getConsensusState("+store+", _, "+h+")))", ev.Atoms, nil) {
					c.ok("C28/misbehaviour/detect", fk+"@"+c.retOrdinal(rr, ev), e.P.Pos(ev.Instr.Pos()), "no misbehaviour only when no consensus state is stored at the attested height")
				} else {
					c.bad("C28/misbehaviour/detect", fk+"@"+c.retOrdinal(rr, ev), e.P.Pos(ev.Instr.Pos()), "returns false although a consensus state may be stored at the attested height")
				}
			} else if any(want, setOf(ev.Args[0]), nil) {
				c.ok("C28/misbehaviour/detect", fk+"@"+c.retOrdinal(rr, ev), e.P.Pos(ev.Instr.Pos()), "stored timestamp != attested timestamp")
			} else {
				c.bad("C28/misbehaviour/detect", fk+"@"+c.retOrdinal(rr, ev), e.P.Pos(ev.Instr.Pos()), "result is "+clip(e.T.String(ev.Args[0]), 200))
			}
		}
		if n < 2 {
			c.bad("C28/misbehaviour/detect", fk, "", "expected two return sites")
		}
	}
	if rr := c.Run(which, att+".LightClientModule.UpdateStateOnMisbehaviour"); rr != nil {
		c.persisted(which, "C28/freeze", rr, store, csOf, "store(faddr:IsFrozen("+csOf+"), true)")
	}
	c.statusRule(which, "C28/status", att+".LightClientModule.Status", csOf)
	for _, m := range []struct {
		lcm, fn string
		args    map[int]string
	}{
		{"VerifyMembership", "verifyMembership", map[int]string{0: csOf, 1: store, 3: "param#3", 4: "param#6", 5: "param#7", 6: "param#8"}},
		{"VerifyNonMembership", "verifyNonMembership", map[int]string{0: csOf, 1: store, 3: "param#3", 4: "param#6", 5: "param#7"}},
		{"VerifyClientMessage", "VerifyClientMessage", map[int]string{0: csOf, 3: store, 4: "param#3"}},
	} {
		if rr := c.Run(which, att+".LightClientModule."+m.lcm); rr != nil {
			c.Check(which, "C28/module/"+m.lcm, c.Calls(rr, att+".ClientState."+m.fn), 1, nil, nil, Req{Name: "stored-client-state-own-store", Args: m.args})
			c.CheckRets(which, "C28/module/"+m.lcm, rr, NilErr(e), 1, nil, Req{Name: "success-requires-verification", Any: all("ok(call:" + att + ".ClientState." + m.fn + ")")})
		}
	}
}

// statusRule: the module reports Active only for a stored client state that is not frozen.
func (c *Ctx) statusRule(which, rule, fk, csOf string) {
	e := c.Engine(which)
	rr := c.Run(which, fk)
	if rr == nil {
		return
	}
	act := c.pats(which, nil, "core/exported.Active")[0]
	notFrozen := c.pats(which, nil, "~or(F(field:IsFrozen("+csOf+")), eq(field:IsFrozen("+csOf+"), false))")
	n := 0
	for _, r := range rr.Rets {
		if len(r.Results) == 1 && e.T.Any(act, setOf(r.Results[0]), nil) {
			n++
			if ok, miss, _ := c.Holds(e, r.Atoms, nil, notFrozen); !ok {
				c.bad(rule, fk, "", "Active is reported on a path that has not established IsFrozen=false of the stored client state: missing "+miss)
			}
		}
	}
	if n > 0 {
		c.ok(rule, fk, "", "Active only when the stored client state is not frozen")
	} else {
		c.bad(rule, fk, "", "no return class yields Active")
	}
}

// distinctTags: the state and packet attestation type constants differ.
func (c *Ctx) distinctTags(which string) {
	p := c.Prog(which)
	if p == nil {
		return
	}
	vals := map[string]string{}
	for path, pkg := range p.All {
		if !strings.HasSuffix(path, "/light-clients/attestations") || pkg.Types == nil {
			continue
		}
		for _, n := range []string{"AttestationTypeState", "AttestationTypePacket"} {
			if k, ok := pkg.Types.Scope().Lookup(n).(*types.Const); ok && k.Val().Kind() == constant.Int {
				vals[n] = k.Val().ExactString()
			}
		}
	}
	if len(vals) == 2 && vals["AttestationTypeState"] != vals["AttestationTypePacket"] {
		c.ok("C28/tags-distinct", att+".AttestationType", "", fmt.Sprintf("state=%s packet=%s", vals["AttestationTypeState"], vals["AttestationTypePacket"]))
	} else {
		c.bad("C28/tags-distinct", att+".AttestationType", "", fmt.Sprintf("attestation type tags are not two distinct constants: %v", vals))
	}
}

// zeroCommitment: nonMembershipCommitment is make([]byte, 32) and is never written afterwards.
func (c *Ctx) zeroCommitment(which string) {
	p := c.Prog(which)
	if p == nil {
		return
	}
	const name = "nonMembershipCommitment"
	var g *ssa.Global
	for _, sp := range p.SSAPkgs {
		if sp != nil && strings.HasSuffix(sp.Pkg.Path(), "/light-clients/attestations") {
			if m, ok := sp.Members[name].(*ssa.Global); ok {
				g = m
			}
		}
	}
	if g == nil {
		c.bad("C28/zero-commitment", att+"."+name, "", "global not found")
		return
	}
	okInit, writes := false, 0
	fns := []*ssa.Function{}
	for _, fn := range p.Funcs {
		if fn.Pkg == g.Pkg {
			fns = append(fns, fn)
		}
	}
	if initFn := g.Pkg.Func("init"); initFn != nil {
		dup := false
		for _, f := range fns {
			if f == initFn {
				dup = true
			}
		}
		if !dup {
			fns = append(fns, initFn)
		}
	}
	for _, fn := range fns {
		for _, b := range fn.Blocks {
			for _, ins := range b.Instrs {
				st, ok := ins.(*ssa.Store)
				if !ok {
					continue
				}
				if st.Addr == g {
					writes++
					if fn.Name() == "init" && isFreshZeroSlice(st.Val, 32) {
						okInit = true
					}
				}
				// element writes through a loaded copy of the slice
				if ia, ok := st.Addr.(*ssa.IndexAddr); ok {
					if u, ok := ia.X.(*ssa.UnOp); ok && u.X == g {
						writes += 100
					}
				}
			}
		}
	}
	if okInit && writes == 1 {
		c.ok("C28/zero-commitment", att+"."+name, "", "initialised to make([]byte, 32) and never written again")
	} else {
		c.bad("C28/zero-commitment", att+"."+name, "", fmt.Sprintf("not provably 32 zero bytes (init ok=%v, writes=%d)", okInit, writes))
	}
}

// isFreshZeroSlice: v is make([]byte, n) with constant n (a full slice of a fresh zeroed array).
func isFreshZeroSlice(v ssa.Value, n int64) bool {
	sl, ok := v.(*ssa.Slice)
	if !ok || sl.Low != nil {
		return false
	}
	al, ok := sl.X.(*ssa.Alloc)
	if !ok {
		return false
	}
	at, ok := al.Type().Underlying().(*types.Pointer).Elem().Underlying().(*types.Array)
	if !ok || at.Len() != n {
		return false
	}
	if sl.High != nil {
		k, ok := sl.High.(*ssa.Const)
		if !ok || k.Value == nil || k.Value.ExactString() != fmt.Sprint(n) {
			return false
		}
	}
	// nothing else touches the array
	for _, r := range *al.Referrers() {
		if r != sl {
			return false
		}
	}
	return true
}

var _ = interp.New
