package rules

import (
	"ibcverif/interp"
	"ibcverif/term"
)

// ---------------------------------------------------------------- vocabulary

const (
	entryAck1      = "core/keeper.Keeper.Acknowledgement"
	entryTimeout1  = "core/keeper.Keeper.Timeout"
	entryTimeoutC1 = "core/keeper.Keeper.TimeoutOnClose"
	entryAck2      = "core/04-channel/v2/keeper.Keeper.Acknowledgement"
	entryTimeout2  = "core/04-channel/v2/keeper.Keeper.Timeout"
	entrySend2     = "core/04-channel/v2/keeper.Keeper.SendPacket"
	seamAck1       = "iface:core/05-port/types.IBCModule.OnAcknowledgementPacket"
	seamTimeout1   = "iface:core/05-port/types.IBCModule.OnTimeoutPacket"
	seamAck2       = "iface:core/api.IBCModule.OnAcknowledgementPacket"
	seamTimeout2   = "iface:core/api.IBCModule.OnTimeoutPacket"
	seamSend2      = "iface:core/api.IBCModule.OnSendPacket"
	lcmVerify      = "iface:core/exported.LightClientModule.VerifyMembership"
	lcmVerifyNon   = "iface:core/exported.LightClientModule.VerifyNonMembership"
)

// channel / connection terms of the v1 handlers
func chanOf(port, ch string) string {
	return "extract:0(call:$chanK.GetChannel(_, _, " + port + ", " + ch + "))"
}
func connOf(chanTerm string) string {
	return "extract:0(call:$connK.GetConnection(_, _, index(field:ConnectionHops(" + chanTerm + "), 0)))"
}

var (
	chSrc   = chanOf("$SP", "$SC")
	chDst   = chanOf("$DP", "$DC")
	connSrc = connOf(chSrc)
	connDst = connOf(chDst)
	// commitment of the v1 packet: sha256 over timeout fields and the data hash
	commitV1 = "call:crypto/sha256.Sum256(~and(~in(field:Data($PKT)), ~in(field:TimeoutTimestamp($PKT)), ~in(field:TimeoutHeight($PKT))))"
	// merkle path = counterparty prefix of the connection + ICS-24 key
	pathV1 = func(conn, k string) string {
		return "extract:0(call:core/23-commitment/types.ApplyPrefix(field:Prefix(field:Counterparty(" + conn + ")), call:dyn(gv:core/23-commitment/types.NewMerklePath, " + k + ")))"
	}
	timeoutOfPkt = "~and(~wf(Height, field:TimeoutHeight($PKT)), ~wf(Timestamp, field:TimeoutTimestamp($PKT)))"
)

func statusActive(cid string) string {
	return "eq($LCM.Status(_, _, " + cid + "), core/exported.Active)"
}

// v2: the path handed to the light client is the counterparty's merkle prefix
// with the key appended to its last element (BuildMerklePath stores into a clone)
func v2PathStore(cp, k string) string {
	return "store(iaddr(call:slices.Clone(field:MerklePrefix(" + cp + ")), _), ~in(" + k + "))"
}
func cpOf(client string) string {
	return "extract:0(call:core/02-client/v2/keeper.Keeper.GetClientCounterparty(_, _, " + client + "))"
}

func init() {
	Register(&Prop{ID: "C02", Title: "Ordered channels deliver and acknowledge strictly in sequence",
		Technique: "abstract interpretation (go/ssa): inductive step of the two ordered counters — equality guard with the stored counter and +1 write on the same key; writer/caller tables",
		LevelText: "Decides the inductive step: on ORDERED channels the receive (ack) callback is reached only when the packet sequence equals the stored nextSequenceRecv (nextSequenceAck) for this packet's channel end and that counter is rewritten to exactly counter+1; the counters have no other writers and start at the constant 1. Does not mechanise the induction over relay histories.",
		Note:      "go/types + go/ssa; KVStore semantics", Design: "§5 C02", Run: runC02})
	Register(&Prop{ID: "C03", Title: "At most one terminal outcome per sent packet",
		Technique: "abstract interpretation (go/ssa): commitment check-then-delete before the ack/timeout callback, no-op edge purity, writer tables of the commitment families",
		LevelText: "Decides that on every path class of the five ack/timeout handlers the application callback is preceded by a non-empty stored commitment equal to the commitment of this packet and by the deletion of that same key, that the empty-commitment edge is a pure no-op, and that commitments are created only by send and deleted only on these paths. Does not decide transaction serialisation (SDK).",
		Note:      "go/types + go/ssa; KVStore semantics", Design: "§5 C03", Run: runC03})
	Register(&Prop{ID: "C05", Title: "Receipt only of proven, unaltered, unexpired counterparty packets",
		Technique: "abstract interpretation (go/ssa): facts and argument binding at the light-client VerifyMembership seam and at the application callback of the recv handlers",
		LevelText: "Decides that the light-client membership verification in the v1/v2 receive paths is called with the proof height/proof of the message, the connection's client and delay, the counterparty prefix plus the ICS-24 commitment key built from this packet's source identifiers and sequence, and the commitment of this packet; that channel and connection are OPEN, counterparty identifiers match, the client is Active, and the self height/time timeout has not elapsed; and that the callback is reached only after that verification succeeded. Does not decide soundness of the proof system.",
		Note:      "go/types + go/ssa; light-client modules behave as their interface says", Design: "§5 C05", Run: runC05})
	Register(&Prop{ID: "C06", Title: "Acknowledgements are processed only if proven for that exact packet",
		Technique: "abstract interpretation (go/ssa): argument binding at the VerifyMembership seam of the ack handlers (key of this packet's destination, hash of the message's acknowledgement) and the value handed to the application",
		LevelText: "Decides that the acknowledgement handlers verify membership of the hash of exactly the acknowledgement carried by the message under the acks key of this packet's destination identifiers and sequence, check the stored commitment against this packet, and hand that same acknowledgement to the application. Does not decide proof-system soundness.",
		Note:      "go/types + go/ssa", Design: "§5 C06", Run: runC06})
	Register(&Prop{ID: "C08", Title: "Sends allocate consecutive sequences and respect send-time guards",
		Technique: "abstract interpretation (go/ssa): must-effects and guards on the nil-error returns of the v1/v2 send functions; key-family identity of the sequence counter",
		LevelText: "Decides that every successful send returns the stored nextSequenceSend value, rewrites that counter to value+1 and writes exactly the commitment under that sequence, that v1 and v2 use one key family for the counter, that the guards (channel OPEN, client Active, non-zero height, timeout not elapsed, v2 timeout window) precede the writes, and that rejected sends perform no store write. Does not decide interleavings (they follow from the shared key).",
		Note:      "go/types + go/ssa", Design: "§5 C08", Run: runC08})
	Register(&Prop{ID: "C09", Title: "Failed receives discard application state but keep receipt and ack",
		Technique: "abstract interpretation (go/ssa) with context lineage: the callback runs on a fresh cache of the entry context, that cache is committed only for nil/successful acks, the acknowledgement is written on the entry context",
		LevelText: "Decides that the v1 receive callback runs on a cache context created from the entry context after the TAO commit, that this cache's write function is invoked only when the acknowledgement is nil or successful, and that a non-nil acknowledgement is always written on the entry context. Does not decide that third-party middleware forwards the context it was given.",
		Note:      "go/types + go/ssa; sdk.Context.CacheContext semantics", Design: "§5 C09", Run: runC09})
	Register(&Prop{ID: "C11", Title: "Each received packet gets at most one immutable acknowledgement",
		Technique: "abstract interpretation (go/ssa) + writer/caller tables: absent-guard on the only writers of the ack families, no deletes, async pairing",
		LevelText: "Decides that the acknowledgement key families are set only under a has-no-acknowledgement guard on the same key (v2: and a found receipt), are never deleted, have no other writers, and that the v2 async path requires the stored async packet and deletes it on success.",
		Note:      "go/types + go/ssa", Design: "§5 C11", Run: runC11})
	Register(&Prop{ID: "C14", Title: "Ordered-channel timeouts close the channel for further packet flow",
		Technique: "abstract interpretation (go/ssa) with struct-field memory model: must-effect SetChannel(State=CLOSED) on ORDERED timeout returns; OPEN guards on send/recv/ack/write-ack",
		LevelText: "Decides that every successful ORDERED timeout / timeout-on-close stores the source channel end with State=CLOSED and that send, receive, acknowledge and write-acknowledgement are guarded by State==OPEN of their own channel end.",
		Note:      "go/types + go/ssa", Design: "§5 C14", Run: runC14})
}

// ---------------------------------------------------------------- C02

func runC02(c *Ctx) {
	const which = "main"
	e := c.Engine(which)
	if e == nil {
		return
	}
	if rr := c.Run(which, entryRecv1); rr != nil {
		c.Check(which, "C02/recv", c.Calls(rr, seamRecvV1), 1, pktMacros, nil,
			Req{Name: "ordered-equality-and-increment", Any: [][]string{
				{"eq(field:Ordering(" + chDst + "), $chanT.UNORDERED)"},
				{"eq(field:Ordering(" + chDst + "), $chanT.ORDERED)",
					"eq($SEQ, ~and(?n, " + load8("~and(?k, "+key(kNextRecv, "$DP", "$DC")+")") + "))",
					"$KVSet(?s, ?k, call:sdk.Uint64ToBigEndian(binop:+(?n, 1)))"},
			}})
	}
	if rr := c.Run(which, entryAck1); rr != nil {
		c.Check(which, "C02/ack", c.Calls(rr, seamAck1), 1, pktMacros, nil,
			Req{Name: "ordered-equality-and-increment", Any: [][]string{
				{"ne(field:Ordering(" + chSrc + "), $chanT.ORDERED)"},
				{"eq(field:Ordering(" + chSrc + "), $chanT.ORDERED)",
					"eq($SEQ, ~and(?n, " + load8("~and(?k, "+key(kNextAck, "$SP", "$SC")+")") + "))",
					"$KVSet(?s, ?k, call:sdk.Uint64ToBigEndian(binop:+(?n, 1)))"},
			}})
	}
	c.WriterTable(which, "C02/writers", []FamilyRule{
		{Family: "nextSequenceRecv/ports/", Ops: "set", Allowed: []string{"core/04-channel/keeper.Keeper.SetNextSequenceRecv"}, Min: 1},
		{Family: "nextSequenceAck/ports/", Ops: "set", Allowed: []string{"core/04-channel/keeper.Keeper.SetNextSequenceAck"}, Min: 1},
		{Family: "nextSequenceRecv/ports/", Ops: "delete", Min: 0},
		{Family: "nextSequenceAck/ports/", Ops: "delete", Min: 0},
	})
	initWriters := []string{"core/04-channel.InitGenesis", "core/04-channel/keeper.Keeper.WriteOpenInitChannel", "core/04-channel/keeper.Keeper.WriteOpenTryChannel"}
	c.CallerTable(which, "C02/callers", []CallerRule{
		{Callee: "core/04-channel/keeper.Keeper.SetNextSequenceRecv", Allowed: append([]string{"core/04-channel/keeper.Keeper.applyReplayProtection"}, initWriters...), Min: 3},
		{Callee: "core/04-channel/keeper.Keeper.SetNextSequenceAck", Allowed: append([]string{"core/04-channel/keeper.Keeper.AcknowledgePacket"}, initWriters...), Min: 3},
	})
	// genesis import restores each counter from its own exported field
	c.GenesisImportMap(which, "C02/genesis-import", "core/04-channel.InitGenesis", "param#2", channelGenesisFields)
	// initial value is the constant 1 at the handshake writers
	for _, w := range initWriters[1:] {
		if rr := c.Run(which, w); rr != nil {
			for _, setter := range []string{"SetNextSequenceRecv", "SetNextSequenceAck", "SetNextSequenceSend"} {
				c.Check(which, "C02/initial-one", c.Calls(rr, "$chanK."+setter), 1, pktMacros, nil,
					Req{Name: setter, Args: map[int]string{4: "1"}})
			}
		}
	}
}

// ---------------------------------------------------------------- C03

func runC03(c *Ctx) {
	const which = "main"
	e := c.Engine(which)
	if e == nil {
		return
	}
	ck := key(kCommit, "$SP", "$SC", "$SEQ")
	v1 := []struct{ entry, seam, tao, name string }{
		{entryAck1, seamAck1, "AcknowledgePacket", "ack-v1"},
		{entryTimeout1, seamTimeout1, "TimeoutPacket", "timeout-v1"},
		{entryTimeoutC1, seamTimeout1, "TimeoutOnClose", "timeout-on-close-v1"},
	}
	for _, x := range v1 {
		rr := c.Run(which, x.entry)
		if rr == nil {
			continue
		}
		c.Check(which, "C03/"+x.name+"/callback", c.Calls(rr, x.seam), 1, pktMacros, nil,
			Req{Name: "commitment-checked-and-deleted", Any: all(
				"ne(len(~and(?c, extract:0($KVGet(?s, ~and(?k, "+ck+"))))), 0)",
				"T(call:bytes.Equal(?c, "+commitV1+"))",
				"$KVDel(?s, ?k)",
			)},
			Req{Name: "tao-succeeded-and-committed", Any: all(
				"ok(call:$chanK."+x.tao+"(_, extract:0(?cc), $PKT, ...))",
				"call:dyn(extract:1(?cc))",
			)},
			Req{Name: "callback-gets-this-packet", Args: map[int]string{3: "$PKT"}},
		)
		commits := c.ArgMatches(which, c.Calls(rr, "dyn"), 0, pktMacros, "extract:1($CC(_))")
		c.Check(which, "C03/"+x.name+"/commit", commits, 1, pktMacros, commitEnv(e),
			Req{Name: "only-after-tao-success", Any: all("ok(call:$chanK." + x.tao + "(_, extract:0(?cc), ...))")})
		c.CheckRets(which, "C03/"+x.name+"/noop", rr, c.HasAtom(which, pktMacros, "T(call:errors.Is(_, gv:$chanT.ErrNoOpMsg))"), 1, pktMacros,
			Req{Name: "no-callback-no-commit-no-write", None: []string{"call:" + x.seam, "call:dyn(extract:1($CC(_)))", "$KVSet", "$KVDel"}})
	}
	ck2 := key(kV2Commit, "$SCL", "$SEQ")
	v2 := []struct{ entry, seam, tao, name string }{
		{entryAck2, seamAck2, "acknowledgePacket", "ack-v2"},
		{entryTimeout2, seamTimeout2, "timeoutPacket", "timeout-v2"},
	}
	for _, x := range v2 {
		rr := c.Run(which, x.entry)
		if rr == nil {
			continue
		}
		c.Check(which, "C03/"+x.name+"/callback", c.Calls(rr, x.seam), 1, pktMacros, nil,
			Req{Name: "commitment-checked-and-deleted", Any: all(
				"ne(len(~and(?c, extract:0($KVGet(?s, ~and(?k, "+ck2+"))))), 0)",
				"T(call:bytes.Equal(?c, call:$chanT2.CommitPacket($PKT)))",
				"$KVDel(?s, ?k)",
			)},
			Req{Name: "tao-succeeded-and-committed", Any: all(
				"ok(call:$chanK2."+x.tao+"(_, extract:0(?cc), $PKT, ...))",
				"call:dyn(extract:1(?cc))",
			)},
		)
		commits := c.ArgMatches(which, c.Calls(rr, "dyn"), 0, pktMacros, "extract:1($CC(_))")
		c.Check(which, "C03/"+x.name+"/commit", commits, 1, pktMacros, commitEnv(e),
			Req{Name: "only-after-tao-success", Any: all("ok(call:$chanK2." + x.tao + "(_, extract:0(?cc), ...))")})
		c.CheckRets(which, "C03/"+x.name+"/noop", rr, c.HasAtom(which, pktMacros, "T(call:errors.Is(_, gv:$chanT2.ErrNoOpMsg))"), 1, pktMacros,
			Req{Name: "no-callback-no-commit-no-write", None: []string{"call:" + x.seam, "call:dyn(extract:1($CC(_)))", "$KVSet", "$KVDel"}})
	}
	c.WriterTable(which, "C03/writers", []FamilyRule{
		{Family: "commitments/ports/", Ops: "set", Allowed: []string{"core/04-channel/keeper.Keeper.SetPacketCommitment"}, Min: 1},
		{Family: "commitments/ports/", Ops: "delete", Allowed: []string{"core/04-channel/keeper.Keeper.deletePacketCommitment"}, Min: 1},
		{Family: "{s}\x01{8}", Ops: "set", Allowed: []string{"core/04-channel/v2/keeper.Keeper.SetPacketCommitment"}, Min: 1},
		{Family: "{s}\x01{8}", Ops: "delete", Allowed: []string{"core/04-channel/v2/keeper.Keeper.DeletePacketCommitment"}, Min: 1},
	})
	c.CallerTable(which, "C03/callers", []CallerRule{
		{Callee: "core/04-channel/keeper.Keeper.SetPacketCommitment", Allowed: []string{"core/04-channel/keeper.Keeper.SendPacket", "core/04-channel.InitGenesis"}, Min: 2},
		{Callee: "core/04-channel/keeper.Keeper.deletePacketCommitment", Allowed: []string{"core/04-channel/keeper.Keeper.AcknowledgePacket", "core/04-channel/keeper.Keeper.timeoutExecuted"}, Min: 2},
		{Callee: "core/04-channel/keeper.Keeper.timeoutExecuted", Allowed: []string{"core/04-channel/keeper.Keeper.TimeoutPacket", "core/04-channel/keeper.Keeper.TimeoutOnClose"}, Min: 2},
		{Callee: "core/04-channel/v2/keeper.Keeper.SetPacketCommitment", Allowed: []string{"core/04-channel/v2/keeper.Keeper.sendPacket", "core/04-channel/v2.InitGenesis"}, Min: 2},
		{Callee: "core/04-channel/v2/keeper.Keeper.DeletePacketCommitment", Allowed: []string{"core/04-channel/v2/keeper.Keeper.acknowledgePacket", "core/04-channel/v2/keeper.Keeper.timeoutPacket"}, Min: 2},
	})
}

// ---------------------------------------------------------------- C05

func runC05(c *Ctx) {
	const which = "main"
	e := c.Engine(which)
	if e == nil {
		return
	}
	if rr := c.Run(which, entryRecv1); rr != nil {
		lcm := c.Calls(rr, lcmVerify)
		c.Check(which, "C05/recv-v1/verify", lcm, 1, pktMacros, nil,
			Req{Name: "arguments-bound-to-this-packet-and-connection", Args: map[int]string{
				2: "field:ClientId(~and(?conn, " + connDst + "))",
				3: "field:ProofHeight($MSG)",
				4: "field:DelayPeriod(?conn)",
				6: "field:ProofCommitment($MSG)",
				7: pathV1("?conn", key(kCommit, "$SP", "$SC", "$SEQ")),
				8: commitV1,
			}},
			Req{Name: "client-active", Args: map[int]string{0: "?lcm", 1: "?ctx", 2: "?cid"}, Any: all("eq($LCM.Status(?lcm, ?ctx, ?cid), core/exported.Active)")},
			Req{Name: "channel-open-and-counterparty-matches", Any: all(
				"eq(field:State("+chDst+"), $chanT.OPEN)",
				"eq($SP, field:PortId(field:Counterparty("+chDst+")))",
				"eq($SC, field:ChannelId(field:Counterparty("+chDst+")))",
			)},
			Req{Name: "connection-open", Any: all("eq(field:State(" + connDst + "), $connT.OPEN)")},
			Req{Name: "timeout-not-elapsed-at-self", Any: all(
				"F(call:$chanT.Timeout.Elapsed(" + timeoutOfPkt + ", call:$clientT.GetSelfHeight(?c), conv:uint64(call:time.Time.UnixNano(call:sdk.Context.BlockTime(?c)))))",
			)},
		)
		c.Check(which, "C05/recv-v1/callback", c.Calls(rr, seamRecvV1), 1, pktMacros, nil,
			Req{Name: "after-successful-verification", Any: all(
				"ok($LCM.VerifyMembership(_, _, field:ClientId("+connDst+"), field:ProofHeight($MSG), _, _, field:ProofCommitment($MSG), _, "+commitV1+"))",
			)},
			Req{Name: "callback-gets-this-packet", Args: map[int]string{3: "$PKT"}},
		)
		// failures are returned: every non-nil, non-noop error class performs no commit
		c.CheckRets(which, "C05/recv-v1/failure", rr, c.HasAtom(which, pktMacros, "fail(call:$chanK.RecvPacket)"), 1, pktMacros,
			Req{Name: "no-commit-no-callback", None: []string{"call:dyn(extract:1($CC(_)))", "call:" + seamRecvV1}})
	}
	if rr := c.Run(which, entryRecv2); rr != nil {
		cp := cpOf("$DCL")
		lcm := c.Calls(rr, lcmVerify)
		c.Check(which, "C05/recv-v2/verify", lcm, 1, pktMacros, nil,
			Req{Name: "arguments-bound-to-this-packet", Args: map[int]string{
				// the destination client itself, or the client stored under its alias key
				2: "~or($DCL, conv:string(extract:0($KVGet(_, ~key(\"{s}alias\", $DCL)))))",
				3: "field:ProofHeight($MSG)",
				6: "field:ProofCommitment($MSG)",
				7: "~wf(KeyPath, call:slices.Clone(field:MerklePrefix(" + cp + ")))",
				8: "call:$chanT2.CommitPacket($PKT)",
			}, Any: all(v2PathStore(cp, key(kV2Commit, "$SCL", "$SEQ")))},
			Req{Name: "client-active", Args: map[int]string{0: "?lcm", 1: "?ctx", 2: "?cid"}, Any: all("eq($LCM.Status(?lcm, ?ctx, ?cid), core/exported.Active)")},
			Req{Name: "counterparty-matches", Any: all("eq(field:ClientId(" + cp + "), $SCL)")},
			Req{Name: "timeout-strictly-after-block-time", Any: all("lt(conv:uint64(call:time.Time.Unix(call:sdk.Context.BlockTime(_))), field:TimeoutTimestamp($PKT))")},
		)
		c.Check(which, "C05/recv-v2/callback", c.Calls(rr, seamRecvV2), 1, pktMacros, nil,
			Req{Name: "after-successful-verification", Any: all(
				"ok($LCM.VerifyMembership(_, _, _, field:ProofHeight($MSG), _, _, field:ProofCommitment($MSG), _, call:$chanT2.CommitPacket($PKT)))",
			)},
		)
		c.CheckRets(which, "C05/recv-v2/failure", rr, c.HasAtom(which, pktMacros, "fail(call:$chanK2.recvPacket)"), 1, pktMacros,
			Req{Name: "no-commit-no-callback", None: []string{"call:dyn(extract:1($CC(_)))", "call:" + seamRecvV2}})
	}
	// ---- v2 over a channel alias: which light client and counterparty the alias names.
	// The alias of a v1 channel must be the client of that channel's own connection
	// end, and its v2 counterparty the counterparty channel id under the
	// connection's counterparty prefix.
	for _, w := range []string{"core/04-channel/keeper.Keeper.WriteOpenAckChannel", "core/04-channel/keeper.Keeper.WriteOpenConfirmChannel"} {
		rr := c.Run(which, w)
		if rr == nil {
			continue
		}
		ch := "extract:0(call:$chanK.GetChannel(_, _, param#2, param#3))"
		c.Check(which, "C05/alias/client", c.Calls(rr, "$chanK2.SetClientForAlias"), 1, nil, nil,
			Req{Name: "alias-is-own-connection-client", Args: map[int]string{2: "param#3", 3: "field:ClientId(" + connOf(ch) + ")"}})
		c.Check(which, "C05/alias/counterparty", c.Calls(rr, "core/02-client/v2/keeper.Keeper.SetClientCounterparty"), 1, nil, nil,
			Req{Name: "counterparty-derived-from-this-channel", Args: map[int]string{2: "param#3",
				3: "extract:0(call:$chanK.GetV2Counterparty(_, _, param#2, param#3))"},
				Any: all("eq(field:Ordering("+ch+"), $chanT.UNORDERED)")})
	}
	if rr := c.Run(which, "core/04-channel/keeper.Keeper.GetV2Counterparty"); rr != nil {
		ch := "extract:0(call:$chanK.GetChannel(_, _, param#2, param#3))"
		want := c.pats(which, nil, "~and(~wf(ClientId, field:ChannelId(field:Counterparty("+ch+"))), ~in(field:KeyPrefix(field:Prefix(field:Counterparty("+connOf(ch)+")))))")[0]
		n := 0
		for _, r := range rr.Rets {
			if len(r.Results) != 2 || e.T.Op(r.Results[1]) != "true" {
				continue
			}
			n++
			if e.T.Match(want, r.Results[0], term.Env{}, func(term.Env) bool { return true }) {
				c.ok("C05/alias/v2-counterparty", "core/04-channel/keeper.Keeper.GetV2Counterparty", "", "counterparty = counterparty channel id under the connection's counterparty prefix")
			} else {
				c.bad("C05/alias/v2-counterparty", "core/04-channel/keeper.Keeper.GetV2Counterparty", "", "v2 counterparty of an aliased channel is "+clip(e.T.String(r.Results[0]), 300))
			}
		}
		if n == 0 {
			c.bad("C05/alias/v2-counterparty", "core/04-channel/keeper.Keeper.GetV2Counterparty", "", "no successful return class found")
		}
		c.CheckRets(which, "C05/alias/v2-counterparty", rr, func(r *interp.Ret) bool { return len(r.Results) == 2 && e.T.Op(r.Results[1]) == "true" }, 1, nil,
			Req{Name: "only-open-unordered-channels", Any: all("eq(field:State("+ch+"), $chanT.OPEN)", "ne(field:Ordering("+ch+"), $chanT.ORDERED)")})
	}
	c.CallerTable(which, "C05/alias/callers", []CallerRule{
		{Callee: "core/04-channel/v2/keeper.Keeper.SetClientForAlias", Allowed: []string{"core/04-channel/keeper.Keeper.WriteOpenAckChannel",
			"core/04-channel/keeper.Keeper.WriteOpenConfirmChannel", "core/04-channel/migrations/v11.MigrateStore"}, Min: 3},
	})
	c.WriterTable(which, "C05/alias/writers", []FamilyRule{
		{Family: "{s}alias", Ops: "set", Allowed: []string{"core/04-channel/v2/keeper.Keeper.SetClientForAlias"}, Min: 1},
		{Family: "{s}alias", Ops: "delete", Min: 0},
	})
}

// ---------------------------------------------------------------- C06

func runC06(c *Ctx) {
	const which = "main"
	e := c.Engine(which)
	if e == nil {
		return
	}
	if rr := c.Run(which, entryAck1); rr != nil {
		c.Check(which, "C06/ack-v1/verify", c.Calls(rr, lcmVerify), 1, pktMacros, nil,
			Req{Name: "arguments-bound-to-this-packet-and-ack", Args: map[int]string{
				2: "field:ClientId(~and(?conn, " + connSrc + "))",
				3: "field:ProofHeight($MSG)",
				4: "field:DelayPeriod(?conn)",
				6: "field:ProofAcked($MSG)",
				7: pathV1("?conn", key(kAck, "$DP", "$DC", "$SEQ")),
				8: "call:crypto/sha256.Sum256(field:Acknowledgement($MSG))",
			}},
			Req{Name: "client-active", Args: map[int]string{0: "?lcm", 1: "?ctx", 2: "?cid"}, Any: all("eq($LCM.Status(?lcm, ?ctx, ?cid), core/exported.Active)")},
			Req{Name: "channel-open-and-counterparty-matches", Any: all(
				"eq(field:State("+chSrc+"), $chanT.OPEN)",
				"eq($DP, field:PortId(field:Counterparty("+chSrc+")))",
				"eq($DC, field:ChannelId(field:Counterparty("+chSrc+")))",
				"eq(field:State("+connSrc+"), $connT.OPEN)",
			)},
		)
		c.Check(which, "C06/ack-v1/callback", c.Calls(rr, seamAck1), 1, pktMacros, nil,
			Req{Name: "proven-ack-is-the-delivered-ack", Args: map[int]string{3: "$PKT", 4: "field:Acknowledgement($MSG)"}, Any: all(
				"ok($LCM.VerifyMembership(_, _, field:ClientId("+connSrc+"), field:ProofHeight($MSG), _, _, field:ProofAcked($MSG), _, call:crypto/sha256.Sum256(field:Acknowledgement($MSG))))",
				"T(call:bytes.Equal(extract:0($KVGet(_, "+key(kCommit, "$SP", "$SC", "$SEQ")+")), "+commitV1+"))",
			)},
		)
	}
	if rr := c.Run(which, entryAck2); rr != nil {
		cp := cpOf("$SCL")
		c.Check(which, "C06/ack-v2/verify", c.Calls(rr, lcmVerify), 1, pktMacros, nil,
			Req{Name: "arguments-bound-to-this-packet-and-ack", Args: map[int]string{
				3: "field:ProofHeight($MSG)",
				6: "field:ProofAcked($MSG)",
				7: "~wf(KeyPath, call:slices.Clone(field:MerklePrefix(" + cp + ")))",
				8: "call:$chanT2.CommitAcknowledgement(field:Acknowledgement($MSG))",
			}, Any: all(v2PathStore(cp, key(kV2Ack, "$DCL", "$SEQ")))},
			Req{Name: "client-active", Args: map[int]string{0: "?lcm", 1: "?ctx", 2: "?cid"}, Any: all("eq($LCM.Status(?lcm, ?ctx, ?cid), core/exported.Active)")},
			Req{Name: "counterparty-matches", Any: all("eq(field:ClientId(" + cp + "), $DCL)")},
		)
		c.Check(which, "C06/ack-v2/callback", c.Calls(rr, seamAck2), 1, pktMacros, nil,
			Req{Name: "after-proof-of-the-message-ack", Any: all(
				"ok($LCM.VerifyMembership(_, _, _, field:ProofHeight($MSG), _, _, field:ProofAcked($MSG), _, call:$chanT2.CommitAcknowledgement(field:Acknowledgement($MSG))))",
				"T(call:bytes.Equal(extract:0($KVGet(_, "+key(kV2Commit, "$SCL", "$SEQ")+")), call:$chanT2.CommitPacket($PKT)))",
			)},
			// the app acknowledgement for payload i is element i of the proven list, or the sentinel
			Req{Name: "delivered-ack-is-element-of-proven-list", Args: map[int]string{
				5: "~or(index(field:AppAcknowledgements(field:Acknowledgement($MSG)), ?i), slice(gaddr:$chanT2.ErrorAcknowledgement, ...), gv:$chanT2.ErrorAcknowledgement, ~in(gaddr:$chanT2.ErrorAcknowledgement))",
			}},
		)
	}
}

func init() {
	// C06 also needs the commitment functions to bind every element (shared with C07)
	p := Registry["C06"]
	if p != nil {
		inner := p.Run
		p.Run = func(c *Ctx) {
			inner(c)
			commitmentLayoutRules(c, "C06/commitment")
		}
	}
}

// ---------------------------------------------------------------- C08

func runC08(c *Ctx) {
	const which = "main"
	e := c.Engine(which)
	if e == nil {
		return
	}
	// v1: keeper SendPacket(ctx, port, channel, timeoutHeight, timeoutTimestamp, data)
	if rr := c.Run(which, "core/04-channel/keeper.Keeper.SendPacket"); rr != nil {
		m := Macros{"P": "param#2", "C": "param#3"}
		ch := "extract:0(call:$chanK.GetChannel(_, _, $P, $C))"
		conn := connOf(ch)
		c.CheckRets(which, "C08/send-v1/success", rr, NilErr(e), 1, m,
			Req{Name: "counter-incremented-and-commitment-written", Any: all(
				"ne(len(extract:0($KVGet(?s, ~and(?k, "+key(`"nextSequenceSend//{s}"`, "$C")+")))), 0)",
				"$KVSet(?s, ?k, call:sdk.Uint64ToBigEndian(binop:+("+load8("?k")+", 1)))",
				"$KVSet(?s, "+key(kCommit, "$P", "$C", load8("?k"))+", call:crypto/sha256.Sum256(~and(~in(param#6), ~in(param#5), ~in(param#4))))",
			)},
			Req{Name: "guards", Any: all(
				"eq(field:State("+ch+"), $chanT.OPEN)",
				"eq($LCM.Status(_, _, field:ClientId("+conn+")), core/exported.Active)",
				"F(call:$clientT.Height.IsZero(?lh))",
				"F(call:$chanT.Timeout.Elapsed(~and(~wf(Height, param#4), ~wf(Timestamp, param#5)), ?lh, _))",
			)},
			// ... against exactly the client's latest height and the consensus timestamp at that height
			Req{Name: "timeout-compared-with-latest-consensus-state", Any: all(
				"F(call:$chanT.Timeout.Elapsed(_, ~and(?lh, call:$clientK.GetClientLatestHeight(_, _, field:ClientId("+conn+"))), extract:0($LCM.TimestampAtHeight(_, _, field:ClientId("+conn+"), ?lh))))",
			)},
		)
		c.CheckRets(which, "C08/send-v1/returns-allocated-sequence", rr, func(r *interp.Ret) bool {
			return NilErr(e)(r)
		}, 1, m, Req{Name: "result-is-loaded-counter", Any: all("ne(len(extract:0($KVGet(?s, " + key(`"nextSequenceSend//{s}"`, "$C") + "))), 0)")})
		// the returned sequence term is the loaded counter
		for _, r := range rr.Rets {
			if !NilErr(e)(r) {
				continue
			}
			p := c.pats(which, m, load8(key(`"nextSequenceSend//{s}"`, "$C")))[0]
			if e.T.Match(p, r.Results[0], term.Env{}, func(term.Env) bool { return true }) {
				c.ok("C08/send-v1/result", "core/04-channel/keeper.Keeper.SendPacket", "", "returned sequence is the value loaded from nextSequenceSend")
			} else {
				c.bad("C08/send-v1/result", "core/04-channel/keeper.Keeper.SendPacket", "", "returned sequence is "+clip(e.T.String(r.Results[0]), 200)+", not the loaded nextSequenceSend")
			}
			break
		}
		c.CheckRets(which, "C08/send-v1/rejected", rr, func(r *interp.Ret) bool { return !NilErr(e)(r) }, 1, m,
			Req{Name: "no-store-write", None: []string{"$KVSet", "$KVDel"}})
	}
	// v2: keeper sendPacket(ctx, sourceClient, timeoutTimestamp, payloads)
	if rr := c.Run(which, "core/04-channel/v2/keeper.Keeper.sendPacket"); rr != nil {
		m := Macros{"C": "param#2", "TS": "param#3"}
		c.CheckRets(which, "C08/send-v2/success", rr, NilErr(e), 1, m,
			Req{Name: "counter-incremented-and-commitment-written", Any: all(
				"ne(len(extract:0($KVGet(?s, ~and(?k, "+key(`"nextSequenceSend//{s}"`, "$C")+")))), 0)",
				"$KVSet(?s, ?k, call:sdk.Uint64ToBigEndian(binop:+("+load8("?k")+", 1)))",
				"$KVSet(?s, "+key(kV2Commit, "$C", load8("?k"))+", call:$chanT2.CommitPacket(~and(~wf(Sequence, "+load8("?k")+"), ~wf(SourceClient, $C), ~wf(TimeoutTimestamp, $TS))))",
			)},
			Req{Name: "guards", Any: all(
				"T(call:time.Time.After(call:time.Unix(conv:int64($TS), 0), call:sdk.Context.BlockTime(param#1)))",
				"F(call:time.Time.After(call:time.Unix(conv:int64($TS), 0), call:time.Time.Add(call:sdk.Context.BlockTime(param#1), $chanT2.MaxTimeoutDelta)))",
				"eq($LCM.Status(_, _, _), core/exported.Active)",
				"F(call:$clientT.Height.IsZero(_))",
				"lt(conv:uint64(call:time.Time.Unix(call:time.Unix(0, conv:int64(_)))), $TS)",
			)},
		)
		c.CheckRets(which, "C08/send-v2/rejected", rr, func(r *interp.Ret) bool { return !NilErr(e)(r) }, 1, m,
			Req{Name: "no-store-write", None: []string{"$KVSet", "$KVDel"}})
	}
	// one key family for the counter: both keepers write layout nextSequenceSend//{s}
	c.WriterTable(which, "C08/writers", []FamilyRule{
		{Family: "nextSequenceSend//", Ops: "set", Allowed: []string{"core/04-channel/keeper.Keeper.SetNextSequenceSend", "core/04-channel/v2/keeper.Keeper.SetNextSequenceSend"}, Min: 2},
		{Family: "nextSequenceSend//", Ops: "delete", Min: 0},
		// the legacy v1 key (nextSequenceSend/ports/..) is removed only by the v11 store migration
		{Family: "nextSequenceSend/ports/", Ops: "delete", Allowed: []string{"core/04-channel/migrations/v11.MigrateStore"}, Min: 0},
		{Family: "nextSequenceSend/ports/", Ops: "set", Min: 0},
	})
	c.CallerTable(which, "C08/callers", []CallerRule{
		{Callee: "core/04-channel/keeper.Keeper.SetNextSequenceSend", Allowed: []string{"core/04-channel/keeper.Keeper.SendPacket", "core/04-channel.InitGenesis",
			"core/04-channel/keeper.Keeper.WriteOpenInitChannel", "core/04-channel/keeper.Keeper.WriteOpenTryChannel"}, Min: 3},
		{Callee: "core/04-channel/v2/keeper.Keeper.SetNextSequenceSend", Allowed: []string{"core/04-channel/v2/keeper.Keeper.sendPacket", "core/04-channel/v2.InitGenesis",
			"core/keeper.Keeper.RegisterCounterparty", "core/04-channel/migrations/v11.MigrateStore"}, Min: 3},
	})
	// counterparty registration initialises the counter to 1 and only once
	if rr := c.Run(which, "core/keeper.Keeper.RegisterCounterparty"); rr != nil {
		c.Check(which, "C08/v2-initial-one", c.Calls(rr, "$chanK2.SetNextSequenceSend"), 1, nil, nil,
			Req{Name: "constant-one-for-a-client-without-counterparty", Args: map[int]string{2: "field:ClientId(param#2)", 3: "1"},
				Any: all("F(extract:1(call:core/02-client/v2/keeper.Keeper.GetClientCounterparty(_, _, field:ClientId(param#2))))")})
	}
}

// ---------------------------------------------------------------- C09

func runC09(c *Ctx) {
	const which = "main"
	e := c.Engine(which)
	if e == nil {
		return
	}
	rr := c.Run(which, entryRecv1)
	if rr == nil {
		return
	}
	c.Check(which, "C09/callback", c.Calls(rr, seamRecvV1), 1, pktMacros, nil,
		Req{Name: "runs-on-fresh-cache-of-entry-ctx", Args: map[int]string{1: "extract:0(~and(?cc2, $CC($ECTX)))"},
			// the TAO did not run on this cache, and this cache is created after the TAO commit
			None: []string{"call:$chanK.RecvPacket(_, extract:0(?cc2), ...)"},
			Any:  all("call:dyn(extract:1(~and(?cc1, $CC($ECTX))))", "ok(call:$chanK.RecvPacket(_, extract:0(?cc1), ...))")},
	)
	ack := "call:" + seamRecvV1
	commits := c.ArgMatches(which, c.Calls(rr, "dyn"), 0, pktMacros, "extract:1($CC(_))")
	var appCommits []*interp.Event
	pApp := c.pats(which, pktMacros, ack+"(_, extract:0(?cc), ...)")[0]
	for _, ev := range commits {
		env := commitEnv(e)(ev)
		if e.T.Any(pApp, ev.Atoms, env) {
			appCommits = append(appCommits, ev)
		}
	}
	c.Check(which, "C09/app-commit", appCommits, 1, pktMacros, commitEnv(e),
		Req{Name: "only-for-nil-or-successful-ack", Any: [][]string{
			{"eq(~and(?a, " + ack + "(_, extract:0(?cc), ...)), nil)"},
			{"T(call:iface:core/exported.Acknowledgement.Success(~and(?a, " + ack + "(_, extract:0(?cc), ...))))"},
		}})
	c.Check(which, "C09/write-ack", c.Calls(rr, "$chanK.WriteAcknowledgement"), 1, pktMacros, nil,
		Req{Name: "on-entry-ctx-for-non-nil-ack", Args: map[int]string{1: "$ECTX", 2: "$PKT", 3: "~and(?a, " + ack + ")"}, Any: all("ne(?a, nil)")})
	c.CheckRets(which, "C09/success-return", rr, func(r *interp.Ret) bool {
		return NilErr(e)(r) && !c.HasAtom(which, pktMacros, "T(call:errors.Is(_, gv:$chanT.ErrNoOpMsg))")(r)
	}, 1, pktMacros,
		Req{Name: "non-nil-ack-was-written", Any: [][]string{
			{"eq(" + ack + ", nil)"},
			{"ok(call:$chanK.WriteAcknowledgement(_, $ECTX, $PKT, " + ack + "))"},
		}},
	)
	// error acknowledgement: the application cache's write function was not called
	pFail := c.pats(which, pktMacros, "F(call:iface:core/exported.Acknowledgement.Success("+ack+"(_, extract:0(?cc), ...)))")[0]
	pCommit := c.pats(which, pktMacros, "call:dyn(extract:1(?cc))")[0]
	nFail := 0
	for _, r := range rr.Rets {
		var env term.Env
		for _, at := range r.Atoms {
			if e.T.Match(pFail, at, term.Env{}, func(en term.Env) bool { env = en; return true }) {
				break
			}
		}
		if env == nil {
			continue
		}
		nFail++
		if e.T.Any(pCommit, r.Atoms, env) {
			c.bad("C09/error-ack-discards-app-state", entryRecv1, "", "a path class with an unsuccessful acknowledgement commits the application's cache context")
		} else {
			c.ok("C09/error-ack-discards-app-state", entryRecv1, "", "unsuccessful acknowledgement: application cache not committed")
		}
	}
	if nFail == 0 {
		c.bad("C09/error-ack-discards-app-state", entryRecv1, "", "no returning path class with an unsuccessful acknowledgement was found (rule would pass vacuously)")
	}
	// IBC v2: same outcome rule on the shared cache (failure discards, success and async persist)
	c.v2RecvCommitRule(which, "C09/v2")
	if rr2 := c.Run(which, entryRecv2); rr2 != nil {
		c.Check(which, "C09/v2/write-ack", c.Calls(rr2, "$chanK2.writeAcknowledgement"), 1, pktMacros, nil,
			Req{Name: "on-entry-ctx", Args: map[int]string{1: "$ECTX", 2: "$PKT"}})
		c.Check(which, "C09/v2/async-store", c.Calls(rr2, "$chanK2.SetAsyncPacket"), 1, pktMacros, nil,
			Req{Name: "on-entry-ctx", Args: map[int]string{1: "$ECTX", 2: "$DCL", 3: "$SEQ"}})
	}
}

// ---------------------------------------------------------------- C11

func runC11(c *Ctx) {
	const which = "main"
	e := c.Engine(which)
	if e == nil {
		return
	}
	if rr := c.Run(which, "core/04-channel/keeper.Keeper.WriteAcknowledgement"); rr != nil {
		sets := c.ArgMatches(which, c.Calls(rr, "iface:corestore.KVStore.Set"), 1, nil, "~key("+kAck+", ...)")
		c.Check(which, "C11/v1/set-ack", sets, 1, nil, nil,
			Req{Name: "guarded-by-absent-on-same-key", Args: map[int]string{0: "?s", 1: "?k"}, Any: all("F(extract:0($KVHas(?s, ?k)))")},
			Req{Name: "channel-open", Any: all("eq(field:State(extract:0(call:$chanK.GetChannel)), $chanT.OPEN)")},
		)
	}
	if rr := c.Run(which, "core/04-channel/v2/keeper.Keeper.writeAcknowledgement"); rr != nil {
		sets := c.ArgMatches(which, c.Calls(rr, "iface:corestore.KVStore.Set"), 1, nil, "~key("+kV2Ack+", ...)")
		c.Check(which, "C11/v2/set-ack", sets, 1, nil, nil,
			Req{Name: "guarded-by-absent-ack-and-present-receipt", Args: map[int]string{0: "?s", 1: "~and(?k, ~key(" + kV2Ack + ", ?id, ?seq))"}, Any: all(
				"~or(F(extract:0($KVHas(?s, ?k))), le(len(extract:0($KVGet(?s, ?k))), 0), eq(len(extract:0($KVGet(?s, ?k))), 0))",
				"ne(len(extract:0($KVGet(?s, ~key("+kV2Receipt+", ?id, ?seq)))), 0)",
			)},
			Req{Name: "ack-validated", Any: all("ok(call:$chanT2.Acknowledgement.Validate(param#3))")},
		)
	}
	if rr := c.Run(which, "core/04-channel/v2/keeper.Keeper.WriteAcknowledgement"); rr != nil {
		c.CheckRets(which, "C11/v2/async", rr, NilErr(e), 1, nil,
			Req{Name: "requires-stored-async-packet-and-deletes-it", Any: all(
				"ne(len(extract:0($KVGet(?s, ~and(?k, ~key(\"{s}async_packet{8}\", param#2, param#3))))), 0)",
				"$KVDel(?s, ?k)",
				"ok(call:$chanK2.writeAcknowledgement)",
			)})
	}
	c.WriterTable(which, "C11/writers", []FamilyRule{
		{Family: "acks/ports/", Ops: "set", Allowed: []string{"core/04-channel/keeper.Keeper.SetPacketAcknowledgement"}, Min: 1},
		{Family: "acks/ports/", Ops: "delete", Min: 0},
		{Family: "{s}\x03{8}", Ops: "set", Allowed: []string{"core/04-channel/v2/keeper.Keeper.SetPacketAcknowledgement"}, Min: 1},
		{Family: "{s}\x03{8}", Ops: "delete", Min: 0},
		{Family: "{s}async_packet{8}", Ops: "set", Allowed: []string{"core/04-channel/v2/keeper.Keeper.SetAsyncPacket"}, Min: 1},
		{Family: "{s}async_packet{8}", Ops: "delete", Allowed: []string{"core/04-channel/v2/keeper.Keeper.DeleteAsyncPacket"}, Min: 1},
	})
	c.CallerTable(which, "C11/callers", []CallerRule{
		{Callee: "core/04-channel/keeper.Keeper.SetPacketAcknowledgement", Allowed: []string{"core/04-channel/keeper.Keeper.WriteAcknowledgement", "core/04-channel.InitGenesis"}, Min: 2},
		{Callee: "core/04-channel/v2/keeper.Keeper.SetPacketAcknowledgement", Allowed: []string{"core/04-channel/v2/keeper.Keeper.writeAcknowledgement", "core/04-channel/v2.InitGenesis"}, Min: 2},
		{Callee: "core/04-channel/v2/keeper.Keeper.SetAsyncPacket", Allowed: []string{"core/04-channel/v2/keeper.Keeper.RecvPacket", "core/04-channel/v2.InitGenesis"}, Min: 2},
		{Callee: "core/04-channel/v2/keeper.Keeper.DeleteAsyncPacket", Allowed: []string{"core/04-channel/v2/keeper.Keeper.WriteAcknowledgement"}, Min: 1},
	})
	// the v2 recv handler stores the async packet only on the async path
	if rr := c.Run(which, entryRecv2); rr != nil {
		c.Check(which, "C11/v2/async-store", c.Calls(rr, "$chanK2.SetAsyncPacket"), 1, pktMacros, nil,
			Req{Name: "keyed-by-this-packet", Args: map[int]string{2: "$DCL", 3: "$SEQ", 4: "$PKT"}},
			Req{Name: "no-sync-ack-on-that-path", None: []string{"call:$chanK2.writeAcknowledgement"}},
		)
	}
}

// ---------------------------------------------------------------- C14

func runC14(c *Ctx) {
	const which = "main"
	e := c.Engine(which)
	if e == nil {
		return
	}
	for _, x := range []struct{ entry, name string }{{entryTimeout1, "timeout"}, {entryTimeoutC1, "timeout-on-close"}} {
		rr := c.Run(which, x.entry)
		if rr == nil {
			continue
		}
		c.Check(which, "C14/"+x.name, c.Calls(rr, seamTimeout1), 1, pktMacros, nil,
			Req{Name: "ordered-closes-source-channel", Any: [][]string{
				{"eq(field:Ordering(" + chSrc + "), $chanT.UNORDERED)"},
				{"ne(field:Ordering(" + chSrc + "), $chanT.ORDERED)"},
				{"eq(field:Ordering(" + chSrc + "), $chanT.ORDERED)",
					"call:$chanK.SetChannel(_, extract:0(?cc), $SP, $SC, ~and(~wf(State, $chanT.CLOSED), ~in(" + chSrc + ")))",
					"call:dyn(extract:1(?cc))"},
			}})
	}
	// OPEN guards of the packet flow entry points (own channel end)
	if rr := c.Run(which, "core/04-channel/keeper.Keeper.SendPacket"); rr != nil {
		c.CheckRets(which, "C14/send", rr, NilErr(e), 1, nil, Req{Name: "channel-open", Any: all("eq(field:State(extract:0(call:$chanK.GetChannel(_, _, param#2, param#3))), $chanT.OPEN)")})
	}
	if rr := c.Run(which, entryRecv1); rr != nil {
		c.Check(which, "C14/recv", c.Calls(rr, seamRecvV1), 1, pktMacros, nil, Req{Name: "channel-open", Any: all("eq(field:State(" + chDst + "), $chanT.OPEN)")})
	}
	if rr := c.Run(which, entryAck1); rr != nil {
		c.Check(which, "C14/ack", c.Calls(rr, seamAck1), 1, pktMacros, nil, Req{Name: "channel-open", Any: all("eq(field:State(" + chSrc + "), $chanT.OPEN)")})
	}
	if rr := c.Run(which, "core/04-channel/keeper.Keeper.WriteAcknowledgement"); rr != nil {
		c.CheckRets(which, "C14/write-ack", rr, NilErr(e), 1, nil, Req{Name: "channel-open", Any: all("eq(field:State(extract:0(call:$chanK.GetChannel)), $chanT.OPEN)")})
	}
	// the only writers of State=CLOSED reach SetChannel from the listed functions
	c.CallerTable(which, "C14/callers", []CallerRule{
		{Callee: "core/04-channel/keeper.Keeper.timeoutExecuted", Allowed: []string{"core/04-channel/keeper.Keeper.TimeoutPacket", "core/04-channel/keeper.Keeper.TimeoutOnClose"}, Min: 2},
	})
}
