package rules

import (
	"ibcverif/interp"
	"ibcverif/term"
)

// Shared vocabulary for the core packet rules. Store facts are phrased on the
// KV operations and the byte layout of their keys (ICS-24), not on the names
// of keeper helpers.
var pktMacros = Macros{
	"PKT":  "field:Packet(param#2)", // msg server handlers: msg is param#2
	"MSG":  "param#2",
	"ECTX": "$UNWRAP(param#1)", // the entry context
	"DP":   "field:DestinationPort($PKT)",
	"DC":   "field:DestinationChannel($PKT)",
	"SP":   "field:SourcePort($PKT)",
	"SC":   "field:SourceChannel($PKT)",
	"SEQ":  "field:Sequence($PKT)",
	"DCL":  "field:DestinationClient($PKT)",
	"SCL":  "field:SourceClient($PKT)",
}

// key layout templates
const (
	kReceipt   = `"receipts/ports/{s}/channels/{s}/sequences/{d}"`
	kCommit    = `"commitments/ports/{s}/channels/{s}/sequences/{d}"`
	kAck       = `"acks/ports/{s}/channels/{s}/sequences/{d}"`
	kNextRecv  = `"nextSequenceRecv/ports/{s}/channels/{s}"`
	kNextSend  = `"nextSequenceSend/ports/{s}/channels/{s}"`
	kNextAck   = `"nextSequenceAck/ports/{s}/channels/{s}"`
	kChannel   = `"channelEnds/ports/{s}/channels/{s}"`
	kV2Commit  = "\"{s}\x01{8}\""
	kV2Receipt = "\"{s}\x02{8}\""
	kV2Ack     = "\"{s}\x03{8}\""
)

func key(tmpl string, args ...string) string {
	s := "~key(" + tmpl
	for _, a := range args {
		s += ", " + a
	}
	return s + ")"
}

// load8 is the uint64 read from the store under key k (variable ?s is the store).
func load8(k string) string {
	return "call:sdk.BigEndianToUint64(extract:0($KVGet(?s, " + k + ")))"
}

const (
	seamRecvV1 = "iface:core/05-port/types.IBCModule.OnRecvPacket"
	seamRecvV2 = "iface:core/api.IBCModule.OnRecvPacket"
	entryRecv1 = "core/keeper.Keeper.RecvPacket"
	entryRecv2 = "core/04-channel/v2/keeper.Keeper.RecvPacket"
)

func init() {
	Register(&Prop{
		ID: "C01", Title: "Exactly-once packet delivery under any relay history",
		Technique: "abstract interpretation of the recv entry points over go/ssa (inlined callees, bounded path classes): guard-before-callback, check-then-set on the receipt/counter key, commit-only-on-success, writer table of receipt families",
		LevelText: "Decides, on every path class of the v1 and v2 RecvPacket handlers, that the application callback is reached only after a successful check-then-set on the receipt (UNORDERED / v2) or the next-receive counter (ORDERED) keyed by this packet's destination identifiers and sequence, that the TAO cache is committed only on success, that the ErrNoOpMsg edge reaches neither the application nor a commit nor any store write, and that receipts are written/deleted nowhere else. Does not decide interleavings across chains or the store's own semantics.",
		Note:      "go/types + go/ssa; KVStore Get/Set/Has semantics; application callbacks opaque",
		Design:    "§5 C01",
		Run:       runC01,
	})
}

// commitEnv binds ?cc to the CacheContext call whose write function is invoked.
func commitEnv(e *interp.Engine) func(ev *interp.Event) term.Env {
	return func(ev *interp.Event) term.Env {
		env := term.Env{}
		if len(ev.Args) > 0 && len(e.T.Args(ev.Args[0])) > 0 {
			env["cc"] = e.T.Args(ev.Args[0])[0]
		}
		return env
	}
}

func runC01(c *Ctx) {
	const which = "main"
	e := c.Engine(which)
	if e == nil {
		return
	}
	rcptKey := key(kReceipt, "$DP", "$DC", "$SEQ")
	nextKey := key(kNextRecv, "$DP", "$DC")
	// ---- v1
	rr := c.Run(which, entryRecv1)
	if rr != nil {
		sinks := c.Calls(rr, seamRecvV1)
		c.Check(which, "C01/recv-v1/callback", sinks, 1, pktMacros, nil,
			Req{Name: "fresh-receipt-or-next-seq", Any: [][]string{
				{ // UNORDERED: receipt absent, then set, same key = this packet's destination + sequence
					"eq(field:Ordering(?ch), $chanT.UNORDERED)",
					"eq(len(extract:0($KVGet(?s, ~and(?k, " + rcptKey + ")))), 0)",
					"$KVSet(?s, ?k, _)",
				},
				{ // ORDERED: sequence equals the stored counter, counter set to counter+1
					"eq(field:Ordering(?ch), $chanT.ORDERED)",
					"eq($SEQ, ~and(?n, " + load8("~and(?k, "+nextKey+")") + "))",
					"$KVSet(?s, ?k, call:sdk.Uint64ToBigEndian(binop:+(?n, 1)))",
				},
			}},
			Req{Name: "ordering-of-the-destination-channel", Any: all(
				"eq(field:Ordering(extract:0(call:$chanK.GetChannel(_, _, $DP, $DC))), _)",
			)},
			Req{Name: "tao-succeeded-and-committed", Any: all(
				"ok(call:$chanK.RecvPacket(_, extract:0(?cc), $PKT, ...))",
				"call:dyn(extract:1(?cc))",
			)},
		)
		// commits of cache contexts
		commits := c.ArgMatches(which, c.Calls(rr, "dyn"), 0, pktMacros, "extract:1($CC(_))")
		c.Check(which, "C01/recv-v1/commit", commits, 2, pktMacros, commitEnv(e),
			Req{Name: "only-after-tao-success-or-for-app-cache", Any: [][]string{
				// TAO commit: the keeper call that ran on this cache context returned nil
				{"ok(call:$chanK.RecvPacket(_, extract:0(?cc), ...))"},
				// application commit (see C09): the cache the callback ran on
				{"call:" + seamRecvV1 + "(_, extract:0(?cc), ...)"},
			}},
		)
		// ErrNoOpMsg edge: success response without callback, commit or any store write
		c.CheckRets(which, "C01/recv-v1/noop", rr, c.HasAtom(which, pktMacros, "T(call:errors.Is(_, gv:$chanT.ErrNoOpMsg))"), 1, pktMacros,
			Req{Name: "no-callback-no-commit-no-write", None: []string{
				"call:" + seamRecvV1, "call:dyn(extract:1($CC(_)))", "$KVSet", "$KVDel", "call:$chanK.WriteAcknowledgement",
			}},
		)
	}
	// ---- v2
	rr2 := c.Run(which, entryRecv2)
	if rr2 != nil {
		sinks := c.Calls(rr2, seamRecvV2)
		c.Check(which, "C01/recv-v2/callback", sinks, 1, pktMacros, nil,
			Req{Name: "fresh-receipt", Any: all(
				"F(extract:0($KVHas(?s, ~and(?k, "+key(kV2Receipt, "$DCL", "$SEQ")+"))))",
				"$KVSet(?s, ?k, _)",
			)},
			Req{Name: "tao-succeeded-and-committed", Any: all(
				"ok(call:$chanK2.recvPacket(_, extract:0(?cc), $PKT, ...))",
				"call:dyn(extract:1(?cc))",
			)},
		)
		commits := c.ArgMatches(which, c.Calls(rr2, "dyn"), 0, pktMacros, "extract:1($CC(_))")
		c.Check(which, "C01/recv-v2/commit", commits, 2, pktMacros, commitEnv(e),
			Req{Name: "only-after-tao-success", Any: all(
				"ok(call:$chanK2.recvPacket(_, extract:0(?cc), ...))",
			)},
		)
		c.CheckRets(which, "C01/recv-v2/noop", rr2, c.HasAtom(which, pktMacros, "T(call:errors.Is(_, gv:$chanT2.ErrNoOpMsg))"), 1, pktMacros,
			Req{Name: "no-callback-no-commit-no-write", None: []string{
				"call:" + seamRecvV2, "call:dyn(extract:1($CC(_)))", "$KVSet", "$KVDel", "call:$chanK2.writeAcknowledgement", "call:$chanK2.SetAsyncPacket",
			}},
		)
	}
	// ---- writer table of the receipt families (E4)
	c.WriterTable(which, "C01/writers", []FamilyRule{
		{Family: "receipts/ports/", Ops: "set", Allowed: []string{"core/04-channel/keeper.Keeper.SetPacketReceipt"}, Min: 1},
		{Family: "receipts/ports/", Ops: "delete", Allowed: nil, Min: 0},
		{Family: "{s}\x02{8}", Ops: "set", Allowed: []string{"core/04-channel/v2/keeper.Keeper.SetPacketReceipt"}, Min: 1},
		{Family: "{s}\x02{8}", Ops: "delete", Allowed: nil, Min: 0},
		{Family: "nextSequenceRecv/ports/", Ops: "set", Allowed: []string{"core/04-channel/keeper.Keeper.SetNextSequenceRecv"}, Min: 1},
		{Family: "nextSequenceRecv/ports/", Ops: "delete", Allowed: nil, Min: 0},
		// positive control: the same query must find the known commitment deletes
		{Family: "commitments/ports/", Ops: "delete", Allowed: []string{"core/04-channel/keeper.Keeper.deletePacketCommitment"}, Min: 1},
	})
	c.CallerTable(which, "C01/callers", []CallerRule{
		{Callee: "core/04-channel/keeper.Keeper.SetPacketReceipt", Allowed: []string{
			"core/04-channel/keeper.Keeper.applyReplayProtection", "core/04-channel.InitGenesis"}, Min: 2},
		{Callee: "core/04-channel/v2/keeper.Keeper.SetPacketReceipt", Allowed: []string{
			"core/04-channel/v2/keeper.Keeper.recvPacket", "core/04-channel/v2.InitGenesis"}, Min: 2},
		{Callee: "core/04-channel/keeper.Keeper.SetNextSequenceRecv", Allowed: []string{
			"core/04-channel/keeper.Keeper.applyReplayProtection", "core/04-channel.InitGenesis",
			"core/04-channel/keeper.Keeper.WriteOpenInitChannel", "core/04-channel/keeper.Keeper.WriteOpenTryChannel"}, Min: 3},
	})
}
