package rules

import (
	"fmt"

	"ibcverif/interp"
	"ibcverif/term"
)

const icaCtrl = "apps/27-interchain-accounts/controller/keeper.Keeper"

func init() {
	Register(&Prop{ID: "C38", Title: "Interchain-account channels: one active channel, owner-only sends",
		Technique: "abstract interpretation (go/ssa): guard chains on the success returns of the controller and host handshake callbacks (active-channel lookup under (connection, port), CLOSED/ordering/metadata conditions for reopening, port prefix and counterparty port), argument binding of the active-channel and account-address writes, who-may-call table for those writes, refusing callbacks have no success return, owner-derived port on send",
		LevelText: "Decides that the controller's OnChanOpenInit succeeds only for a port with the controller prefix and the host port as counterparty, and — when an active channel is recorded for (first connection hop, port) — only if that channel is CLOSED, has the same ordering and its stored version has equal metadata; that OnChanOpenAck succeeds only if no OPEN active channel exists for (metadata's controller connection, port) and then records this channel as active and the metadata's non-blank account address under that same pair; that the host's OnChanOpenTry succeeds only on the host port, only if a recorded active channel for (first hop, counterparty port) is CLOSED, and reuses the address recorded for (connection, counterparty port) when there is one (requiring it to be an interchain account) instead of creating another; that the host refuses OnChanOpenInit/OnChanOpenAck and the controller refuses OnChanOpenTry/OnChanOpenConfirm unconditionally; that the active-channel mapping is written only by these callbacks, genesis and migrations; and that SendTx sends on the OPEN active channel of (message connection, port derived from the message owner — who is the signer, C49). Does not decide the cross-chain interleaving argument (at most one of two racing handshakes completes), which rests on C12.",
		Note:      "go/types + go/ssa", Design: "§5 C38", Run: runC38})
}

func runC38(c *Ctx) {
	const which = "main"
	e := c.Engine(which)
	if e == nil {
		return
	}
	// keep "active channel recorded / not recorded" and "account recorded / not recorded" path classes apart
	e.Focus = []string{"GetActiveChannelID", "GetInterchainAccountAddress", "GetOpenActiveChannel"}
	e.K = 48 // the metadata validation in front of the interesting branches multiplies path classes
	e.PureFn = func(k string) bool { return k == icaT+".IsPreviousMetadataEqual" }
	e.NoInline = func(k string) bool { return k == icaT+".IsPreviousMetadataEqual" || interp.DefaultNoInline(k) }
	any := func(src string, set term.Set) bool { return e.T.Any(c.pats(which, nil, src)[0], set, nil) }
	chanOf := func(keeper, port, ch string) string {
		return "extract:0(call:core/04-channel/keeper.Keeper.GetChannel(field:channelKeeper(" + keeper + "), param#1, " + port + ", " + ch + "))"
	}
	// ---- controller OnChanOpenInit(k#0, ctx#1, order#2, hops#3, portID#4, channelID#5, counterparty#6, version#7)
	if rr := c.Run(which, icaCtrl+".OnChanOpenInit"); rr != nil {
		fk := icaCtrl + ".OnChanOpenInit"
		active := "call:" + icaCtrl + ".GetActiveChannelID(param#0, param#1, index(param#3, 0), param#4)"
		prev := chanOf("param#0", "param#4", "~or(extract:0("+active+`), conv:string(extract:0(call:iface:*KVStore.Get(_, ~key("activeChannel/{s}/{s}", param#4, index(param#3, 0))))))`)
		n, nNew, nRe := 0, 0, 0
		for _, ev := range rr.Events {
			if ev.Kind != "return" || len(ev.Args) != 2 || e.T.String(ev.Args[1]) != "nil" {
				continue
			}
			n++
			pos := e.P.Pos(ev.Instr.Pos())
			cst := fk + "@" + c.retOrdinal(rr, ev)
			good := any(`T(call:strings.HasPrefix(param#4, "icacontroller-"))`, ev.Atoms) && any(`eq(field:PortId(param#6), "icahost")`, ev.Atoms)
			switch {
			case any("F(extract:1("+active+"))", ev.Atoms):
				nNew++
			case any("T(extract:1("+active+"))", ev.Atoms):
				nRe++
				good = good && any("eq(field:State("+prev+"), core/04-channel/types.CLOSED)", ev.Atoms) &&
					any("eq(field:Ordering("+prev+"), param#2)", ev.Atoms) &&
					any("T(call:"+icaT+".IsPreviousMetadataEqual(_, _))", ev.Atoms)
			default:
				good = false
			}
			if good {
				c.ok("C38/controller/init", cst, pos, "controller port, host counterparty; new registration or reopening of a CLOSED channel with same ordering and metadata")
			} else {
				c.bad("C38/controller/init", cst, pos, "succeeds without the port/counterparty guards or, with a recorded active channel, without it being CLOSED with equal ordering and metadata")
			}
		}
		if n == 0 || nNew == 0 || nRe == 0 {
			c.bad("C38/controller/init", fk, "", fmt.Sprintf("expected success returns for a first registration and for a reopening, got %d/%d", nNew, nRe))
		}
	}
	// ---- controller OnChanOpenAck(k#0, ctx#1, portID#2, channelID#3, counterpartyVersion#4)
	if rr := c.Run(which, icaCtrl+".OnChanOpenAck"); rr != nil {
		md := "extract:0(call:" + icaT + ".MetadataFromVersion(param#4))"
		conn := "field:ControllerConnectionId(" + md + ")"
		c.CheckRets(which, "C38/controller/ack", rr, NilErr(e), 1, nil,
			Req{Name: "no-open-active-channel-then-recorded", Any: all(
				`T(call:strings.HasPrefix(param#2, "icacontroller-"))`, `ne(param#2, "icahost")`,
				"F(extract:1(call:"+icaCtrl+".GetOpenActiveChannel(param#0, param#1, "+conn+", param#2)))",
				"call:"+icaCtrl+".SetActiveChannelID(param#0, param#1, "+conn+", param#2, param#3)",
				"call:"+icaCtrl+".SetInterchainAccountAddress(param#0, param#1, "+conn+", param#2, field:Address("+md+"))",
				"ne(call:strings.TrimSpace(field:Address("+md+")), \"\")",
			)})
	}
	// ---- host OnChanOpenTry(k#0, ctx#1, order#2, hops#3, portID#4, channelID#5, counterparty#6, counterpartyVersion#7)
	if rr := c.Run(which, icaHost+".OnChanOpenTry"); rr != nil {
		fk := icaHost + ".OnChanOpenTry"
		active := "call:" + icaHost + ".GetActiveChannelID(param#0, param#1, index(param#3, 0), field:PortId(param#6))"
		prev := chanOf("param#0", "param#4", "~or(extract:0("+active+`), conv:string(extract:0(call:iface:*KVStore.Get(_, ~key("activeChannel/{s}/{s}", field:PortId(param#6), index(param#3, 0))))))`)
		acct := "call:" + icaHost + ".GetInterchainAccountAddress(param#0, param#1, _, field:PortId(param#6))"
		n, nReuse, nCreate := 0, 0, 0
		for _, ev := range rr.Events {
			if ev.Kind != "return" || len(ev.Args) != 2 || e.T.String(ev.Args[1]) != "nil" {
				continue
			}
			n++
			pos := e.P.Pos(ev.Instr.Pos())
			cst := fk + "@" + c.retOrdinal(rr, ev)
			good := any(`eq(param#4, "icahost")`, ev.Atoms)
			if any("T(extract:1("+active+"))", ev.Atoms) {
				good = good && any("eq(field:State("+prev+"), core/04-channel/types.CLOSED)", ev.Atoms)
			} else {
				good = good && any("F(extract:1("+active+"))", ev.Atoms)
			}
			switch {
			case any("T(extract:1("+acct+"))", ev.Atoms):
				nReuse++
				good = good && any("T(istype:*"+icaT+".InterchainAccount(_))", ev.Atoms) && !any("call:"+icaHost+".createInterchainAccount", ev.Atoms)
			case any("F(extract:1("+acct+"))", ev.Atoms):
				nCreate++
				good = good && any("ok(call:"+icaHost+".createInterchainAccount(param#0, param#1, _, field:PortId(param#6)))", ev.Atoms)
			default:
				good = false
			}
			if good {
				c.ok("C38/host/try", cst, pos, "host port; recorded active channel CLOSED; account reused or created for (connection, counterparty port)")
			} else {
				c.bad("C38/host/try", cst, pos, "succeeds without the host-port / CLOSED / account-reuse conditions")
			}
		}
		if n == 0 || nReuse == 0 || nCreate == 0 {
			c.bad("C38/host/try", fk, "", fmt.Sprintf("expected success returns for reuse and creation, got %d/%d", nReuse, nCreate))
		}
	}
	if rr := c.Run(which, icaHost+".OnChanOpenConfirm"); rr != nil {
		ch := chanOf("param#0", "param#2", "param#3")
		c.Check(which, "C38/host/confirm", c.Calls(rr, icaHost+".SetActiveChannelID"), 1, nil, nil,
			Req{Name: "records-this-channel-under-its-connection-and-counterparty-port", Args: map[int]string{2: "index(field:ConnectionHops(" + ch + "), 0)", 3: "field:PortId(field:Counterparty(" + ch + "))", 4: "param#3"}})
	}
	// ---- refusing callbacks
	for _, fk := range []string{
		"apps/27-interchain-accounts/host.IBCModule.OnChanOpenInit", "apps/27-interchain-accounts/host.IBCModule.OnChanOpenAck",
		"apps/27-interchain-accounts/controller.IBCMiddleware.OnChanOpenTry", "apps/27-interchain-accounts/controller.IBCMiddleware.OnChanOpenConfirm",
	} {
		rr := c.Run(which, fk)
		if rr == nil {
			continue
		}
		n, bad := 0, false
		for _, ev := range rr.Events {
			if ev.Kind != "return" || len(ev.Args) == 0 {
				continue
			}
			n++
			if !isErrorCtor(e, ev.Args[len(ev.Args)-1]) {
				bad = true
				c.bad("C38/refuses", fk, e.P.Pos(ev.Instr.Pos()), "may return without error: "+clip(e.T.String(ev.Args[len(ev.Args)-1]), 100))
			}
		}
		if n > 0 && !bad {
			c.ok("C38/refuses", fk, "", "every return yields a constructed error")
		} else if n == 0 {
			c.bad("C38/refuses", fk, "", "no return found")
		}
	}
	// ---- writers of the active-channel mapping
	c.CallerTable(which, "C38/active-channel-writers", []CallerRule{
		{Callee: icaCtrl + ".SetActiveChannelID", Allowed: []string{icaCtrl + ".OnChanOpenAck", "apps/27-interchain-accounts/controller/keeper.InitGenesis", icaCtrl + ".InitGenesis"}, Min: 1},
		{Callee: icaHost + ".SetActiveChannelID", Allowed: []string{icaHost + ".OnChanOpenConfirm", "apps/27-interchain-accounts/host/keeper.InitGenesis", icaHost + ".InitGenesis"}, Min: 1},
	})
	// ---- SendTx(s#0, goCtx#1, msg#2): port derived from the owner; sendTx uses the OPEN active channel of (connection, port)
	if rr := c.Run(which, "apps/27-interchain-accounts/controller/keeper.msgServer.SendTx"); rr != nil {
		c.Check(which, "C38/send/port", c.Calls(rr, icaCtrl+".sendTx"), 1, nil, nil,
			Req{Name: "owner-derived-port", Args: map[int]string{2: "field:ConnectionId(param#2)", 3: `~or(extract:0(call:` + icaT + `.NewControllerPortID(field:Owner(param#2))), concat("icacontroller-", field:Owner(param#2)), binop:+("icacontroller-", field:Owner(param#2)))`}})
	}
	if rr := c.Run(which, icaCtrl+".sendTx"); rr != nil {
		act := "call:" + icaCtrl + ".GetOpenActiveChannel(param#0, param#1, param#2, param#3)"
		c.Check(which, "C38/send/channel", c.Calls(rr, "iface:core/05-port/types.ICS4Wrapper.SendPacket"), 1, nil, nil,
			Req{Name: "on-the-open-active-channel-of-connection-and-port", Args: map[int]string{2: "param#3",
				3: "~or(extract:0(" + act + `), conv:string(extract:0(call:iface:*KVStore.Get(_, ~key("activeChannel/{s}/{s}", param#3, param#2)))))`}, Any: all("T(extract:1(" + act + "))")})
	}
	if rr := c.Run(which, icaT+".NewControllerPortID"); rr != nil {
		n := 0
		for _, r := range rr.Rets {
			if NilErr(e)(r) && len(r.Results) == 2 {
				n++
				if !any(`~or(concat("icacontroller-", param#0), binop:+("icacontroller-", param#0))`, setOf(r.Results[0])) {
					c.bad("C38/send/port-derivation", icaT+".NewControllerPortID", "", "port id is "+clip(e.T.String(r.Results[0]), 100))
				}
			}
		}
		if n > 0 {
			c.ok("C38/send/port-derivation", icaT+".NewControllerPortID", "", "\"icacontroller-\" + owner")
		}
	}
}
