package rules

import (
	"go/ast"
	"go/importer"
	"go/parser"
	"go/token"
	"go/types"

	"golang.org/x/tools/go/ssa"
	"golang.org/x/tools/go/ssa/ssautil"
)

// buildExample type-checks and builds SSA for a tiny in-memory package: the positive (and negative) examples
// that expected-zero lints must flag (and must not flag) on every run, so that such a lint cannot pass vacuously.
func buildExample(src string) (map[string]*ssa.Function, error) {
	fset := token.NewFileSet()
	f, err := parser.ParseFile(fset, "selftest.go", src, 0)
	if err != nil {
		return nil, err
	}
	pkg := types.NewPackage("selftest", "selftest")
	sp, _, err := ssautil.BuildPackage(&types.Config{Importer: importer.ForCompiler(fset, "source", nil)}, fset, pkg, []*ast.File{f}, ssa.InstantiateGenerics)
	if err != nil {
		return nil, err
	}
	out := map[string]*ssa.Function{}
	for _, m := range sp.Members {
		if fn, ok := m.(*ssa.Function); ok {
			out[fn.Name()] = fn
		}
	}
	return out, nil
}

// lintSelfTest runs lint on each function of the example and compares "flagged or not" with want.
func (c *Ctx) lintSelfTest(rule, src string, want map[string]bool, lint func(fn *ssa.Function) int) {
	fns, err := buildExample(src)
	if err != nil {
		c.undecided(rule, "examples", "", "cannot build the built-in examples: "+err.Error())
		return
	}
	for name, flagged := range want {
		fn := fns[name]
		if fn == nil {
			c.undecided(rule, name, "", "example function missing")
			continue
		}
		got := lint(fn) > 0
		switch {
		case got == flagged && flagged:
			c.ok(rule, name, "", "positive example flagged")
		case got == flagged:
			c.ok(rule, name, "", "negative example not flagged")
		case flagged:
			c.bad(rule, name, "", "the lint no longer flags its positive example")
		default:
			c.bad(rule, name, "", "the lint flags its negative example")
		}
	}
}
