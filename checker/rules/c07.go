package rules

import (
	"fmt"
	"strings"

	"ibcverif/interp"
	"ibcverif/term"
)

func init() {
	Register(&Prop{ID: "C07", Title: "Packet and acknowledgement commitments bind every committed field",
		Technique: "byte-layout analysis of the commitment functions' symbolic return terms (go/ssa interpretation, no execution): pre-image = specification formula, every variable-length field enters only through its own SHA-256, fixed-width big-endian integers, loop accumulators fed only with fixed-length per-element hashes in slice order; determinism lint",
		LevelText: "Decides, for all inputs at once, that the v1/v2 packet and acknowledgement commitments are SHA-256 of a pre-image whose layout equals the specification's formula (v1: BE64 timeout timestamp ‖ BE64 revision number ‖ BE64 revision height ‖ H(data); v2: 0x02 ‖ H(dest client) ‖ H(BE64 timeout) ‖ H(concat_i H(H(src port)‖H(dst port)‖H(version)‖H(encoding)‖H(value))); v2 ack: 0x02 ‖ concat_i H(ack_i); v1 ack: H(bytes)), that every segment outside a hash is fixed-length, that every listed field occurs, that list elements are folded in ascending index order, and that the functions read no map, clock or environment. SHA-256 collision resistance is assumed.",
		Note:      "go/types + go/ssa; crypto/sha256", Design: "§5 C07", Run: runC07})
}

// hashInner returns the term hashed by a {H} layout (the single segment).
func hashInner(e *interp.Engine, t term.ID) (term.ID, bool) {
	segs := e.T.Layout(t)
	if len(segs) != 1 || segs[0].Kind != 'H' {
		return 0, false
	}
	return segs[0].T, true
}

// layoutVars returns the layout string and the variable segments' terms.
func layoutVars(e *interp.Engine, t term.ID) (string, []term.Seg) {
	segs := e.T.Layout(t)
	var vs []term.Seg
	for _, s := range segs {
		if s.Kind != 'L' {
			vs = append(vs, s)
		}
	}
	return e.T.LayoutString(segs), vs
}

func runC07(c *Ctx) { commitmentLayoutRules(c, "C07") }

// commitmentLayoutRules are shared with C06 (the proven acknowledgement is
// only "that exact list" if the commitment binds element boundaries).
func commitmentLayoutRules(c *Ctx, pfx string) {
	const which = "main"
	e := c.Engine(which)
	if e == nil {
		return
	}
	match := func(pat string, id term.ID) bool {
		p := c.pats(which, nil, pat)[0]
		return e.T.Match(p, id, term.Env{}, func(term.Env) bool { return true })
	}
	single := func(key string) (*interp.RunResult, term.ID, bool) {
		rr := c.Run(which, key)
		if rr == nil {
			return nil, 0, false
		}
		same := len(rr.Rets) >= 1 && len(rr.Rets[0].Results) == 1
		for _, r := range rr.Rets {
			if len(r.Results) != 1 || r.Results[0] != rr.Rets[0].Results[0] {
				same = false
			}
		}
		if !same {
			c.undecided(pfx+"/shape", key, "", fmt.Sprintf("expected all %d return classes to yield one and the same result term", len(rr.Rets)))
			return rr, 0, false
		}
		return rr, rr.Rets[0].Results[0], true
	}
	expectVars := func(rule, key string, vs []term.Seg, wantKinds string, pats []string) bool {
		if len(vs) != len(pats) {
			c.bad(rule, key, "", fmt.Sprintf("pre-image has %d variable segments, the specification has %d", len(vs), len(pats)))
			return false
		}
		ok := true
		for i, v := range vs {
			if v.Kind != wantKinds[i] {
				c.bad(rule, key, "", fmt.Sprintf("segment %d has encoding %q, specification wants %q", i, string(v.Kind), string(wantKinds[i])))
				ok = false
				continue
			}
			t := v.T
			if !match(pats[i], t) {
				c.bad(rule, key, "", fmt.Sprintf("segment %d encodes %s, specification wants %s", i, clip(e.T.String(t), 160), pats[i]))
				ok = false
			}
		}
		return ok
	}

	// ---- v1 CommitPacket
	k1 := "core/04-channel/types.CommitPacket"
	if _, res, ok := single(k1); ok {
		if inner, ok := hashInner(e, res); !ok {
			c.bad(pfx+"/v1-packet", k1, "", "result is not a single SHA-256: "+clip(e.T.String(res), 200))
		} else {
			ls, vs := layoutVars(e, inner)
			if ls != "{8}{8}{8}{H}" {
				c.bad(pfx+"/v1-packet", k1, "", fmt.Sprintf("pre-image layout is %q, specification is BE64 timestamp ‖ BE64 revision number ‖ BE64 revision height ‖ H(data)", ls))
			} else if expectVars(pfx+"/v1-packet", k1, vs, "888H", []string{
				"field:TimeoutTimestamp(param#0)",
				"~or(field:RevisionNumber(field:TimeoutHeight(param#0)), call:*GetRevisionNumber(field:TimeoutHeight(param#0)))",
				"~or(field:RevisionHeight(field:TimeoutHeight(param#0)), call:*GetRevisionHeight(field:TimeoutHeight(param#0)))",
				"field:Data(param#0)"}) {
				c.ok(pfx+"/v1-packet", k1, "", "sha256(BE64(timeoutTimestamp) ‖ BE64(revisionNumber) ‖ BE64(revisionHeight) ‖ sha256(data))")
			}
		}
	}
	// ---- v1 CommitAcknowledgement
	k1a := "core/04-channel/types.CommitAcknowledgement"
	if _, res, ok := single(k1a); ok {
		if inner, ok := hashInner(e, res); ok && match("param#0", inner) {
			c.ok(pfx+"/v1-ack", k1a, "", "sha256(acknowledgement bytes)")
		} else {
			c.bad(pfx+"/v1-ack", k1a, "", "result is not sha256 of exactly the acknowledgement bytes: "+clip(e.T.String(res), 200))
		}
	}
	// ---- v2 helpers: every append into an accumulator inside fn appends want-shaped blocks
	accumulatorFed := func(rule, key string, rr *interp.RunResult, acc term.ID, check func(block term.ID) string) {
		n := 0
		for _, ev := range rr.Events {
			if ev.Key != "builtin:append" || len(ev.Args) != 2 {
				continue
			}
			if ev.Args[0] != acc {
				continue
			}
			n++
			if d := check(ev.Args[1]); d != "" {
				c.bad(rule, key, e.P.Pos(ev.Instr.Pos()), d)
				return
			}
		}
		if n == 0 {
			c.bad(rule, key, "", "no append into the loop accumulator "+e.T.String(acc)+" was found")
			return
		}
		c.ok(rule, key, "", fmt.Sprintf("%d append site(s) feed the accumulator with fixed-length per-element hashes in index order", n))
	}
	isAcc := func(t term.ID) bool {
		op := e.T.Op(t)
		return strings.HasPrefix(op, "phi#") || strings.HasPrefix(op, "top#")
	}
	// ---- v2 CommitPacket
	k2 := "core/04-channel/v2/types.CommitPacket"
	if rr, res, ok := single(k2); ok {
		inner, ok := hashInner(e, res)
		if !ok {
			c.bad(pfx+"/v2-packet", k2, "", "result is not a single SHA-256: "+clip(e.T.String(res), 200))
		} else {
			ls, vs := layoutVars(e, inner)
			if ls != "\x02{H}{H}{H}" {
				c.bad(pfx+"/v2-packet", k2, "", fmt.Sprintf("pre-image layout is %q, specification is 0x02 ‖ H(destClient) ‖ H(BE64 timeout) ‖ H(payload hashes)", ls))
			} else {
				good := true
				if !match("field:DestinationClient(param#0)", layoutOnly(e, vs[0].T)) {
					c.bad(pfx+"/v2-packet", k2, "", "first hash is not over the destination client: "+clip(e.T.String(vs[0].T), 160))
					good = false
				}
				l1, v1 := layoutVars(e, vs[1].T)
				if l1 != "{8}" || !match("field:TimeoutTimestamp(param#0)", v1[0].T) {
					c.bad(pfx+"/v2-packet", k2, "", "second hash is not over the 8-byte big-endian timeout timestamp: "+clip(e.T.String(vs[1].T), 160))
					good = false
				}
				acc := layoutOnly(e, vs[2].T)
				if !isAcc(acc) {
					c.bad(pfx+"/v2-packet", k2, "", "third hash is not over a per-payload accumulator: "+clip(e.T.String(vs[2].T), 160))
					good = false
				} else {
					accumulatorFed(pfx+"/v2-packet/payloads", k2, rr, acc, func(block term.ID) string {
						bi, ok := hashInner(e, block)
						if !ok {
							return "a payload is appended without its own hash: " + clip(e.T.String(block), 160)
						}
						bl, bv := layoutVars(e, bi)
						if bl != "{H}{H}{H}{H}{H}" {
							return fmt.Sprintf("payload pre-image layout is %q, specification is H(srcPort)‖H(dstPort)‖H(version)‖H(encoding)‖H(value)", bl)
						}
						for i, f := range []string{"SourcePort", "DestinationPort", "Version", "Encoding", "Value"} {
							if !match("field:"+f+"(index(field:Payloads(param#0), binop:+(phi#*, 1)))", layoutOnly(e, bv[i].T)) {
								return fmt.Sprintf("payload hash %d is over %s, specification wants field %s of the payload at the ascending range index", i, clip(e.T.String(bv[i].T), 120), f)
							}
						}
						return ""
					})
				}
				if good {
					c.ok(pfx+"/v2-packet", k2, "", "sha256(0x02 ‖ sha256(destClient) ‖ sha256(BE64(timeout)) ‖ sha256(Σ payload hashes))")
				}
			}
		}
		c.determinism(pfx+"/determinism", k2, rr)
	}
	// ---- v2 CommitAcknowledgement
	k2a := "core/04-channel/v2/types.CommitAcknowledgement"
	if rr, res, ok := single(k2a); ok {
		inner, ok := hashInner(e, res)
		if !ok {
			c.bad(pfx+"/v2-ack", k2a, "", "result is not a single SHA-256: "+clip(e.T.String(res), 200))
		} else {
			ls, vs := layoutVars(e, inner)
			if ls != "\x02{s}" || !isAcc(vs[0].T) {
				c.bad(pfx+"/v2-ack", k2a, "", fmt.Sprintf("pre-image layout is %q (%s), specification is 0x02 ‖ concat_i sha256(ack_i)", ls, clip(e.T.String(inner), 160)))
			} else {
				accumulatorFed(pfx+"/v2-ack/elements", k2a, rr, vs[0].T, func(block term.ID) string {
					bi, ok := hashInner(e, block)
					if !ok {
						return "an app acknowledgement is appended without its own hash (element boundaries are not bound): " + clip(e.T.String(block), 160)
					}
					if !match("index(field:AppAcknowledgements(param#0), binop:+(phi#*, 1))", bi) {
						return "hashed element is " + clip(e.T.String(bi), 160) + ", specification wants the app acknowledgement at the ascending range index"
					}
					return ""
				})
				c.ok(pfx+"/v2-ack", k2a, "", "sha256(0x02 ‖ Σ sha256(ack_i))")
			}
		}
		c.determinism(pfx+"/determinism", k2a, rr)
	}
}

// layoutOnly strips conversions: the single variable segment of a term, or the term itself.
func layoutOnly(e *interp.Engine, t term.ID) term.ID {
	segs := e.T.Layout(t)
	if len(segs) == 1 && segs[0].Kind == 'S' {
		return segs[0].T
	}
	return t
}

// determinism: the interpreted function (with everything inlined) makes no
// call that reads a clock, randomness or the environment, and ranges over no map.
func (c *Ctx) determinism(rule, key string, rr *interp.RunResult) {
	for _, ev := range rr.Events {
		k := ev.Key
		if strings.HasPrefix(k, "time.Now") || strings.HasPrefix(k, "math/rand") || strings.HasPrefix(k, "os.") || k == "go" {
			c.bad(rule, key, c.Engine("main").P.Pos(ev.Instr.Pos()), "nondeterministic call "+k)
			return
		}
	}
	for _, r := range rr.Rets {
		for _, at := range r.Atoms {
			if strings.Contains(c.Engine("main").T.Op(at), "range") {
				c.bad(rule, key, "", "ranges over a map")
				return
			}
		}
	}
	c.ok(rule, key, "", "no clock, randomness, environment or map iteration")
}
