// Package rules holds the per-property rule sets and the obligation
// bookkeeping (fail-closed, counted, diagnosable).
package rules

import (
	"encoding/json"
	"fmt"
	"os"
	"path/filepath"
	"sort"
	"strings"
	"time"

	"golang.org/x/tools/go/ssa"

	"ibcverif/interp"
	"ibcverif/load"
	"ibcverif/term"
)

type Status string

const (
	Discharged Status = "discharged"
	Refuted    Status = "refuted"
	Undecided  Status = "undecided"
	Known      Status = "known-finding"
)

// Obligation is one instance of a rule on one construct of the code.
type Obligation struct {
	Rule      string `json:"rule"`      // e.g. C01/recv-v1/callback-guarded
	Construct string `json:"construct"` // function / call site role, never a line number
	Status    Status `json:"status"`
	Where     string `json:"where,omitempty"` // file:line for diagnosis only
	Detail    string `json:"detail,omitempty"`
}

type Prop struct {
	ID        string
	Title     string
	Technique string
	LevelText string
	Note      string
	Design    string
	Run       func(c *Ctx)
	Modules   []string // "main", "wasm"
	// Deps: properties this one rests on — a violation of any of their rules is also a violation of this
	// property (chosen so that the implication really holds). Their rules are re-run as part of this property's check.
	Deps []string
}

var Registry = map[string]*Prop{}

func Register(p *Prop) { Registry[p.ID] = p }

type Ctx struct {
	Prop     *Prop
	Tier     string
	Obls     []*Obligation
	progs    map[string]*load.Program
	engines  map[string]*interp.Engine
	runs     map[string]*interp.RunResult
	Stats    map[string]int
	Samples  []any
	Assume   []string
	Overlay  map[string][]byte // in-memory variant of source files (thorough audit)
	Variants []map[string]any  // outcome of the thorough tier's variant audit
	loadErr  error
	RepoDir  string
	Explain  []string
	// EvidenceDir: where Finish writes (default <verif>/evidence); set only when the checker itself is being
	// tested on a patched in-memory variant (check --patch), so the real evidence is not overwritten.
	EvidenceDir string
	// curMay: the may-effects of the return class / event whose requirement is being evaluated (forbidden
	// effects are looked up in the must-set and in this set)
	curMay term.Set
}

func NewCtx(p *Prop, tier string) *Ctx {
	return &Ctx{Prop: p, Tier: tier, progs: map[string]*load.Program{}, engines: map[string]*interp.Engine{},
		runs: map[string]*interp.RunResult{}, Stats: map[string]int{}, RepoDir: "/repo"}
}

// Prog loads (once) the main module or the 08-wasm module.
func (c *Ctx) Prog(which string) *load.Program {
	if p, ok := c.progs[which]; ok {
		return p
	}
	cfg := load.Config{Dir: c.RepoDir, Patterns: []string{"./modules/..."}, Overlay: c.Overlay}
	if which == "wasm" {
		cfg = load.Config{Dir: filepath.Join(c.RepoDir, "modules/light-clients/08-wasm"), Patterns: []string{"./..."}, Overlay: c.Overlay}
	}
	t0 := time.Now()
	p, err := load.Load(cfg)
	if err != nil {
		c.Add(&Obligation{Rule: c.Prop.ID + "/load", Construct: which, Status: Undecided, Detail: "cannot load/type-check: " + err.Error()})
		c.progs[which] = nil
		return nil
	}
	c.Stats["packages_"+which] = len(p.Pkgs)
	c.Stats["functions_"+which] = p.NumFuncs
	c.Stats["load_ms_"+which] = int(time.Since(t0).Milliseconds())
	c.progs[which] = p
	return p
}

func (c *Ctx) Engine(which string) *interp.Engine {
	if e, ok := c.engines[which]; ok {
		return e
	}
	p := c.Prog(which)
	if p == nil {
		return nil
	}
	e := interp.New(p)
	c.engines[which] = e
	return e
}

// Run interprets an entry function (by key) and caches the result.
func (c *Ctx) Run(which, key string) *interp.RunResult {
	ck := which + "|" + key
	if r, ok := c.runs[ck]; ok {
		return r
	}
	e := c.Engine(which)
	if e == nil {
		return nil
	}
	fn := e.P.Funcs[key]
	if fn == nil {
		c.Add(&Obligation{Rule: c.Prop.ID + "/role", Construct: key, Status: Undecided, Detail: "entry function not found (renamed or removed): " + key})
		c.runs[ck] = nil
		return nil
	}
	t0 := time.Now()
	m0 := e.Merges
	r := e.Run(fn)
	c.Stats["path_class_merges"] += e.Merges - m0
	if os.Getenv("VERIF_TIMING") != "" {
		fmt.Printf("TIMING run %s: %.2fs, %d events\n", key, time.Since(t0).Seconds(), len(r.Events))
	}
	c.runs[ck] = r
	c.Stats["entries_interpreted"]++
	c.Stats["events"] += len(r.Events)
	return r
}

func (c *Ctx) Add(o *Obligation) *Obligation {
	c.Obls = append(c.Obls, o)
	return o
}

func (c *Ctx) ok(rule, construct, where, detail string) {
	c.Add(&Obligation{Rule: rule, Construct: construct, Status: Discharged, Where: where, Detail: detail})
}

func (c *Ctx) bad(rule, construct, where, detail string) {
	for _, o := range c.Obls {
		if o.Rule == rule && o.Construct == construct && o.Status == Refuted {
			return // one report per (rule, construct)
		}
	}
	c.Add(&Obligation{Rule: rule, Construct: construct, Status: Refuted, Where: where, Detail: detail})
}

func (c *Ctx) undecided(rule, construct, where, detail string) {
	c.Add(&Obligation{Rule: rule, Construct: construct, Status: Undecided, Where: where, Detail: detail})
}

// ---------------------------------------------------------------- patterns

// Macros expand $NAME inside pattern sources.
type Macros map[string]string

func (m Macros) expand(s string) string {
	if len(m) == 0 {
		return s
	}
	keys := make([]string, 0, len(m))
	for k := range m {
		keys = append(keys, k)
	}
	sort.Slice(keys, func(i, j int) bool { return len(keys[i]) > len(keys[j]) })
	for i := 0; i < 4; i++ {
		old := s
		for _, k := range keys {
			s = strings.ReplaceAll(s, "$"+k, m[k])
		}
		if s == old {
			break
		}
	}
	return s
}

var baseMacros = Macros{
	"CC":      "call:sdk.Context.CacheContext",
	"UNWRAP":  "call:sdk.UnwrapSDKContext",
	"chanK":   "core/04-channel/keeper.Keeper",
	"chanK2":  "core/04-channel/v2/keeper.Keeper",
	"connK":   "core/03-connection/keeper.Keeper",
	"clientK": "core/02-client/keeper.Keeper",
	"chanT":   "core/04-channel/types",
	"chanT2":  "core/04-channel/v2/types",
	"connT":   "core/03-connection/types",
	"clientT": "core/02-client/types",
	"LCM":     "call:iface:core/exported.LightClientModule",
	"KVGet":   "call:iface:corestore.KVStore.Get",
	"KVSet":   "call:iface:corestore.KVStore.Set",
	"KVHas":   "call:iface:corestore.KVStore.Has",
	"KVDel":   "call:iface:corestore.KVStore.Delete",
}

func (c *Ctx) pats(which string, m Macros, srcs ...string) []*term.Pat {
	out := make([]*term.Pat, 0, len(srcs))
	for _, s := range srcs {
		full := m.expand(baseMacros.expand(m.expand(s)))
		p, err := term.ParsePat(full)
		if err != nil {
			panic(err)
		}
		c.checkNames(which, p, s)
		out = append(out, p)
	}
	return out
}

// checkNames makes a rule fail closed when it names an ibc-go function that no
// longer exists.
func (c *Ctx) checkNames(which string, p *term.Pat, src string) {
	if p.Kind == 'o' && strings.HasPrefix(p.Name, "call:") && !strings.ContainsAny(p.Name, "*?[") {
		k := strings.TrimPrefix(p.Name, "call:")
		if !strings.HasPrefix(k, "iface:") && (strings.HasPrefix(k, "core/") || strings.HasPrefix(k, "apps/") || strings.HasPrefix(k, "light-clients/")) {
			if pr := c.progs[which]; pr != nil && pr.Funcs[k] == nil {
				c.undecided(c.Prop.ID+"/role", k, "", "rule names a function that does not exist in the tree: "+k)
			}
		}
	}
	for _, a := range p.Args {
		c.checkNames(which, a, src)
	}
}

// ---------------------------------------------------------------- queries

// Calls returns the events whose callee key matches glob (after macro expansion).
func (c *Ctx) Calls(rr *interp.RunResult, glob string) []*interp.Event {
	if rr == nil {
		return nil
	}
	glob = baseMacros.expand(glob)
	var out []*interp.Event
	for _, ev := range rr.Events {
		if ev.Kind == "call" && globMatch(glob, ev.Key) {
			out = append(out, ev)
		}
	}
	return out
}

func globMatch(glob, s string) bool {
	if !strings.ContainsAny(glob, "*?[") {
		return glob == s
	}
	g := strings.ReplaceAll(glob, "/", "\x01")
	x := strings.ReplaceAll(s, "/", "\x01")
	ok, err := filepath.Match(g, x)
	return err == nil && ok
}

// Holds reports whether all patterns match atoms conjunctively with shared
// variables, starting from env. It returns the first missing pattern source.
func (c *Ctx) Holds(e *interp.Engine, atoms term.Set, env term.Env, ps []*term.Pat) (bool, string, term.Env) {
	if env == nil {
		env = term.Env{}
	}
	var got term.Env
	if e.T.MatchSet(ps, atoms, env, func(en term.Env) bool { got = en; return true }) {
		return true, "", got
	}
	// diagnose: find the longest satisfiable prefix
	for n := len(ps) - 1; n >= 0; n-- {
		if e.T.MatchSet(ps[:n], atoms, env, func(term.Env) bool { return true }) {
			return false, ps[n].Src, nil
		}
	}
	return false, ps[0].Src, nil
}

// RequireAt checks that every alternative reaching a call event carries the
// required atoms. Events for the same call site are grouped into one
// obligation per site.
func (c *Ctx) RequireAt(which, rule string, evs []*interp.Event, min int, m Macros, bind func(ev *interp.Event) term.Env, srcs ...string) {
	e := c.Engine(which)
	if e == nil {
		return
	}
	ps := c.pats(which, m, srcs...)
	type siteRes struct {
		ev   *interp.Event
		bad  string
		alts int
	}
	sites := map[string]*siteRes{}
	var order []string
	for _, ev := range evs {
		k := load.FuncKey(ev.Fn) + "→" + ev.Key + "#" + c.ordinal(ev)
		sr, ok := sites[k]
		if !ok {
			sr = &siteRes{ev: ev}
			sites[k] = sr
			order = append(order, k)
		}
		sr.alts++
		var env term.Env
		if bind != nil {
			env = bind(ev)
		}
		atoms := ev.Atoms
		okk, missing, _ := c.Holds(e, atoms, env, ps)
		if !okk && sr.bad == "" {
			sr.bad = missing
		}
	}
	if len(order) < min {
		c.bad(rule, "instances", "", fmt.Sprintf("expected at least %d call sites, found %d (rule would pass vacuously)", min, len(order)))
	}
	for _, k := range order {
		sr := sites[k]
		where := e.P.Pos(sr.ev.Instr.Pos())
		if sr.bad != "" {
			c.bad(rule, k, where, "on some path reaching this call the required fact is missing: "+sr.bad)
		} else {
			c.ok(rule, k, where, fmt.Sprintf("%d path classes, all carry: %s", sr.alts, strings.Join(srcs, " ∧ ")))
		}
	}
}

// ordinal distinguishes several call sites of the same callee in one function
// by their order of appearance (not by line).
func (c *Ctx) ordinal(ev *interp.Event) string {
	n := 0
	for _, b := range ev.Fn.Blocks {
		for _, ins := range b.Instrs {
			if ins == ev.Instr {
				return fmt.Sprint(n)
			}
			if ins.Pos().IsValid() && ev.Instr.Pos().IsValid() && ins.Pos() < ev.Instr.Pos() {
				if sameCallee(ins, ev) {
					n++
				}
			}
		}
	}
	return fmt.Sprint(n)
}

// ---------------------------------------------------------------- output

type knownFinding struct {
	Property  string `json:"property"`
	Rule      string `json:"rule"`
	Construct string `json:"construct"`
	What      string `json:"what"`
}

type knownFile struct {
	Findings []knownFinding `json:"findings"`
	Fixed    []string       `json:"fixed"`
}

// Finish applies known findings, writes evidence and replays, prints the
// verdict lines and returns the process exit code.
func (c *Ctx) Finish(verifDir string, started time.Time) int {
	var kf knownFile
	if b, err := os.ReadFile(filepath.Join(verifDir, "known_findings.json")); err == nil {
		json.Unmarshal(b, &kf)
	}
	id := c.Prop.ID
	viol := 0
	disc := 0
	evd := filepath.Join(verifDir, "evidence")
	if c.EvidenceDir != "" {
		evd = c.EvidenceDir
	}
	os.MkdirAll(filepath.Join(evd, "replays"), 0o755)
	old, _ := filepath.Glob(filepath.Join(evd, "replays", id+"-*.json"))
	for _, f := range old {
		os.Remove(f)
	}
	for _, o := range c.Obls {
		if o.Status == Refuted || o.Status == Undecided {
			matched := false
			if o.Status == Refuted {
				for _, k := range kf.Findings {
					if k.Property == id && k.Rule == o.Rule && k.Construct == o.Construct {
						matched = true
						fmt.Printf("KNOWN-FINDING: property=%s %s [%s @ %s]\n", id, k.What, o.Rule, o.Construct)
					}
				}
			}
			if matched {
				o.Status = Known
				continue
			}
			viol++
			rp := filepath.Join(evd, "replays", fmt.Sprintf("%s-%d.json", id, viol))
			b, _ := json.MarshalIndent(map[string]any{"property": id, "obligation": o, "explain": "static rule " + o.Rule + " " + string(o.Status) + " on construct " + o.Construct}, "", " ")
			os.WriteFile(rp, b, 0o644)
			fmt.Printf("%s: %s %s at %s: %s\n", strings.ToUpper(string(o.Status)), o.Rule, o.Construct, o.Where, o.Detail)
			fmt.Printf("VIOLATION property=%s replay=%s\n", id, rp)
		} else if o.Status == Discharged {
			disc++
		}
	}
	// evidence
	byRule := map[string]int{}
	distinct := map[string]bool{}
	for _, o := range c.Obls {
		byRule[o.Rule]++
		distinct[o.Rule+"|"+o.Construct] = true
	}
	samples := c.Samples
	for i, o := range c.Obls {
		if i%max(1, len(c.Obls)/12) == 0 && len(samples) < 24 {
			samples = append(samples, o)
		}
	}
	if len(samples) == 0 {
		samples = append(samples, "no obligations generated")
	}
	seed := 0
	fmt.Sscan(os.Getenv("VERIF_SEED"), &seed)
	cov := map[string]any{
		"explanation":         c.Prop.LevelText,
		"obligations":         len(c.Obls),
		"discharged":          disc,
		"evaluations":         len(c.Obls),
		"distinct_nontrivial": len(distinct),
		"rule":                "one obligation per (rule, construct): a construct is a call site / function / key family found in /repo's current source by role; it is non-trivial when the rule's pattern was evaluated on at least one path class reaching it",
		"samples":             samples,
		"obligations_by_rule": byRule,
		"analysed":            c.Stats,
		"checker_cmd":         "bin/ibcverif check " + id + " --tier " + c.Tier,
		"trusted_base":        []string{"go/types, go/ssa (x/tools v0.50.0)", "interface seams behave as their role says", "no reflection/unsafe on analysed paths"},
		"exhaustive":          false,
	}
	if len(c.Explain) > 0 {
		cov["notes"] = c.Explain
	}
	if c.Tier == "thorough" {
		det := 0
		for _, v := range c.Variants {
			if v["status"] == "detected" {
				det++
			}
		}
		cov["variant_audit"] = map[string]any{
			"what":     "stored seeded changes for this property applied to an in-memory overlay of the current sources and analysed with the same rules (the real tree is untouched and its verdict unaffected)",
			"variants": c.Variants, "generated": len(c.Variants), "detected": det,
		}
	}
	ev := map[string]any{
		"property_id": id, "tier": c.Tier, "seed": seed, "level": "other", "coverage": cov,
		"assumptions": append([]string{"static analysis only: decides structural necessary conditions, not behaviour over histories"}, c.Assume...),
		"wall_s":      time.Since(started).Seconds(), "violations": viol,
	}
	b, _ := json.MarshalIndent(ev, "", " ")
	os.WriteFile(filepath.Join(evd, id+".json"), b, 0o644)
	fmt.Printf("%s: %d obligations, %d discharged, %d violations, %.1fs\n", id, len(c.Obls), disc, viol, time.Since(started).Seconds())
	if viol > 0 {
		return 1
	}
	return 0
}

func calleeName(ins ssa.Instruction) string {
	ci, ok := ins.(ssa.CallInstruction)
	if !ok {
		return ""
	}
	c := ci.Common()
	if c.IsInvoke() {
		return c.Method.Name()
	}
	if f := c.StaticCallee(); f != nil {
		return f.Name()
	}
	return "dyn"
}

func sameCallee(ins ssa.Instruction, ev *interp.Event) bool {
	n := calleeName(ins)
	return n != "" && n == calleeName(ev.Instr)
}
