package rules

import (
	"strings"

	"ibcverif/interp"
	"ibcverif/term"
)

func init() {
	Register(&Prop{ID: "C04", Title: "Timeouts are sound: never both received and timed out, never early",
		Technique: "abstract interpretation (go/ssa): comparator and argument binding at the light-client non-membership / next-sequence seams of the timeout handlers; sibling rule over all LightClientModule implementations that the proof height is bounded",
		LevelText: "Decides that the v1 timeout handlers reach the application only when Elapsed(timeout of this packet, proof height of the message, consensus timestamp at that same proof height) held and the absence (UNORDERED: receipt key; ORDERED: nextSequenceRecv ≤ sequence proven as value) was verified at that proof height for this packet's destination identifiers, timeout-on-close additionally after a proof that the counterparty end is CLOSED; that v2 compares the consensus timestamp in seconds with ≥ against the timeout; and that every in-repo light client bounds the proof height it is given (stored consensus state / own height) before answering. Does not decide clock behaviour or the off-by-one between block execution and provable state.",
		Note:      "go/types + go/ssa; LightClientModule.TimestampAtHeight returns the consensus time of the given height", Design: "§5 C04", Run: runC04})
}

func pathHas(conn, k string) string {
	return "~and(~in(field:Prefix(field:Counterparty(" + conn + "))), ~in(call:dyn(gv:core/23-commitment/types.NewMerklePath, " + k + ")))"
}

func runC04(c *Ctx) {
	const which = "main"
	e := c.Engine(which)
	if e == nil {
		return
	}
	ph := "field:ProofHeight($MSG)"
	tsAt := "extract:0($LCM.TimestampAtHeight(_, _, field:ClientId(" + connSrc + "), " + ph + "))"
	elapsed := "T(call:$chanT.Timeout.Elapsed(" + timeoutOfPkt + ", " + ph + ", " + tsAt + "))"
	absence := [][]string{
		{"eq(field:Ordering(" + chSrc + "), $chanT.UNORDERED)",
			"ok($LCM.VerifyNonMembership(_, _, field:ClientId(" + connSrc + "), " + ph + ", field:DelayPeriod(" + connSrc + "), _, _, " + pathHas(connSrc, key(kReceipt, "$DP", "$DC", "$SEQ")) + "))"},
		{"eq(field:Ordering(" + chSrc + "), $chanT.ORDERED)",
			"le(field:NextSequenceRecv($MSG), $SEQ)",
			"ok($LCM.VerifyMembership(_, _, field:ClientId(" + connSrc + "), " + ph + ", field:DelayPeriod(" + connSrc + "), _, _, " + pathHas(connSrc, key(kNextRecv, "$DP", "$DC")) + ", call:sdk.Uint64ToBigEndian(field:NextSequenceRecv($MSG))))"},
	}
	dstMatches := []string{
		"eq($DP, field:PortId(field:Counterparty(" + chSrc + ")))",
		"eq($DC, field:ChannelId(field:Counterparty(" + chSrc + ")))",
	}
	if rr := c.Run(which, entryTimeout1); rr != nil {
		c.Check(which, "C04/timeout-v1/callback", c.Calls(rr, seamTimeout1), 1, pktMacros, nil,
			Req{Name: "elapsed-at-proof-height", Any: all(elapsed)},
			Req{Name: "absence-proven-at-proof-height", Any: absence},
			Req{Name: "destination-is-channel-counterparty", Any: all(dstMatches...)},
		)
		// every non-membership / membership verification in this handler uses the message's proof height
		for _, s := range []string{lcmVerify, lcmVerifyNon} {
			c.Check(which, "C04/timeout-v1/proof-height", c.Calls(rr, s), 1, pktMacros, nil,
				Req{Name: "height-and-client-of-connection", Args: map[int]string{2: "field:ClientId(" + connSrc + ")", 3: ph}},
				Req{Name: "client-active", Args: map[int]string{0: "?lcm", 1: "?ctx", 2: "?cid"}, Any: all("eq($LCM.Status(?lcm, ?ctx, ?cid), core/exported.Active)")},
			)
		}
	}
	if rr := c.Run(which, entryTimeoutC1); rr != nil {
		closed := "ok($LCM.VerifyMembership(_, _, field:ClientId(" + connSrc + "), " + ph + ", _, _, field:ProofClose($MSG), " +
			pathHas(connSrc, key(kChannel, "field:PortId(field:Counterparty("+chSrc+"))", "field:ChannelId(field:Counterparty("+chSrc+"))")) +
			", extract:0(call:iface:codec.BinaryCodec.Marshal(_, ref(~and(~wf(State, $chanT.CLOSED), ~wf(Ordering, field:Ordering(" + chSrc + ")), ~wf(ConnectionHops, arr(field:ConnectionId(field:Counterparty(" + connSrc + "))))))))))"
		c.Check(which, "C04/timeout-on-close-v1/callback", c.Calls(rr, seamTimeout1), 1, pktMacros, nil,
			Req{Name: "counterparty-closed-proven", Any: all(closed)},
			Req{Name: "absence-proven-at-proof-height", Any: absence},
			Req{Name: "destination-is-channel-counterparty", Any: all(dstMatches...)},
		)
	}
	if rr := c.Run(which, entryTimeout2); rr != nil {
		cp := cpOf("$SCL")
		c.Check(which, "C04/timeout-v2/callback", c.Calls(rr, seamTimeout2), 1, pktMacros, nil,
			Req{Name: "timestamp-reached-in-seconds", Any: all(
				"le(field:TimeoutTimestamp($PKT), conv:uint64(call:time.Time.Unix(call:time.Unix(0, conv:int64(extract:0($LCM.TimestampAtHeight(_, _, ?cid, "+ph+")))))))",
			)},
			Req{Name: "receipt-absence-proven", Any: all(
				"ok($LCM.VerifyNonMembership(_, _, ?cid, "+ph+", _, _, field:ProofUnreceived($MSG), ~wf(KeyPath, call:slices.Clone(field:MerklePrefix("+cp+")))))",
				v2PathStore(cp, key(kV2Receipt, "$DCL", "$SEQ")),
				"eq(field:ClientId("+cp+"), $DCL)",
			)},
		)
		c.Check(which, "C04/timeout-v2/verify", c.Calls(rr, lcmVerifyNon), 1, pktMacros, nil,
			Req{Name: "client-is-source-or-its-alias", Args: map[int]string{2: "~or($SCL, conv:string(extract:0($KVGet(_, ~key(\"{s}alias\", $SCL)))))", 3: ph}},
			Req{Name: "client-active", Args: map[int]string{0: "?lcm", 1: "?ctx", 2: "?cid"}, Any: all("eq($LCM.Status(?lcm, ?ctx, ?cid), core/exported.Active)")},
		)
	}
	// receive side: strictly before the timeout (shared with C05)
	if rr := c.Run(which, entryRecv2); rr != nil {
		c.Check(which, "C04/recv-v2", c.Calls(rr, seamRecvV2), 1, pktMacros, nil,
			Req{Name: "block-time-strictly-before-timeout", Any: all("lt(conv:uint64(call:time.Time.Unix(call:sdk.Context.BlockTime(_))), field:TimeoutTimestamp($PKT))")})
	}
	if rr := c.Run(which, entryRecv1); rr != nil {
		c.Check(which, "C04/recv-v1", c.Calls(rr, seamRecvV1), 1, pktMacros, nil,
			Req{Name: "not-elapsed-at-own-height-and-time", Any: all(
				"F(call:$chanT.Timeout.Elapsed("+timeoutOfPkt+", call:$clientT.GetSelfHeight(?c), conv:uint64(call:time.Time.UnixNano(call:sdk.Context.BlockTime(?c)))))",
			)})
	}
	// ---- sibling rule: every light client bounds the proof height it is handed
	c.lightClientHeightRule(which)
}

// lightClientHeightRule requires that in every implementation of
// LightClientModule.VerifyMembership / VerifyNonMembership the height
// parameter reaches, on every successful path, either a comparison against a
// height of the chain/client whose failure is an error, or a consensus-state
// lookup at that height whose miss is an error.
func (c *Ctx) lightClientHeightRule(which string) {
	e := c.Engine(which)
	type impl struct {
		key    string
		reason string // non-empty: exempt
	}
	impls := []impl{
		{"light-clients/07-tendermint.LightClientModule", ""},
		{"light-clients/09-localhost.LightClientModule", ""},
		{"light-clients/attestations.LightClientModule", ""},
		{"light-clients/06-solomachine.LightClientModule", "its height argument is a signature sequence bound into the signed bytes, not a chain height (C26)"},
	}
	// every production implementer must be listed
	listed := map[string]bool{}
	for _, im := range impls {
		listed[im.key] = true
	}
	for k := range e.P.Funcs {
		if strings.HasSuffix(k, ".VerifyNonMembership") && strings.HasPrefix(k, "light-clients/") && strings.Contains(k, "LightClientModule") {
			if !listed[strings.TrimSuffix(k, ".VerifyNonMembership")] {
				c.bad("C04/lc-height/listed", k, "", "a LightClientModule implementation is not covered by the proof-height rule")
			}
		}
	}
	for _, im := range impls {
		for _, meth := range []string{"VerifyMembership", "VerifyNonMembership"} {
			rule := "C04/lc-height/" + meth
			if im.reason != "" {
				c.ok(rule, im.key, "", "exempt: "+im.reason)
				continue
			}
			rr := c.Run(which, im.key+"."+meth)
			if rr == nil {
				continue
			}
			h := "param#3"
			c.CheckRets(which, rule, rr, NilErr(e), 1, nil, Req{Name: im.key, Any: [][]string{
				// compared against the chain's own height / the client's latest height
				{"~or(F(call:$clientT.Height.GT(" + h + ", _)), T(call:$clientT.Height.LTE(" + h + ", _)), F(call:$clientT.Height.LT(_, " + h + ")), T(call:$clientT.Height.GTE(_, " + h + ")))"},
				// consensus state / attested packet commitments stored at that height found
				{"~or(T(extract:1(call:*(..., " + h + "))), T(extract:1(call:*(..., ~in(" + h + ")))), ne(len(extract:0($KVGet(_, ~in(" + h + ")))), 0), ok(call:*(..., " + h + ")))"},
			}})
		}
	}
	_ = interp.New
	_ = term.Env{}
}
