package rules

import (
	"strings"

	"ibcverif/interp"
)

// Profiles name sets of small in-scope helpers that a family of rules keeps
// opaque and treats as functions of their arguments (their own definitions
// are decided by separate obligations). Keeping them opaque gives both sides
// of a comparison (send vs refund, writer vs reader) the same vocabulary.
var profiles = map[string][]string{
	"ics20": {
		"apps/transfer/types.Token.ToCoin", "apps/transfer/types.Denom.HasPrefix", "apps/transfer/types.Denom.IBCDenom",
		"apps/transfer/types.Denom.Path", "apps/transfer/types.Denom.Hash", "apps/transfer/types.Denom.IsNative",
		"apps/transfer/types.GetEscrowAddress", "apps/transfer/types.NewHop", "apps/transfer/types.Hop.String",
		"apps/transfer/types.ExtractDenomFromPath",
	},
}

// ApplyProfile configures the engine for a rule family.
func ApplyProfile(e *interp.Engine, name string) {
	keys := map[string]bool{}
	for _, k := range profiles[name] {
		keys[k] = true
	}
	e.PureFn = func(k string) bool { return keys[k] }
	e.NoInline = func(k string) bool { return keys[k] || interp.DefaultNoInline(k) }
	_ = strings.TrimSpace
}
