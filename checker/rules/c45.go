package rules

import (
	"fmt"
	"go/ast"
	"go/importer"
	"go/parser"
	"go/token"
	"go/types"
	"sort"
	"strings"

	"golang.org/x/tools/go/ssa"
	"golang.org/x/tools/go/ssa/ssautil"

	"ibcverif/load"
)

func init() {
	Register(&Prop{ID: "C45", Title: "Identical histories produce identical state",
		Technique: "SSA lints over every production function of both modules, each with a frozen, reasoned allow-list and a built-in positive example that must be flagged on every run: (1) map iteration whose loop body has an order-dependent effect (anything other than writes into maps, appends to a slice that is sorted before use, counters and flags); (2) sources of per-process nondeterminism (wall clock, random numbers, goroutines, select, environment, pointer-to-integer conversions); (3) floating point in state-machine code",
		LevelText: "Decides the absence, in all non-test, non-CLI, non-simulation code of ibc-go, of the constructs through which two honest nodes could diverge on the same history: iteration over a Go map with an order-dependent body (every such loop is either proven order-insensitive by the shape of its body or is in the allow-list with its reason), use of time.Now, math/rand, crypto/rand, os.Getenv, goroutines or select in keeper/handler code, and floating-point arithmetic outside telemetry. Does not decide determinism of dependencies (cosmos-sdk, CometBFT, wasmvm, go-ethereum) nor of the Go runtime; does not compare app hashes. The v2 router's lookup ranges over a map and is order-independent only because registered prefixes never overlap: that invariant is C48's, whose rules this check re-runs.",
		Note:      "go/types + go/ssa", Design: "§5 C45", Run: runC45, Deps: []string{"C48"}})
}

type detFinding struct {
	kind, fn, pos, detail string
}

// detAllow: constructs knowingly exempt, keyed by "<kind>|<function key>", one reason each.
var detAllow = map[string]string{
	"float|apps/transfer/internal/telemetry.ReportOnRecvPacket":                   "telemetry gauge only; the value does not reach state",
	"float|apps/transfer/internal/telemetry.ReportTransfer":                       "telemetry gauge only; the value does not reach state",
	"float|apps/packet-forward-middleware/keeper.Keeper.ForwardTransferPacket":    "telemetry gauge in a deferred closure; the value does not reach state",
	"float|apps/packet-forward-middleware/types.getForwardMetadata":               "range test and one truncating conversion of a JSON number (0..255 checked first); no floating-point arithmetic",
	"float|apps/packet-forward-middleware/types.parseDuration":                    "one conversion of a JSON number to time.Duration; identical on all nodes of one architecture (for values outside int64 the Go result is architecture-specific: observation O3 in DESIGN.md, outside this property's quantifier)",
	"map-range|apps/packet-forward-middleware/keeper.Keeper.InitGenesis":          "each entry is written under its own key; the resulting store does not depend on the order of writes to distinct keys",
	"map-range|core/api.Router.getRoute":                                          "returns the first prefix that matches; registration refuses overlapping prefixes so at most one can match (decided by C48)",
}

// detScan runs the determinism lints over a set of functions.
func detScan(fset *token.FileSet, fns []*ssa.Function, key func(*ssa.Function) string, pos func(token.Pos) string) []detFinding {
	var out []detFinding
	add := func(kind string, fn *ssa.Function, p token.Pos, detail string) {
		out = append(out, detFinding{kind, key(fn), pos(p), detail})
	}
	for _, fn := range fns {
		if fn.Blocks == nil {
			continue
		}
		for _, b := range fn.Blocks {
			for _, ins := range b.Instrs {
				switch ins := ins.(type) {
				case *ssa.Go:
					add("goroutine", fn, ins.Pos(), "starts a goroutine")
				case *ssa.Select:
					add("select", fn, ins.Pos(), "select statement")
				case *ssa.Range:
					if _, ok := ins.X.Type().Underlying().(*types.Map); ok {
						if why := mapRangeOrderDependent(fn, ins); why != "" {
							add("map-range", fn, ins.Pos(), why)
						}
					}
				case *ssa.Convert:
					if isFloat(ins.Type()) != isFloat(ins.X.Type()) {
						add("float", fn, ins.Pos(), "conversion between integer and floating point")
					}
					if b, ok := ins.Type().Underlying().(*types.Basic); ok && b.Kind() == types.Uintptr {
						if _, isPtr := ins.X.Type().Underlying().(*types.Pointer); isPtr || isUnsafePointer(ins.X.Type()) {
							add("pointer-value", fn, ins.Pos(), "pointer converted to an integer")
						}
					}
				case *ssa.BinOp:
					if isFloat(ins.X.Type()) {
						add("float", fn, ins.Pos(), "floating-point arithmetic")
					}
				case ssa.CallInstruction:
					if f := ins.Common().StaticCallee(); f != nil && f.Pkg != nil {
						q := f.Pkg.Pkg.Path() + "." + f.Name()
						switch {
						case q == "time.Now" || q == "time.Since" || q == "time.Until":
							add("wall-clock", fn, ins.Pos(), "calls "+q)
						case strings.HasPrefix(q, "math/rand.") || strings.HasPrefix(q, "math/rand/v2.") || strings.HasPrefix(q, "crypto/rand."):
							add("random", fn, ins.Pos(), "calls "+q)
						case q == "os.Getenv" || q == "os.LookupEnv" || q == "os.Environ" || q == "os.Hostname" || q == "os.Getpid":
							add("environment", fn, ins.Pos(), "calls "+q)
						case q == "runtime.NumCPU" || q == "runtime.GOMAXPROCS" || q == "runtime.NumGoroutine":
							add("environment", fn, ins.Pos(), "calls "+q)
						}
					}
				}
			}
		}
	}
	return out
}

func isFloat(t types.Type) bool {
	b, ok := t.Underlying().(*types.Basic)
	return ok && b.Info()&types.IsFloat != 0
}

func isUnsafePointer(t types.Type) bool {
	b, ok := t.Underlying().(*types.Basic)
	return ok && b.Kind() == types.UnsafePointer
}

// mapRangeOrderDependent inspects the body of a map range loop. It returns "" if every effect in the loop is
// insensitive to the iteration order, else a description of the first order-dependent effect.
func mapRangeOrderDependent(fn *ssa.Function, r *ssa.Range) string {
	// the loop: blocks reachable from the block of the Next instruction without leaving through the "done" edge
	var next *ssa.Next
	for _, ref := range *r.Referrers() {
		if n, ok := ref.(*ssa.Next); ok {
			next = n
		}
	}
	if next == nil {
		return ""
	}
	header := next.Block()
	// find the If on the ok component: its true successor is the body
	var body *ssa.BasicBlock
	if iff, ok := header.Instrs[len(header.Instrs)-1].(*ssa.If); ok && len(header.Succs) == 2 {
		_ = iff
		body = header.Succs[0]
	}
	if body == nil {
		return "loop shape not recognised"
	}
	done := header.Succs[1]
	inLoop := map[*ssa.BasicBlock]bool{}
	var walk func(b *ssa.BasicBlock)
	walk = func(b *ssa.BasicBlock) {
		if inLoop[b] || b == header || b == done {
			return
		}
		inLoop[b] = true
		for _, s := range b.Succs {
			walk(s)
		}
	}
	walk(body)
	// slices appended to inside the loop must be sorted after it (anywhere in the function)
	sorted := map[ssa.Value]bool{}
	for _, b := range fn.Blocks {
		for _, ins := range b.Instrs {
			ci, ok := ins.(ssa.CallInstruction)
			if !ok {
				continue
			}
			q := calleeQName(ci.Common().StaticCallee())
			if strings.HasPrefix(q, "sort.") || strings.HasPrefix(q, "slices.Sort") {
				for _, a := range ci.Common().Args {
					markSorted(a, sorted, 0)
				}
			}
		}
	}
	for b := range inLoop {
		leaves := false
		for _, s := range b.Succs {
			if !inLoop[s] && s != header {
				leaves = true
			}
		}
		for _, ins := range b.Instrs {
			switch ins := ins.(type) {
			case *ssa.Return:
				return "returns from inside the loop (which element is seen first depends on the iteration order)"
			case *ssa.Panic:
				// a panic aborts the transaction whatever element triggers it
			case *ssa.Store:
				if _, isAlloc := ins.Addr.(*ssa.Alloc); !isAlloc {
					if fa, ok := ins.Addr.(*ssa.FieldAddr); ok {
						if _, isAlloc := fa.X.(*ssa.Alloc); isAlloc {
							continue
						}
					}
					if ia, ok := ins.Addr.(*ssa.IndexAddr); ok {
						if _, isAlloc := ia.X.(*ssa.Alloc); isAlloc {
							continue
						}
					}
					return "stores through a pointer inside the loop"
				}
			case *ssa.Send:
				return "sends on a channel inside the loop"
			case ssa.CallInstruction:
				cm := ins.Common()
				if bi, ok := cm.Value.(*ssa.Builtin); ok {
					switch bi.Name() {
					case "append":
						v, _ := ins.(ssa.Value)
						if v != nil && !flowsToSorted(v, sorted, map[ssa.Value]bool{}, 0) {
							return "appends to a slice that is not sorted afterwards"
						}
					case "len", "cap", "delete", "copy", "min", "max":
					default:
						return "calls builtin " + bi.Name()
					}
					continue
				}
				f := cm.StaticCallee()
				if f != nil && pureForOrder(calleeQName(f)) {
					continue
				}
				name := "a function value"
				if f != nil {
					name = f.String()
				} else if cm.IsInvoke() {
					name = cm.Method.FullName()
				}
				return "calls " + name + " inside the loop (effects happen in iteration order)"
			}
		}
		if leaves {
			// a break: the element at which the loop stops depends on the order, unless nothing was produced
			// (handled by the effect checks above: a break after pure tests only sets flags)
		}
	}
	return ""
}

// calleeQName: "<package path>.<name>" of a static callee; instantiations of generic functions are named by their origin.
func calleeQName(f *ssa.Function) string {
	if f == nil {
		return ""
	}
	if o := f.Origin(); o != nil {
		f = o
	}
	if f.Pkg != nil {
		return f.Pkg.Pkg.Path() + "." + f.Name()
	}
	if obj := f.Object(); obj != nil && obj.Pkg() != nil {
		return obj.Pkg().Path() + "." + obj.Name()
	}
	return f.Name()
}

func markSorted(v ssa.Value, sorted map[ssa.Value]bool, depth int) {
	if depth > 6 || sorted[v] {
		return
	}
	sorted[v] = true
	switch v := v.(type) {
	case *ssa.Phi:
		for _, e := range v.Edges {
			markSorted(e, sorted, depth+1)
		}
	case *ssa.MakeInterface:
		markSorted(v.X, sorted, depth+1)
	case *ssa.ChangeType:
		markSorted(v.X, sorted, depth+1)
	case *ssa.Convert:
		markSorted(v.X, sorted, depth+1)
	case *ssa.Call:
		if b, ok := v.Call.Value.(*ssa.Builtin); ok && b.Name() == "append" {
			markSorted(v.Call.Args[0], sorted, depth+1)
		}
	case *ssa.UnOp:
		markSorted(v.X, sorted, depth+1)
	}
}

// flowsToSorted: the appended slice value reaches (through phis/appends/stores to a local) a value that is sorted.
func flowsToSorted(v ssa.Value, sorted map[ssa.Value]bool, seen map[ssa.Value]bool, depth int) bool {
	if sorted[v] {
		return true
	}
	if depth > 8 || seen[v] {
		return false
	}
	seen[v] = true
	refs := v.Referrers()
	if refs == nil {
		return false
	}
	for _, r := range *refs {
		switch r := r.(type) {
		case *ssa.Phi:
			if flowsToSorted(r, sorted, seen, depth+1) {
				return true
			}
		case *ssa.Call:
			if b, ok := r.Call.Value.(*ssa.Builtin); ok && b.Name() == "append" && r.Call.Args[0] == v {
				if flowsToSorted(r, sorted, seen, depth+1) {
					return true
				}
			}
		case *ssa.Store:
			// stored into a local that is later loaded and sorted
			if al, ok := r.Addr.(*ssa.Alloc); ok {
				for _, rr := range *al.Referrers() {
					if u, ok := rr.(*ssa.UnOp); ok && flowsToSorted(u, sorted, seen, depth+1) {
						return true
					}
				}
			}
		case *ssa.MakeInterface:
			if flowsToSorted(r, sorted, seen, depth+1) {
				return true
			}
		case *ssa.ChangeType:
			if flowsToSorted(r, sorted, seen, depth+1) {
				return true
			}
		}
	}
	return false
}

func pureForOrder(q string) bool {
	for _, p := range []string{"strings.", "bytes.", "strconv.", "fmt.Sprint", "fmt.Errorf", "errors.", "math.", "unicode", "slices.Contains", "slices.Index",
		"cosmossdk.io/errors.", "cosmossdk.io/math.", "github.com/cosmos/cosmos-sdk/types.AccAddress", "sort.Search"} {
		if strings.HasPrefix(q, p) {
			return true
		}
	}
	return false
}

// detSelfTest: the lints must flag a built-in positive example on every run.
func detSelfTest() (map[string]bool, error) {
	const src = `package selftest
import ("time"; "math/rand"; "os")
var sink []string
func emit(s string) { sink = append(sink, s) }
func wall() int64 { return time.Now().Unix() }
func rnd() int { return rand.Int() }
func env() string { return os.Getenv("X") }
func spawn() { go emit("x") }
func fl(a, b uint64) uint64 { return uint64(float64(a) / float64(b)) }
func rangeBad(m map[string]int) { for k := range m { emit(k) } }
func rangeFirst(m map[string]int) string { for k := range m { return k }; return "" }
func rangeAppend(m map[string]int) []string { var ks []string; for k := range m { ks = append(ks, k) }; return ks }
`
	fset := token.NewFileSet()
	f, err := parser.ParseFile(fset, "selftest.go", src, 0)
	if err != nil {
		return nil, err
	}
	pkg := types.NewPackage("selftest", "selftest")
	sp, _, err := ssautil.BuildPackage(&types.Config{Importer: importer.ForCompiler(fset, "source", nil)}, fset, pkg, []*ast.File{f}, ssa.InstantiateGenerics)
	if err != nil {
		return nil, err
	}
	var fns []*ssa.Function
	for _, m := range sp.Members {
		if fn, ok := m.(*ssa.Function); ok {
			fns = append(fns, fn)
		}
	}
	got := map[string]bool{}
	for _, fd := range detScan(fset, fns, func(f *ssa.Function) string { return f.Name() }, func(token.Pos) string { return "" }) {
		got[fd.kind+"|"+fd.fn] = true
	}
	return got, nil
}

func runC45(c *Ctx) {
	// ---- the lints catch their positive examples
	got, err := detSelfTest()
	want := []string{"wall-clock|wall", "random|rnd", "environment|env", "goroutine|spawn", "float|fl", "map-range|rangeBad", "map-range|rangeFirst", "map-range|rangeAppend"}
	if err != nil {
		c.undecided("C45/self-test", "determinism lints", "", "cannot build the positive examples: "+err.Error())
	} else {
		for _, w := range want {
			if got[w] {
				c.ok("C45/self-test", w, "", "positive example flagged")
			} else {
				c.bad("C45/self-test", w, "", "the lint no longer flags its positive example")
			}
		}
	}
	for _, which := range []string{"main", "wasm"} {
		p := c.Prog(which)
		if p == nil {
			continue
		}
		var fns []*ssa.Function
		for key, fn := range p.Funcs {
			_ = key
			if fn.Pos().IsValid() && load.IsGenerated(p.Fset.Position(fn.Pos()).Filename) {
				continue
			}
			fns = append(fns, fn)
			var addAnon func(f *ssa.Function)
			addAnon = func(f *ssa.Function) {
				for _, an := range f.AnonFuncs {
					fns = append(fns, an)
					addAnon(an)
				}
			}
			addAnon(fn)
		}
		if which == "main" && len(fns) < 1500 {
			c.bad("C45/scope", which, "", fmt.Sprintf("only %d functions scanned", len(fns)))
		}
		fds := detScan(p.Fset, fns, func(f *ssa.Function) string { return load.FuncKey(topFn(f)) }, p.Pos)
		sort.Slice(fds, func(i, j int) bool {
			if fds[i].fn != fds[j].fn {
				return fds[i].fn < fds[j].fn
			}
			return fds[i].kind < fds[j].kind
		})
		nRange := 0
		for _, fn := range fns {
			for _, b := range fn.Blocks {
				for _, ins := range b.Instrs {
					if r, ok := ins.(*ssa.Range); ok {
						if _, isMap := r.X.Type().Underlying().(*types.Map); isMap {
							nRange++
						}
					}
				}
			}
		}
		used := map[string]bool{}
		for _, fd := range fds {
			k := fd.kind + "|" + fd.fn
			if why, ok := detAllow[k]; ok {
				if !used[k] {
					c.ok("C45/"+fd.kind, fd.fn, fd.pos, "allowed: "+why)
				}
				used[k] = true
				continue
			}
			c.bad("C45/"+fd.kind, fd.fn, fd.pos, fd.detail)
		}
		c.ok("C45/scanned", which, "", fmt.Sprintf("%d functions scanned, %d map range loops inspected, %d constructs reported or allowed", len(fns), nRange, len(fds)))
		if which == "main" {
			for k := range detAllow {
				if !used[k] && !strings.Contains(k, "08-wasm") {
					c.bad("C45/allow-list", k, "", "allow-list entry matches nothing any more (remove it)")
				}
			}
		}
	}
}
