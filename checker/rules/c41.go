package rules

import (
	"fmt"
	"strings"

	"golang.org/x/tools/go/ssa"

	"ibcverif/term"
)

const (
	rlK = "apps/rate-limiting/keeper.Keeper"
	rlT = "apps/rate-limiting/types"
)

func init() {
	Register(&Prop{ID: "C41", Title: "Rate-limit flows track exactly the in-window accepted transfers",
		Technique: "abstract interpretation (go/ssa): quota guard of the two flow updates, pairing of flow updates with pending-set entries (recorded iff the flow was updated; undone only if recorded, clamped at zero, entry removed), acknowledgement/timeout dispatch, and a sibling-agreement rule over every function that starts a new window or removes a limit: it must clear both pending sets of that (channel, denomination) like the reset does",
		LevelText: "Decides that AddOutflow/AddInflow change the flow only when the net flow in that direction plus the amount does not exceed channelValue×percent/100 (a zero channel value disables the test), that CheckRateLimitAndUpdateFlow reports 'updated' only after such an update was stored, that a send/receive records the packet in the pending set exactly when the flow was updated, that UndoSendPacket/UndoReceivePacket subtract only for a packet found in the pending set, never below zero, and remove the entry (so each packet is undone at most once), that a success acknowledgement only removes the entry while an error acknowledgement or timeout undoes the send, that an error acknowledgement written for a received packet undoes the receive, and that every administration path that zeroes the flows of an existing limit or deletes a limit also clears both pending sets of that (channel, denomination) — otherwise a later undo of a packet from the previous window would be subtracted from the new one. Does not decide the arithmetic of cosmossdk.io/math nor the interleaving invariant itself.",
		Note:      "go/types + go/ssa; cosmossdk.io/math and collections trusted", Design: "§5 C41", Run: runC41})
}

func runC41(c *Ctx) {
	const which = "main"
	e := c.Engine(which)
	if e == nil {
		return
	}
	any := func(src string, set term.Set) bool { return e.T.Any(c.pats(which, nil, src)[0], set, nil) }
	// ---- quota guard: AddOutflow(f#0, amount#1, quota#2) / AddInflow
	for _, x := range []struct{ fn, mine, other, dir string }{
		{"AddOutflow", "Outflow", "Inflow", rlT + ".PACKET_SEND"},
		{"AddInflow", "Inflow", "Outflow", rlT + ".PACKET_RECV"},
	} {
		rr := c.Run(which, rlT+".Flow."+x.fn)
		if rr == nil {
			continue
		}
		net := "call:sdkmath.Int.Add(call:sdkmath.Int.Sub(field:" + x.mine + "(param#0), field:" + x.other + "(param#0)), param#1)"
		c.CheckRets(which, "C41/quota/"+x.fn, rr, NilErr(e), 1, nil,
			Req{Name: "net-flow-within-quota-then-added", Any: all(
				"F(call:"+rlT+".Quota.CheckExceedsQuota(_, "+x.dir+", "+net+", field:ChannelValue(param#0)))",
				"store(faddr:"+x.mine+"(param#0), call:sdkmath.Int.Add(field:"+x.mine+"(param#0), param#1))",
			)})
	}
	// CheckExceedsQuota(q#0, direction#1, amount#2, total#3)
	if rr := c.Run(which, rlT+".Quota.CheckExceedsQuota"); rr != nil {
		fk := rlT + ".Quota.CheckExceedsQuota"
		th := func(p string) string {
			return "call:sdkmath.Int.GT(param#2, call:sdkmath.Int.Quo(call:sdkmath.Int.Mul(param#3, field:" + p + "(param#0)), call:sdkmath.NewInt(100)))"
		}
		nZ, nR, nS := 0, 0, 0
		for _, ev := range rr.Events {
			if ev.Kind != "return" || len(ev.Args) != 1 {
				continue
			}
			switch {
			case e.T.String(ev.Args[0]) == "false" && any("T(call:sdkmath.Int.IsZero(param#3))", ev.Atoms):
				nZ++
			case any(th("MaxPercentRecv"), setOf(ev.Args[0])) && any("eq(param#1, "+rlT+".PACKET_RECV)", ev.Atoms):
				nR++
			case any(th("MaxPercentSend"), setOf(ev.Args[0])) && any("ne(param#1, "+rlT+".PACKET_RECV)", ev.Atoms):
				nS++
			default:
				c.bad("C41/quota/threshold", fk, e.P.Pos(ev.Instr.Pos()), "result "+clip(e.T.String(ev.Args[0]), 140)+" is not amount > total×percent/100 for the direction's percentage")
			}
		}
		if nZ > 0 && nR > 0 && nS > 0 {
			c.ok("C41/quota/threshold", fk, "", "exceeds iff amount > total×percent/100 (percent of the packet's direction); never for a zero total")
		} else {
			c.bad("C41/quota/threshold", fk, "", fmt.Sprintf("expected zero-total, receive and send cases, got %d/%d/%d", nZ, nR, nS))
		}
	}
	// ---- CheckRateLimitAndUpdateFlow(k#0, ctx#1, direction#2, packetInfo#3)
	if rr := c.Run(which, rlK+".CheckRateLimitAndUpdateFlow"); rr != nil {
		fk := rlK + ".CheckRateLimitAndUpdateFlow"
		n := 0
		for _, ev := range rr.Events {
			if ev.Kind != "return" || len(ev.Args) != 2 || e.T.String(ev.Args[0]) != "true" {
				continue
			}
			n++
			if !any("ok(call:"+rlT+".RateLimit.UpdateFlow(_, param#2, field:Amount(param#3)))", ev.Atoms) || !any("call:"+rlK+".SetRateLimit(param#0, param#1, _)", ev.Atoms) ||
				!any("T(extract:1(call:"+rlK+".GetRateLimit(param#0, param#1, field:Denom(param#3), field:ChannelID(param#3))))", ev.Atoms) {
				c.bad("C41/update", fk, e.P.Pos(ev.Instr.Pos()), "reports the flow as updated without a successful UpdateFlow of the path's limit followed by its storage")
			}
		}
		if n > 0 {
			c.ok("C41/update", fk, "", "'updated' only after UpdateFlow(direction, amount) succeeded on the stored limit of (denom, channel) and was stored")
		} else {
			c.bad("C41/update", fk, "", "no 'updated' return")
		}
	}
	// ---- pending entries recorded iff the flow was updated
	for _, x := range []struct{ fn, dir, set string }{
		{"SendRateLimitedPacketWithSequence", rlT + ".PACKET_SEND", "SetPendingSendPacket"},
		{"ReceiveRateLimitedPacket", rlT + ".PACKET_RECV", "SetPendingReceivePacket"},
	} {
		rr := c.Run(which, rlK+"."+x.fn)
		if rr == nil {
			continue
		}
		info := "extract:0(call:apps/rate-limiting/keeper.ParsePacketInfo(param#2, " + x.dir + "))"
		upd := "call:" + rlK + ".CheckRateLimitAndUpdateFlow(param#0, param#1, " + x.dir + ", " + info + ")"
		c.Check(which, "C41/pending/"+x.fn, c.Calls(rr, rlK+"."+x.set), 1, nil, nil,
			Req{Name: "recorded-only-when-the-flow-was-updated-for-this-packet", Args: map[int]string{2: "field:ChannelID(" + info + ")", 3: "field:Sequence(param#2)", 4: "field:Denom(" + info + ")"},
				Any: all("T(extract:0(" + upd + "))")})
		// and every success return with an updated flow did record it
		for _, ev := range rr.Events {
			if ev.Kind == "return" && len(ev.Args) == 1 && any("T(extract:0("+upd+"))", ev.Atoms) && e.T.String(ev.Args[0]) == "nil" && !any("call:"+rlK+"."+x.set, ev.Atoms) {
				c.bad("C41/pending/"+x.fn+"/always", rlK+"."+x.fn, e.P.Pos(ev.Instr.Pos()), "returns nil after a flow update without recording the packet as pending")
			}
		}
	}
	// ---- undo: only for recorded packets, clamped, entry removed
	// UndoSendPacket(k#0, ctx#1, channel#2, sequence#3, denom#4, amount#5)
	if rr := c.Run(which, rlK+".UndoSendPacket"); rr != nil {
		c.Check(which, "C41/undo/send", c.Calls(rr, rlK+".SetRateLimit"), 1, nil, nil,
			Req{Name: "only-for-a-pending-packet-clamped-at-zero", Any: [][]string{
				{"T(extract:0(call:" + rlK + ".CheckPacketSentDuringCurrentQuota(param#0, param#1, param#2, param#3, param#4)))", "T(call:sdkmath.Int.IsNegative(call:sdkmath.Int.Sub(_, param#5)))"},
				{"T(extract:0(call:" + rlK + ".CheckPacketSentDuringCurrentQuota(param#0, param#1, param#2, param#3, param#4)))", "F(call:sdkmath.Int.IsNegative(call:sdkmath.Int.Sub(_, param#5)))"},
			}})
		c.undoRemoves(which, rr, "C41/undo/send", rlK+".UndoSendPacket", "call:"+rlK+".RemovePendingSendPacket(param#0, param#1, param#2, param#3, param#4)")
	}
	// UndoReceivePacket(k#0, ctx#1, packet#2)
	if rr := c.Run(which, rlK+".UndoReceivePacket"); rr != nil {
		info := "extract:0(call:apps/rate-limiting/keeper.ParsePacketInfo(param#2, " + rlT + ".PACKET_RECV))"
		chk := "call:" + rlK + ".CheckPacketReceivedDuringCurrentQuota(param#0, param#1, field:ChannelID(" + info + "), field:Sequence(param#2), field:Denom(" + info + "))"
		c.Check(which, "C41/undo/recv", c.Calls(rr, rlK+".SetRateLimit"), 1, nil, nil,
			Req{Name: "only-for-a-pending-packet", Any: all("T(extract:0(" + chk + "))")})
		c.undoRemoves(which, rr, "C41/undo/recv", rlK+".UndoReceivePacket", "call:"+rlK+".RemovePendingReceivePacket(param#0, param#1, field:ChannelID("+info+"), field:Sequence(param#2), field:Denom("+info+"))")
	}
	// ---- ack / timeout dispatch
	// AcknowledgeRateLimitedPacket(k#0, ctx#1, packet#2, ack#3)
	if rr := c.Run(which, rlK+".AcknowledgeRateLimitedPacket"); rr != nil {
		info := "extract:0(call:apps/rate-limiting/keeper.ParsePacketInfo(param#2, " + rlT + ".PACKET_SEND))"
		succ := "extract:0(call:" + rlK + ".CheckAcknowledgementSucceeded(param#0, param#1, param#3))"
		c.Check(which, "C41/ack/error-undoes", c.Calls(rr, rlK+".UndoSendPacket"), 1, nil, nil,
			Req{Name: "error-ack-undoes-this-packet", Args: map[int]string{2: "field:ChannelID(" + info + ")", 3: "field:Sequence(param#2)", 4: "field:Denom(" + info + ")", 5: "field:Amount(" + info + ")"},
				Any: all("F(" + succ + ")")})
		for _, ev := range rr.Events {
			if ev.Kind == "return" && any("T("+succ+")", ev.Atoms) && (any("call:"+rlK+".SetRateLimit", ev.Atoms) || any("call:"+rlK+".UndoSendPacket", ev.Atoms)) {
				c.bad("C41/ack/success-keeps-flow", rlK+".AcknowledgeRateLimitedPacket", e.P.Pos(ev.Instr.Pos()), "a success acknowledgement changes the flow")
			}
		}
		c.ok("C41/ack/success-keeps-flow", rlK+".AcknowledgeRateLimitedPacket", "", "success returns scanned")
	}
	if rr := c.Run(which, rlK+".TimeoutRateLimitedPacket"); rr != nil {
		info := "extract:0(call:apps/rate-limiting/keeper.ParsePacketInfo(param#2, " + rlT + ".PACKET_SEND))"
		c.Check(which, "C41/timeout", c.Calls(rr, rlK+".UndoSendPacket"), 1, nil, nil,
			Req{Name: "undoes-this-packet", Args: map[int]string{2: "field:ChannelID(" + info + ")", 3: "field:Sequence(param#2)", 4: "field:Denom(" + info + ")", 5: "field:Amount(" + info + ")"}})
	}
	// ---- sibling agreement: a new window or a removed limit clears both pending sets
	clearS := func(ch, dn string) string {
		return "call:" + rlK + ".RemoveAllChannelPendingSendPackets(param#0, param#1, " + ch + ", " + dn + ")"
	}
	clearR := func(ch, dn string) string {
		return "call:" + rlK + ".RemoveAllChannelPendingReceivePackets(param#0, param#1, " + ch + ", " + dn + ")"
	}
	p := e.P
	zeroFlow := c.pats(which, nil, "~in(~and(~wf(Inflow, call:sdkmath.ZeroInt()), ~wf(Outflow, call:sdkmath.ZeroInt())))")[0]
	nReset := 0
	for key, fn := range p.Funcs {
		if !strings.HasPrefix(key, "apps/rate-limiting/keeper.") || fn.Blocks == nil || strings.Contains(key, "Genesis") || strings.Contains(key, "migrat") {
			continue
		}
		// direct callers of SetRateLimit / RemoveRateLimit only (not their transitive callers)
		callsSet, callsRemove := false, false
		for _, b := range fn.Blocks {
			for _, ins := range b.Instrs {
				if ci, ok := ins.(ssa.CallInstruction); ok {
					if g := ci.Common().StaticCallee(); g != nil {
						switch topKey(g) {
						case rlK + ".SetRateLimit":
							callsSet = true
						case rlK + ".RemoveRateLimit":
							callsRemove = true
						}
					}
				}
			}
		}
		if !callsSet && !callsRemove {
			continue
		}
		rr := c.Run(which, key)
		if rr == nil {
			continue
		}
		for _, ev := range rr.Events {
			if ev.Kind != "return" {
				continue
			}
			last := ev.Args
			if len(last) == 0 || e.T.String(last[len(last)-1]) != "nil" && !(len(last) == 1 && e.T.String(last[0]) == "nil") {
				if len(last) > 0 && e.T.String(last[len(last)-1]) != "nil" {
					continue
				}
			}
			// a zeroed flow stored for a limit that already existed
			resets := false
			for _, at := range ev.Atoms {
				tm := e.T.Get(at)
				if tm.Op == "call:"+rlK+".SetRateLimit" && len(tm.Args) >= 3 && e.T.Match(zeroFlow, tm.Args[2], term.Env{}, func(term.Env) bool { return true }) {
					if any("T(extract:1(call:"+rlK+".GetRateLimit(param#0, param#1, _, _)))", ev.Atoms) {
						resets = true
					}
				}
			}
			removes := any("call:"+rlK+".RemoveRateLimit(_, param#1, _, _)", ev.Atoms) || any("call:"+rlK+".RemoveRateLimit(_, _, _, _)", ev.Atoms)
			if !resets && !removes {
				continue
			}
			nReset++
			what := "starts a new window for an existing limit"
			if removes && !resets {
				what = "removes a limit"
			}
			if any("call:"+rlK+".RemoveAllChannelPendingSendPackets", ev.Atoms) && any("call:"+rlK+".RemoveAllChannelPendingReceivePackets", ev.Atoms) {
				c.ok("C41/window-clears-pending", key, e.P.Pos(ev.Instr.Pos()), what+" and clears both pending sets")
			} else {
				c.bad("C41/window-clears-pending", key, e.P.Pos(ev.Instr.Pos()), what+" without clearing the pending send/receive sets of that (channel, denomination): a later undo of a packet from the previous window is subtracted from the new window's flow")
			}
		}
	}
	if nReset < 2 {
		c.bad("C41/window-clears-pending", "rate-limiting keeper", "", fmt.Sprintf("only %d window-reset/removal returns found", nReset))
	}
	_, _ = clearS, clearR
}

// undoRemoves: every return of an undo function that changed the flow also removed the pending entry.
func (c *Ctx) undoRemoves(which string, rr interface{ }, rule, fk, remove string) {
	e := c.Engine(which)
	r := c.Run(which, fk)
	if r == nil {
		return
	}
	any := func(src string, set term.Set) bool { return e.T.Any(c.pats(which, nil, src)[0], set, nil) }
	n := 0
	for _, ev := range r.Events {
		if ev.Kind != "return" || !any("call:"+rlK+".SetRateLimit", ev.Atoms) {
			continue
		}
		n++
		if !any(remove, ev.Atoms) {
			c.bad(rule+"/entry-removed", fk, e.P.Pos(ev.Instr.Pos()), "the flow is reduced without removing the packet's pending entry (it could be undone twice)")
		}
	}
	if n > 0 {
		c.ok(rule+"/entry-removed", fk, "", "every flow reduction removes the pending entry")
	} else {
		c.bad(rule+"/entry-removed", fk, "", "no return after a flow reduction found")
	}
}
