package rules

import (
	"fmt"
	"os"
	"sort"
	"strings"

	"ibcverif/interp"
	"ibcverif/load"
	"ibcverif/term"
)

// Req is a requirement evaluated on a set of atoms: every group in All must
// hold; a group holds if one of its options (each a conjunction of patterns
// sharing variables with the bound environment) holds; no pattern of None may
// match any atom.
type Req struct {
	Name string
	Any  [][]string // options; at least one must hold (each a conjunction)
	None []string   // forbidden atoms
	Args map[int]string // patterns the call's arguments must match (receiver is 0 for interface calls)
}

func all(ps ...string) [][]string { return [][]string{ps} }

type compiledReq struct {
	Req
	any  [][]*term.Pat
	none []*term.Pat
	args map[int]*term.Pat
}

func (c *Ctx) compile(which string, m Macros, rs []Req) []compiledReq {
	out := make([]compiledReq, len(rs))
	for i, r := range rs {
		out[i].Req = r
		for _, opt := range r.Any {
			out[i].any = append(out[i].any, c.pats(which, m, opt...))
		}
		out[i].none = c.pats(which, m, r.None...)
		if len(r.Args) > 0 {
			out[i].args = map[int]*term.Pat{}
			for k, v := range r.Args {
				out[i].args[k] = c.pats(which, m, v)[0]
			}
		}
	}
	return out
}

// evalReq returns "" if the requirement holds on atoms, else a diagnosis.
func (c *Ctx) evalReq(e *interp.Engine, atoms term.Set, env term.Env, r *compiledReq) string {
	return c.evalReqArgs(e, atoms, env, r, nil)
}

// evalReqArgs first matches the argument patterns (in index order, extending
// the environment), then the atom requirements under that environment.
func (c *Ctx) evalReqArgs(e *interp.Engine, atoms term.Set, env term.Env, r *compiledReq, args []term.ID) string {
	if env == nil {
		env = term.Env{}
	}
	e.T.Alias = e.T.AliasesOf(atoms)
	defer func() { e.T.Alias = nil }()
	if len(r.args) > 0 {
		idx := make([]int, 0, len(r.args))
		for k := range r.args {
			idx = append(idx, k)
		}
		sort.Ints(idx)
		for _, i := range idx {
			if i >= len(args) {
				return fmt.Sprintf("call has no argument %d", i)
			}
			var got term.Env
			if !e.T.Match(r.args[i], args[i], env, func(en term.Env) bool { got = en; return true }) {
				return fmt.Sprintf("argument %d is %s, expected %s", i, clip(e.T.String(args[i]), 300), r.args[i].Src)
			}
			env = got
		}
	}
	if len(r.any) > 0 {
		okAny := false
		var firstMissing string
		for _, opt := range r.any {
			ok, missing, _ := c.Holds(e, atoms, env, opt)
			if ok {
				okAny = true
				break
			}
			if firstMissing == "" {
				firstMissing = missing
			}
		}
		if !okAny {
			return "missing: " + firstMissing
		}
	}
	for _, p := range r.none {
		if e.T.Any(p, atoms, env) {
			return "forbidden fact/effect present: " + p.Src
		}
		// effects performed on only some of the paths merged into this class (the must-set dropped them)
		if len(c.curMay) > 0 && e.T.Any(p, c.curMay, env) {
			return "forbidden effect present on some of the paths merged into this class: " + p.Src
		}
	}
	return ""
}

// Sites groups events by call site (function + callee + ordinal).
type Site struct {
	Key    string
	Events []*interp.Event
}

func (c *Ctx) Sites(evs []*interp.Event) []*Site {
	idx := map[string]*Site{}
	var out []*Site
	for _, ev := range evs {
		k := load.FuncKey(ev.Fn) + "→" + ev.Key + "#" + c.ordinal(ev)
		s, ok := idx[k]
		if !ok {
			s = &Site{Key: k}
			idx[k] = s
			out = append(out, s)
		}
		s.Events = append(s.Events, ev)
	}
	return out
}

// Check evaluates requirements at every event (all path classes) and records
// one obligation per (requirement, call site).
func (c *Ctx) Check(which, rulePrefix string, evs []*interp.Event, min int, m Macros, bind func(ev *interp.Event) term.Env, reqs ...Req) {
	e := c.Engine(which)
	if e == nil {
		return
	}
	crs := c.compile(which, m, reqs)
	sites := c.Sites(evs)
	if len(sites) < min {
		c.bad(rulePrefix+"/instances", "count", "", fmt.Sprintf("expected at least %d call sites, found %d (a rule matching nothing would pass vacuously)", min, len(sites)))
	}
	for _, s := range sites {
		where := e.P.Pos(s.Events[0].Instr.Pos())
		for i := range crs {
			r := &crs[i]
			diag := ""
			for _, ev := range s.Events {
				var env term.Env
				if bind != nil {
					env = bind(ev)
				}
				c.curMay = ev.May
				d := c.evalReqArgs(e, ev.Atoms, env, r, ev.Args)
				c.curMay = nil
				if d != "" {
					diag = d
					if os.Getenv("VERIF_DEBUG") != "" {
						fmt.Printf("DEBUG %s/%s fails at %s: %s\n", rulePrefix, r.Name, where, d)
						for _, at := range ev.Atoms {
							fmt.Printf("   | %s\n", e.T.String(at))
						}
					}
					break
				}
			}
			rule := rulePrefix + "/" + r.Name
			if diag != "" {
				c.bad(rule, s.Key, where, "on some path class reaching this call: "+diag)
			} else {
				c.ok(rule, s.Key, where, fmt.Sprintf("holds on all %d path classes", len(s.Events)))
			}
		}
	}
}

// Exists records one obligation per requirement: some event among evs must
// satisfy it (used for "a rejecting branch with this guard exists").
func (c *Ctx) Exists(which, rule, construct string, evs []*interp.Event, m Macros, reqs ...Req) {
	e := c.Engine(which)
	if e == nil {
		return
	}
	crs := c.compile(which, m, reqs)
	for i := range crs {
		r := &crs[i]
		found := ""
		for _, ev := range evs {
			if d := c.evalReqArgs(e, ev.Atoms, nil, r, ev.Args); d == "" {
				found = e.P.Pos(ev.Instr.Pos())
				break
			}
		}
		if found != "" {
			c.ok(rule+"/"+r.Name, construct, found, "a site with the required guard exists")
		} else {
			c.bad(rule+"/"+r.Name, construct, "", fmt.Sprintf("none of the %d candidate sites carries the required guard: %v %v", len(evs), r.Any, r.Args))
		}
	}
}

// CountAtoms returns how many atoms of the set match the pattern under env.
func (c *Ctx) CountAtoms(which string, atoms term.Set, env term.Env, m Macros, src string) int {
	e := c.Engine(which)
	p := c.pats(which, m, src)[0]
	if env == nil {
		env = term.Env{}
	}
	n := 0
	for _, id := range atoms {
		if e.T.Match(p, id, env, func(term.Env) bool { return true }) {
			n++
		}
	}
	return n
}

// CheckRets evaluates requirements on the return alternatives of an entry that
// satisfy the selector patterns (e.g. nil error result).
func (c *Ctx) CheckRets(which, rulePrefix string, rr *interp.RunResult, sel func(r *interp.Ret) bool, min int, m Macros, reqs ...Req) {
	e := c.Engine(which)
	if e == nil || rr == nil {
		return
	}
	crs := c.compile(which, m, reqs)
	n := 0
	construct := load.FuncKey(rr.Fn)
	for i := range crs {
		r := &crs[i]
		diag := ""
		n = 0
		for _, ret := range rr.Rets {
			if sel != nil && !sel(ret) {
				continue
			}
			n++
			atoms := ret.Atoms
			if NilErr(e)(ret) {
				atoms = successAtoms(e, ret)
			}
			c.curMay = ret.May
			d := c.evalReq(e, atoms, nil, r)
			c.curMay = nil
			if d != "" && diag == "" {
				diag = d
				if os.Getenv("VERIF_DEBUG") != "" {
					fmt.Printf("DEBUG %s/%s fails on a return class: %s\n", rulePrefix, r.Name, d)
					for _, at := range atoms {
						fmt.Printf("   | %s\n", e.T.String(at))
					}
				}
			}
		}
		rule := rulePrefix + "/" + r.Name
		if n < min {
			c.bad(rule, construct, "", fmt.Sprintf("expected at least %d matching return classes, found %d", min, n))
		} else if diag != "" {
			c.bad(rule, construct, e.P.Pos(rr.Fn.Pos()), "on some returning path class: "+diag)
		} else {
			c.ok(rule, construct, e.P.Pos(rr.Fn.Pos()), fmt.Sprintf("holds on all %d return classes", n))
		}
	}
}

// NilErr selects return alternatives whose last result is the nil error.
func NilErr(e *interp.Engine) func(r *interp.Ret) bool {
	return func(r *interp.Ret) bool {
		if len(r.Results) == 0 {
			return true
		}
		last := r.Results[len(r.Results)-1]
		if last == 0 {
			return false
		}
		if e.T.Op(last) == "nil" {
			return true
		}
		// a forwarded error of an inner call (tail call): nil iff that call succeeded
		if _, ok := forwardedCall(e, r); ok {
			return true
		}
		return false
	}
}

// forwardedCall returns the call whose error result a return class forwards
// unchanged, when its outcome is not already known to be a failure.
func forwardedCall(e *interp.Engine, r *interp.Ret) (term.ID, bool) {
	if len(r.Results) == 0 {
		return 0, false
	}
	last := r.Results[len(r.Results)-1]
	if last == 0 {
		return 0, false
	}
	t := last
	for strings.HasPrefix(e.T.Op(t), "extract:") {
		t = e.T.Args(t)[0]
	}
	if !strings.HasPrefix(e.T.Op(t), "call:") || strings.HasPrefix(e.T.Op(t), "call:errorsmod.") || strings.HasPrefix(e.T.Op(t), "call:errors.") || strings.HasPrefix(e.T.Op(t), "call:fmt.") {
		return 0, false
	}
	if r.Atoms.Has(e.T.Mk("fail", t)) {
		return 0, false
	}
	return t, true
}

// successAtoms are the facts of a return class under the assumption that the
// function returned a nil error: for a forwarded error that means the inner
// call (and every wrapper recorded as returning its error) succeeded.
func successAtoms(e *interp.Engine, r *interp.Ret) term.Set {
	atoms := r.Atoms
	if t, ok := forwardedCall(e, r); ok && e.T.Op(r.Results[len(r.Results)-1]) != "nil" {
		last := r.Results[len(r.Results)-1]
		atoms = atoms.Add(e.T.Mk("ok", t))
		for _, at := range r.Atoms {
			tm := e.T.Get(at)
			if tm.Op == "errvia" && tm.Args[1] == last {
				atoms = atoms.Add(e.T.Mk("ok", tm.Args[0]))
			}
		}
	}
	return atoms
}

// HasAtom selects return alternatives containing an atom matching the pattern.
func (c *Ctx) HasAtom(which string, m Macros, src string) func(r *interp.Ret) bool {
	e := c.Engine(which)
	ps := c.pats(which, m, src)
	return func(r *interp.Ret) bool { return e.T.Any(ps[0], r.Atoms, term.Env{}) }
}

// ArgEnv binds ?a0, ?a1.. to the arguments of the event's call.
func ArgEnv(ev *interp.Event) term.Env {
	env := term.Env{}
	for i, a := range ev.Args {
		env[fmt.Sprintf("a%d", i)] = a
	}
	if ev.Call != 0 {
		env["call"] = ev.Call
	}
	return env
}

// Filter keeps the events whose enclosing inlined stack contains a function
// whose key has the given suffix (or all events when suffix is empty).
func InStack(evs []*interp.Event, suffix string) []*interp.Event {
	var out []*interp.Event
	for _, ev := range evs {
		for _, s := range ev.Stack {
			if strings.HasSuffix(s, suffix) {
				out = append(out, ev)
				break
			}
		}
	}
	return out
}

// ArgMatches keeps events whose i-th argument matches the pattern.
func (c *Ctx) ArgMatches(which string, evs []*interp.Event, i int, m Macros, src string) []*interp.Event {
	e := c.Engine(which)
	if e == nil {
		return nil
	}
	p := c.pats(which, m, src)[0]
	var out []*interp.Event
	for _, ev := range evs {
		if i < len(ev.Args) && e.T.Match(p, ev.Args[i], term.Env{}, func(term.Env) bool { return true }) {
			out = append(out, ev)
		}
	}
	return out
}

func setOf(ids ...term.ID) term.Set {
	var s term.Set
	for _, id := range ids {
		s = s.Add(id)
	}
	return s
}

func clip(s string, n int) string {
	if len(s) > n {
		return s[:n] + "…"
	}
	return s
}
