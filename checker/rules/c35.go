package rules

import (
	"fmt"
	"sort"
	"strings"

	"golang.org/x/tools/go/ssa"

	"ibcverif/interp"
	"ibcverif/term"
)

func init() {
	Register(&Prop{ID: "C35", Title: "Packet data encodings round-trip and decoding never panics",
		Technique: "abstract interpretation (go/ssa): must-pass-through of the unknown-field rejection before every protobuf decode of packet data and acknowledgements; sibling agreement of encoder and decoder (same set of encodings dispatched, same ABI definition function, field-by-field mapping between the Go type and the ABI tuple in both directions); the panic lint of C47 restricted to the decoders",
		LevelText: "Decides that every proto.Unmarshal of ICS-20 and GMP packet data / acknowledgements is preceded, on the same bytes and target, by a successful unknownproto.RejectUnknownFieldsStrict; that the marshal and unmarshal dispatchers of each application accept the same set of encoding names; that the ABI encoder and decoder of each type obtain their ABI arguments from the same definition function and map the fields one to one in both directions (denom, sender, receiver, amount as a base-10 big integer, memo for ICS-20; the corresponding fields for GMP), so the two directions cannot drift apart; and that the decoders contain no panicking construct in ibc-go's own code (shared with C47). Does not decide value-level round-tripping for every input (that is the behaviour of encoding/json, gogoproto and go-ethereum's abi package), nor the attestation ABI beyond the no-panic lint.",
		Note:      "go/types + go/ssa; json, gogoproto and go-ethereum abi trusted", Design: "§5 C35", Run: runC35})
}

func runC35(c *Ctx) {
	const which = "main"
	e := c.Engine(which)
	if e == nil {
		return
	}
	any := func(src string, set term.Set) bool { return e.T.Any(c.pats(which, nil, src)[0], set, nil) }
	// the ABI definition functions stay opaque: encoder and decoder must call the same one
	defs := map[string]bool{xferT + ".getICS20ABI": true, gmpT + ".getICS27PacketABI": true, gmpT + ".getICS27AckABI": true}
	e.PureFn = func(k string) bool { return defs[k] }
	e.NoInline = func(k string) bool { return defs[k] || interp.DefaultNoInline(k) }
	// ---- (1) unknown fields are rejected before every protobuf decode
	for _, fk := range []string{xferT + ".UnmarshalPacketData", gmpT + ".UnmarshalPacketData", gmpT + ".UnmarshalAcknowledgement"} {
		rr := c.Run(which, fk)
		if rr == nil {
			continue
		}
		c.Check(which, "C35/proto/"+shortEntry(fk), c.Calls(rr, "proto.Unmarshal"), 1, nil, nil,
			Req{Name: "unknown-fields-rejected-first", Args: map[int]string{0: "param#0"}, Any: all("ok(call:unknownproto.RejectUnknownFieldsStrict(param#0, _, _))")})
	}
	// ---- (2) encoder and decoder dispatch the same encodings
	for _, pair := range [][2]string{{xferT + ".MarshalPacketData", xferT + ".UnmarshalPacketData"}, {gmpT + ".MarshalPacketData", gmpT + ".UnmarshalPacketData"}, {gmpT + ".MarshalAcknowledgement", gmpT + ".UnmarshalAcknowledgement"}} {
		enc, dec := c.switchStrings(which, pair[0]), c.switchStrings(which, pair[1])
		if enc == nil || dec == nil {
			continue
		}
		var onlyE, onlyD []string
		for s := range enc {
			if !dec[s] {
				onlyE = append(onlyE, s)
			}
		}
		for s := range dec {
			if !enc[s] && s != "" {
				onlyD = append(onlyD, s)
			}
		}
		sort.Strings(onlyE)
		sort.Strings(onlyD)
		if len(onlyE) == 0 && len(onlyD) == 0 && len(enc) >= 3 {
			var ks []string
			for s := range enc {
				ks = append(ks, s)
			}
			sort.Strings(ks)
			c.ok("C35/encodings-agree", pair[0]+" / "+pair[1], "", "both dispatch on "+strings.Join(ks, ", "))
		} else {
			c.bad("C35/encodings-agree", pair[0]+" / "+pair[1], "", fmt.Sprintf("encodings only encoded: %v; only decoded: %v", onlyE, onlyD))
		}
	}
	// ---- (3) ABI: same definition, one-to-one field mapping
	type abiPair struct {
		enc, dec, def string
		fields       []string // Go field names in tuple order
	}
	for _, x := range []abiPair{
		{xferT + ".EncodeABIFungibleTokenPacketData", xferT + ".DecodeABIFungibleTokenPacketData", xferT + ".getICS20ABI", []string{"Denom", "Sender", "Receiver", "Amount", "Memo"}},
		{gmpT + ".EncodeABIGMPPacketData", gmpT + ".DecodeABIGMPPacketData", gmpT + ".getICS27PacketABI", []string{"Sender", "Receiver", "Salt", "Payload", "Memo"}},
		{gmpT + ".EncodeABIAcknowledgement", gmpT + ".DecodeABIAcknowledgement", gmpT + ".getICS27AckABI", []string{"Result"}},
	} {
		for _, side := range []string{x.enc, x.dec} {
			rr := c.Run(which, side)
			if rr == nil {
				continue
			}
			method := "Pack"
			if side == x.dec {
				method = "Unpack"
			}
			c.Check(which, "C35/abi/definition", c.Calls(rr, "abi.Arguments."+method), 1, nil, nil,
				Req{Name: "arguments-from-the-shared-definition", Args: map[int]string{0: "call:" + x.def + "()"}})
		}
		// encoder: each tuple field is the same-named field of the input
		if rr := c.Run(which, x.enc); rr != nil {
			for _, ev := range c.Calls(rr, "abi.Arguments.Pack") {
				if len(ev.Args) < 2 {
					continue
				}
				good := true
				for _, f := range x.fields {
					want := "~wf(" + f + ", ~or(field:" + f + "(param#0), ~in(field:" + f + "(param#0))))"
					if !any(want, setOf(ev.Args[1])) {
						good = false
						c.bad("C35/abi/encode-fields", x.enc, e.P.Pos(ev.Instr.Pos()), "tuple field "+f+" is not taken from the input's "+f+": "+clip(e.T.String(ev.Args[1]), 160))
					}
				}
				if good {
					c.ok("C35/abi/encode-fields", x.enc, e.P.Pos(ev.Instr.Pos()), "tuple fields "+strings.Join(x.fields, ", ")+" taken from the same-named input fields")
				}
			}
		}
		// decoder: each output field is the same-named field of the unpacked tuple
		if rr := c.Run(which, x.dec); rr != nil {
			n := 0
			for _, ev := range rr.Events {
				if ev.Kind != "return" || len(ev.Args) != 2 || e.T.String(ev.Args[1]) != "nil" {
					continue
				}
				n++
				good := true
				for _, f := range x.fields {
					src := "field:" + f + "(index(extract:0(call:abi.Arguments.Unpack(_, param#0)), 0))"
					want := "ref(~wf(" + f + ", ~or(" + src + ", ~in(" + src + "))))"
					if !any(want, setOf(ev.Args[0])) {
						good = false
						c.bad("C35/abi/decode-fields", x.dec, e.P.Pos(ev.Instr.Pos()), "output field "+f+" is not taken from the tuple's "+f+": "+clip(e.T.String(ev.Args[0]), 200))
					}
				}
				if good {
					c.ok("C35/abi/decode-fields", x.dec, "", "output fields "+strings.Join(x.fields, ", ")+" taken from the same-named tuple fields")
				}
			}
			if n == 0 {
				c.bad("C35/abi/decode-fields", x.dec, "", "no success return")
			}
		}
	}
	// ---- (4) decoders contain no panicking construct (same lint and allow-list as C47)
	p := e.P
	var roots []*ssa.Function
	for _, k := range []string{xferT + ".UnmarshalPacketData", xferT + ".DecodeABIFungibleTokenPacketData", gmpT + ".UnmarshalPacketData", gmpT + ".UnmarshalAcknowledgement",
		gmpT + ".DecodeABIGMPPacketData", gmpT + ".DecodeABIAcknowledgement", "light-clients/attestations.ABIDecodePacketAttestation", "light-clients/attestations.ABIDecodeStateAttestation"} {
		if fn := p.Funcs[k]; fn != nil {
			roots = append(roots, fn)
		} else {
			c.undecided("C35/no-panic", k, "", "decoder not found")
		}
	}
	n, bad := 0, 0
	for fn := range reachableFrom(p, roots) {
		if !strings.HasPrefix(topKey(fn), "apps/") && !strings.HasPrefix(topKey(fn), "light-clients/") && !strings.HasPrefix(topKey(fn), "core/") {
			continue
		}
		n++
		for _, s := range panicConstructs(fn) {
			k := s.kind + "|" + topKey(fn)
			if _, ok := c47Allow[k]; ok {
				continue
			}
			bad++
			c.bad("C35/no-panic/"+s.kind, topKey(fn), p.Pos(s.tok), s.detail)
		}
	}
	if bad == 0 && n > 0 {
		c.ok("C35/no-panic", "decoders", "", fmt.Sprintf("%d ibc-go functions reachable from the decoders, no panicking construct outside the reasoned allow-list", n))
	}
}

// switchStrings: the string constants a function compares its encoding parameter with (its switch cases).
func (c *Ctx) switchStrings(which, key string) map[string]bool {
	e := c.Engine(which)
	fn := e.P.Funcs[key]
	if fn == nil {
		c.undecided("C35/encodings-agree", key, "", "function not found")
		return nil
	}
	// the encoding parameter is the last string parameter
	var enc *ssa.Parameter
	for _, p := range fn.Params {
		if p.Name() == "encoding" {
			enc = p
		}
	}
	if enc == nil {
		c.undecided("C35/encodings-agree", key, "", "no parameter named encoding")
		return nil
	}
	out := map[string]bool{}
	isEnc := func(v ssa.Value) bool {
		if v == ssa.Value(enc) {
			return true
		}
		if phi, ok := v.(*ssa.Phi); ok {
			for _, ed := range phi.Edges {
				if ed == ssa.Value(enc) {
					return true
				}
			}
		}
		return false
	}
	for _, b := range fn.Blocks {
		for _, ins := range b.Instrs {
			bo, ok := ins.(*ssa.BinOp)
			if !ok {
				continue
			}
			var k *ssa.Const
			if isEnc(bo.X) {
				k, _ = bo.Y.(*ssa.Const)
			} else if isEnc(bo.Y) {
				k, _ = bo.X.(*ssa.Const)
			}
			if k != nil && k.Value != nil {
				s := k.Value.ExactString()
				if len(s) >= 2 && s[0] == '"' {
					out[s[1:len(s)-1]] = true
				}
			}
		}
	}
	return out
}
