package rules

import (
	"fmt"
	"sort"
	"strings"

	"ibcverif/interp"
	"ibcverif/term"
)

const (
	xfer  = "apps/transfer/keeper.Keeper"
	xferT = "apps/transfer/types"
	bankK = "call:iface:apps/transfer/types.BankKeeper."
)

func init() {
	Register(&Prop{ID: "C30", Title: "ICS-20 conserves tokens across chains",
		Technique: "abstract interpretation (go/ssa): exhaustive bank-effect table of every ICS-20 handler on its success returns (which bank calls, with which accounts, coins and guards — and no others), symmetry of the send and refund tables under the same source/sink predicate, argument binding from the v1 and v2 module callbacks into the keeper, who-may-call table of the bank's mutating methods inside the transfer module",
		LevelText: "Decides the local clauses from which conservation follows by induction over packet lifecycles (given exactly-once delivery, C01–C11): on success SendTransfer performs exactly {module-transfer+burn of the sent coin} when the denom is prefixed by the sending channel and exactly {move of the sent coin from the sender to that channel's escrow account (tracked)} otherwise; OnRecvPacket performs exactly {release of amount×(denom minus its first hop) from the receiving channel's escrow to the receiver} when the denom is prefixed by the packet's source channel and exactly {mint of amount×(denom plus the receiving hop) and its transfer from the module to the receiver} otherwise; a refund performs exactly the inverse of the send for the same predicate, coin and sender; a success acknowledgement performs no bank call; the v1 and v2 callbacks pass the packet's own port/channel identifiers and the token decoded from the packet; and no other function of the transfer module calls a balance-changing bank method. Does not decide the global invariant over interleavings itself, nor bank-module behaviour. The check additionally re-runs the rules of the packet-lifecycle properties conservation rests on (C01, C03, C04, C05, C06, C09, C10, C11: a packet delivered twice, both received and timed out, acknowledged without proof, or whose failed receive keeps state, breaks conservation).",
		Note:      "go/types + go/ssa; x/bank trusted", Design: "§5 C30", Run: runC30, Deps: []string{"C01", "C03", "C04", "C05", "C06", "C09", "C10", "C11"}})
	Register(&Prop{ID: "C31", Title: "Tracked total escrow equals net IBC escrow movements",
		Technique: "abstract interpretation (go/ssa): pairing of every bank move into/out of an escrow account with the total-escrow update by the same coin, who-may-call and store-writer tables for the total-escrow key, non-negativity guard of the setter",
		LevelText: "Decides that EscrowCoin/UnescrowCoin succeed only after the bank move between the given account and the escrow account succeeded and then store total±coin for the coin's denom; that every bank move whose source or destination is an escrow address happens inside one of these two functions (transfer module) or is paired with the same adjustment (packet-forward middleware); that only SetTotalEscrowForDenom writes the total-escrow key, that it refuses negative amounts by panicking and deletes the key for zero; and that it is called only by the escrow functions, genesis, the packet-forward middleware and migrations. Does not decide the inequality with the actual escrow balances over all histories (needs C30's induction).",
		Note:      "go/types + go/ssa; x/bank trusted", Design: "§5 C31", Run: runC31})
	Register(&Prop{ID: "C32", Title: "Failed transfers refund exactly the sent amount, exactly once",
		Technique: "abstract interpretation (go/ssa): refund effect table bound to the packet's own sender, denomination and amount; acknowledgement dispatch (success: no bank call; error: refund; v2: sentinel error or well-formed success only); timeout dispatch",
		LevelText: "Decides that a refund's only bank effects are, for the coin decoded from the packet's own token and the packet's own sender, either mint+module-to-sender (denom prefixed by the source channel: it was burnt on send) or escrow-to-sender from the source channel's escrow (it was escrowed on send), selected by the same predicate as the send; that acknowledgement handling refunds exactly when the acknowledgement is the error variant (v2: exactly when the bytes are the error sentinel; any other v2 acknowledgement must re-marshal to the same bytes and be a success) and performs no bank call for a success; and that timeouts go to the same refund with the packet's source port/channel. Also decides that core hands acknowledgements and timeouts (v1 timeout, timeout-on-close, v2) to the application on the message's own context, so the refund is kept with the transaction that deletes the commitment. Exactly-once follows from the packet lifecycle properties (C03, C06), whose rules the check re-runs.",
		Note:      "go/types + go/ssa", Design: "§5 C32", Run: runC32, Deps: []string{"C03", "C06"}})
}

// effectCase is one admissible set of balance-changing bank calls on a success return.
type effectCase struct {
	name    string
	guards  []string // atoms that must hold
	effects []string // bank call atoms (patterns, without the "call:iface:…BankKeeper." prefix) that must be exactly the bank effects
}

var bankMutators = []string{"SendCoins", "SendCoinsFromAccountToModule", "SendCoinsFromModuleToAccount", "MintCoins", "BurnCoins"}

// bankEffects lists the balance-changing bank call atoms of a set.
func (c *Ctx) bankEffects(which string, atoms term.Set) []term.ID {
	e := c.Engine(which)
	var out []term.ID
	for _, at := range atoms {
		op := e.T.Op(at)
		for _, m := range bankMutators {
			if op == "call:iface:"+xferT+".BankKeeper."+m {
				out = append(out, at)
			}
		}
	}
	return out
}

// effectTable requires every success return class of rr to realise exactly one of the cases.
func (c *Ctx) effectTable(which, rule string, rr *interp.RunResult, sel func(*interp.Ret) bool, m Macros, cases []effectCase) {
	e := c.Engine(which)
	fk := keyOf(rr)
	seen := map[string]int{}
	n := 0
	for _, r := range rr.Rets {
		if !sel(r) {
			continue
		}
		n++
		atoms := successAtoms(e, r)
		effs := c.bankEffects(which, atoms)
		matched := ""
		var why []string
		// a bank call made on only some of the paths merged into this class is not in the must-set: it cannot
		// be matched against a case, so it is reported
		if extra := c.bankEffects(which, r.May); len(extra) > 0 {
			c.bad(rule, fk, "", "a success return class merges paths of which only some make the bank call "+clip(e.T.String(extra[0]), 160))
			continue
		}
		for _, cs := range cases {
			env := term.Env{}
			ok, miss, env2 := c.Holds(e, atoms, env, c.pats(which, m, cs.guards...))
			if !ok {
				why = append(why, cs.name+": guard "+clip(miss, 100))
				continue
			}
			// every expected effect present (as a successful call), every present effect expected
			good := true
			used := map[term.ID]bool{}
			for _, ef := range cs.effects {
				p := c.pats(which, m, bankK+ef)[0]
				found := false
				for _, at := range effs {
					if !used[at] && e.T.Match(p, at, env2, func(term.Env) bool { return true }) {
						// the call must have succeeded
						if c.succeeded(e, atoms, at) {
							used[at] = true
							found = true
							break
						}
					}
				}
				if !found {
					good = false
					why = append(why, cs.name+": missing effect "+clip(ef, 120))
					break
				}
			}
			if good && len(used) != len(effs) {
				good = false
				for _, at := range effs {
					if !used[at] {
						why = append(why, cs.name+": unexpected bank call "+clip(e.T.String(at), 160))
					}
				}
			}
			if good {
				matched = cs.name
				break
			}
		}
		if matched == "" {
			c.bad(rule, fk, "", "a success return realises none of the admissible bank-effect cases: "+strings.Join(why, " | "))
		} else {
			seen[matched]++
		}
	}
	if n == 0 {
		c.bad(rule, fk, "", "no success return class")
		return
	}
	var names []string
	for _, cs := range cases {
		if seen[cs.name] == 0 {
			c.bad(rule+"/"+cs.name, fk, "", "no success return realises this case (table out of date or a branch was lost)")
		} else {
			names = append(names, fmt.Sprintf("%s×%d", cs.name, seen[cs.name]))
		}
	}
	sort.Strings(names)
	c.ok(rule, fk, "", "success return classes: "+strings.Join(names, ", "))
}

// succeeded: the call atom is known to have returned a nil error in this class.
func (c *Ctx) succeeded(e *interp.Engine, atoms term.Set, call term.ID) bool {
	return atoms.Has(e.T.Mk("ok", call))
}

func keyOf(rr *interp.RunResult) string {
	return runKey(rr)
}

func anyRet(*interp.Ret) bool { return true }

var ics20Macros = Macros{
	"BANK":   "field:BankKeeper(param#0)",
	"MODULE": "call:iface:" + xferT + ".AccountKeeper.GetModuleAddress(field:AuthKeeper(param#0), \"transfer\")",
}

func ics20Engine(c *Ctx, which string) *interp.Engine {
	e := c.Engine(which)
	if e != nil && e.PureFn == nil {
		ApplyProfile(e, "ics20")
	}
	return e
}

func runC30(c *Ctx) {
	const which = "main"
	e := ics20Engine(c, which)
	if e == nil {
		return
	}
	c.ics20SendRecvTables(which, "C30")
	c.ics20RefundTable(which, "C30")
	c.ics20Dispatch(which, "C30")
	c.ics20Callbacks(which, "C30")
	c.ics20BankCallers(which, "C30")
}

// SendTransfer and OnRecvPacket
func (c *Ctx) ics20SendRecvTables(which, pfx string) {
	e := c.Engine(which)
	// SendTransfer(k#0, ctx#1, port#2, chan#3, token#4, sender#5)
	if rr := c.Run(which, xfer+".SendTransfer"); rr != nil {
		coin := "call:sdk.NewCoins(extract:0(call:" + xferT + ".Token.ToCoin(param#4)))"
		pred := "call:" + xferT + ".Denom.HasPrefix(field:Denom(param#4), param#2, param#3)"
		c.effectTable(which, pfx+"/send", rr, NilErr(e), ics20Macros, []effectCase{
			{name: "returning-voucher-burnt", guards: []string{"T(" + pred + ")"},
				effects: []string{"SendCoinsFromAccountToModule($BANK, param#1, param#5, \"transfer\", " + coin + ")", "BurnCoins($BANK, param#1, \"transfer\", " + coin + ")"}},
			{name: "escrowed-in-source-channel-escrow", guards: []string{"F(" + pred + ")",
				"call:" + xfer + ".SetTotalEscrowForDenom(param#0, param#1, call:sdk.Coin.Add(call:" + xfer + ".GetTotalEscrowForDenom(param#0, param#1, _), extract:0(call:" + xferT + ".Token.ToCoin(param#4))))"},
				effects: []string{"SendCoins($BANK, param#1, param#5, call:" + xferT + ".GetEscrowAddress(param#2, param#3), " + coin + ")"}},
		})
	}
	// OnRecvPacket(k#0, ctx#1, data#2, srcPort#3, srcChan#4, dstPort#5, dstChan#6)
	if rr := c.Run(which, xfer+".OnRecvPacket"); rr != nil {
		den := "field:Denom(field:Token(param#2))"
		amt := "extract:0(call:sdkmath.NewIntFromString(field:Amount(field:Token(param#2))))"
		recv := "extract:0(call:iface:*Codec.StringToBytes(field:addressCodec(param#0), field:Receiver(param#2)))"
		pred := "call:" + xferT + ".Denom.HasPrefix(" + den + ", param#3, param#4)"
		home := "call:sdk.NewCoins(call:sdk.NewCoin(call:" + xferT + ".Denom.IBCDenom(with:Trace(" + den + ", slice(field:Trace(" + den + "), 1, nil))), " + amt + "))"
		voucher := "call:sdk.NewCoins(call:sdk.NewCoin(call:" + xferT + ".Denom.IBCDenom(with:Trace(" + den + ", append(arr(call:" + xferT + ".NewHop(param#5, param#6)), field:Trace(" + den + ")))), " + amt + "))"
		c.effectTable(which, pfx+"/recv", rr, NilErr(e), ics20Macros, []effectCase{
			{name: "returning-home-released-from-receiving-channel-escrow", guards: []string{"T(" + pred + ")", "ok(call:" + xferT + ".InternalTransferRepresentation.ValidateBasic(param#2))"},
				effects: []string{"SendCoins($BANK, param#1, call:" + xferT + ".GetEscrowAddress(param#5, param#6), " + recv + ", " + home + ")"}},
			{name: "voucher-minted-with-receiving-hop", guards: []string{"F(" + pred + ")", "ok(call:" + xferT + ".InternalTransferRepresentation.ValidateBasic(param#2))"},
				effects: []string{"MintCoins($BANK, param#1, \"transfer\", " + voucher + ")", "SendCoins($BANK, param#1, $MODULE, " + recv + ", " + voucher + ")"}},
		})
		// the release is tracked
		c.CheckRets(which, pfx+"/recv/tracked", rr, func(r *interp.Ret) bool {
			return NilErr(e)(r) && e.T.Any(c.pats(which, nil, "T("+pred+")")[0], r.Atoms, nil)
		}, 1, nil, Req{Name: "total-escrow-decreased-by-the-released-coin", Any: all(
			"call:"+xfer+".SetTotalEscrowForDenom(param#0, param#1, call:sdk.Coin.Sub(call:"+xfer+".GetTotalEscrowForDenom(param#0, param#1, _), call:sdk.NewCoin(call:"+xferT+".Denom.IBCDenom(with:Trace("+den+", slice(field:Trace("+den+"), 1, nil))), "+amt+")))")})
	}
}

// refundPacketTokens(k#0, ctx#1, port#2, chan#3, data#4)
func (c *Ctx) ics20RefundTable(which, pfx string) {
	e := c.Engine(which)
	rr := c.Run(which, xfer+".refundPacketTokens")
	if rr == nil {
		return
	}
	coin := "call:sdk.NewCoins(extract:0(call:" + xferT + ".Token.ToCoin(field:Token(param#4))))"
	snd := "extract:0(call:iface:*Codec.StringToBytes(field:addressCodec(param#0), field:Sender(param#4)))"
	pred := "call:" + xferT + ".Denom.HasPrefix(field:Denom(field:Token(param#4)), param#2, param#3)"
	c.effectTable(which, pfx+"/refund", rr, NilErr(e), ics20Macros, []effectCase{
		{name: "burnt-on-send-minted-back", guards: []string{"T(" + pred + ")"},
			effects: []string{"MintCoins($BANK, param#1, \"transfer\", " + coin + ")", "SendCoins($BANK, param#1, $MODULE, " + snd + ", " + coin + ")"}},
		{name: "escrowed-on-send-released-from-source-channel-escrow", guards: []string{"F(" + pred + ")",
			"call:" + xfer + ".SetTotalEscrowForDenom(param#0, param#1, call:sdk.Coin.Sub(call:" + xfer + ".GetTotalEscrowForDenom(param#0, param#1, _), extract:0(call:" + xferT + ".Token.ToCoin(field:Token(param#4)))))"},
			effects: []string{"SendCoins($BANK, param#1, call:" + xferT + ".GetEscrowAddress(param#2, param#3), " + snd + ", " + coin + ")"}},
	})
}

// acknowledgement / timeout dispatch in the keeper
func (c *Ctx) ics20Dispatch(which, pfx string) {
	e := c.Engine(which)
	// OnAcknowledgementPacket(k#0, ctx#1, port#2, chan#3, data#4, ack#5)
	if rr := c.Run(which, xfer+".OnAcknowledgementPacket"); rr != nil {
		fk := xfer + ".OnAcknowledgementPacket"
		refund := c.pats(which, nil, "ok(call:"+xfer+".refundPacketTokens(param#0, param#1, param#2, param#3, param#4))")[0]
		isRes := c.pats(which, nil, "T(istype:*core/04-channel/types.Acknowledgement_Result(field:Response(param#5)))")[0]
		isErr := c.pats(which, nil, "T(istype:*core/04-channel/types.Acknowledgement_Error(field:Response(param#5)))")[0]
		nRes, nErr := 0, 0
		for _, r := range rr.Rets {
			if !NilErr(e)(r) {
				continue
			}
			atoms := successAtoms(e, r)
			effs := c.bankEffects(which, atoms)
			switch {
			case e.T.Any(refund, atoms, nil):
				nErr++
				if !e.T.Any(isErr, atoms, nil) {
					c.bad(pfx+"/ack/error-refunds", fk, "", "a refund happens on a path that has not established the acknowledgement to be the error variant")
				}
			default:
				nRes++
				if len(effs) > 0 {
					c.bad(pfx+"/ack/success-no-effects", fk, "", "a success return without refund performs a bank call: "+clip(e.T.String(effs[0]), 160))
				}
				if !e.T.Any(isRes, atoms, nil) {
					c.bad(pfx+"/ack/success-no-effects", fk, "", "returns nil without refund although the acknowledgement is not established to be the result variant")
				}
			}
		}
		if nRes > 0 && nErr > 0 {
			c.ok(pfx+"/ack/success-no-effects", fk, "", fmt.Sprintf("%d success class(es) without any bank call", nRes))
			c.ok(pfx+"/ack/error-refunds", fk, "", fmt.Sprintf("%d class(es) refund via refundPacketTokens with the handler's own arguments", nErr))
		} else {
			c.bad(pfx+"/ack", fk, "", fmt.Sprintf("expected a result class and an error class, got %d/%d", nRes, nErr))
		}
	}
	// OnTimeoutPacket(k#0, ctx#1, port#2, chan#3, data#4)
	if rr := c.Run(which, xfer+".OnTimeoutPacket"); rr != nil {
		c.CheckRets(which, pfx+"/timeout", rr, NilErr(e), 1, nil,
			Req{Name: "refunds-with-own-arguments", Any: all("ok(call:" + xfer + ".refundPacketTokens(param#0, param#1, param#2, param#3, param#4))")})
	}
}

// module callbacks (v1 and v2) hand the keeper the packet's own identifiers and token
func (c *Ctx) ics20Callbacks(which, pfx string) {
	e := c.Engine(which)
	// ---- v1 send: transferV1Packet(k#0, ctx#1, sourceChannel#2, token#3, timeoutHeight#4, timeoutTimestamp#5, sender#6, packetData#7)
	if rr := c.Run(which, xfer+".transferV1Packet"); rr != nil {
		c.Check(which, pfx+"/v1/send", c.Calls(rr, xfer+".SendTransfer"), 1, nil, nil,
			Req{Name: "debits-on-the-sending-channel", Args: map[int]string{2: `"transfer"`, 3: "param#2", 4: "param#3", 5: "param#6"}})
		c.Check(which, pfx+"/v1/send", c.Calls(rr, "iface:core/05-port/types.ICS4Wrapper.SendPacket"), 1, nil, nil,
			Req{Name: "packet-sent-on-the-debited-channel-after-debit", Args: map[int]string{2: `"transfer"`, 3: "param#2", 6: "~or(call:" + xferT + ".FungibleTokenPacketData.GetBytes(param#7), extract:0(call:encoding/json.Marshal(param#7)))"},
				Any: all("ok(call:" + xfer + `.SendTransfer(param#0, param#1, "transfer", param#2, param#3, param#6))`)})
	}
	// Transfer(k#0, ctx#1, msg#2): packet data is built from the token that is debited
	if rr := c.Run(which, xfer+".Transfer"); rr != nil {
		tok := "extract:0(call:" + xfer + ".TokenFromCoin(param#0, _, ?coin))"
		c.Check(which, pfx+"/v1/msg", c.Calls(rr, xfer+".transferV1Packet"), 1, nil, nil,
			Req{Name: "packet-data-describes-the-debited-token", Args: map[int]string{2: "field:SourceChannel(param#2)", 3: "~and(?tok, " + tok + ")",
				7: "~and(~wf(Denom, call:" + xferT + ".Denom.Path(field:Denom(?tok))), ~wf(Amount, field:Amount(?tok)), ~wf(Sender, field:Sender(param#2)), ~wf(Receiver, field:Receiver(param#2)))"}})
	}
	type cb struct {
		entry, callee string
		args          map[int]string
		min           int
	}
	pk := "param#3" // v1: (im#0, ctx#1, channelVersion#2, packet#3, ...)
	v1data := "extract:0(call:" + xferT + ".UnmarshalPacketData(~or(field:Data(" + pk + "), call:core/04-channel/types.Packet.GetData(" + pk + ")), _, _))"
	for _, x := range []cb{
		{"apps/transfer.IBCModule.OnRecvPacket", xfer + ".OnRecvPacket", map[int]string{2: "~or(" + v1data + ", esc#*, addr#*)",
			3: "field:SourcePort(" + pk + ")", 4: "field:SourceChannel(" + pk + ")", 5: "field:DestinationPort(" + pk + ")", 6: "field:DestinationChannel(" + pk + ")"}, 1},
		{"apps/transfer.IBCModule.OnAcknowledgementPacket", xfer + ".OnAcknowledgementPacket", map[int]string{2: "field:SourcePort(" + pk + ")", 3: "field:SourceChannel(" + pk + ")"}, 1},
		{"apps/transfer.IBCModule.OnTimeoutPacket", xfer + ".OnTimeoutPacket", map[int]string{2: "field:SourcePort(" + pk + ")", 3: "field:SourceChannel(" + pk + ")"}, 1},
	} {
		if rr := c.Run(which, x.entry); rr != nil {
			c.Check(which, pfx+"/v1/callbacks/"+shortEntry(x.entry), c.Calls(rr, x.callee), x.min, nil, nil, Req{Name: "packet-identifiers", Args: x.args})
		}
	}
	// ---- v2: (im#0, ctx#1, sourceChannel#2, destinationChannel#3, sequence#4, payload#5, signer/relayer#6) ; ack: (.., acknowledgement#5, payload#6, relayer#7)
	v2 := "apps/transfer/v2.IBCModule."
	data := func(p string) string {
		return "extract:0(call:" + xferT + ".UnmarshalPacketData(field:Value(" + p + "), field:Version(" + p + "), field:Encoding(" + p + ")))"
	}
	if rr := c.Run(which, v2+"OnSendPacket"); rr != nil {
		c.Check(which, pfx+"/v2/send", c.Calls(rr, xfer+".SendTransfer"), 1, nil, nil,
			Req{Name: "debits-the-signer-on-the-sending-client", Args: map[int]string{2: "field:SourcePort(param#5)", 3: "param#2", 4: "field:Token(" + data("param#5") + ")", 5: "param#6"},
				Any: all("T(call:bytes.Equal(extract:0(call:iface:*Codec.StringToBytes(_, field:Sender("+data("param#5")+"))), param#6))",
					`eq(field:SourcePort(param#5), "transfer")`, `eq(field:DestinationPort(param#5), "transfer")`)})
	}
	if rr := c.Run(which, v2+"OnRecvPacket"); rr != nil {
		c.Check(which, pfx+"/v2/recv", c.Calls(rr, xfer+".OnRecvPacket"), 1, nil, nil,
			Req{Name: "packet-identifiers", Args: map[int]string{2: "~or(" + data("param#5") + ", esc#*, addr#*)", 3: "field:SourcePort(param#5)", 4: "param#2", 5: "field:DestinationPort(param#5)", 6: "param#3"},
				Any: all(`eq(field:SourcePort(param#5), "transfer")`, `eq(field:DestinationPort(param#5), "transfer")`)})
	}
	if rr := c.Run(which, v2+"OnTimeoutPacket"); rr != nil {
		c.Check(which, pfx+"/v2/timeout", c.Calls(rr, xfer+".OnTimeoutPacket"), 1, nil, nil,
			Req{Name: "packet-identifiers", Args: map[int]string{2: "field:SourcePort(param#5)", 3: "param#2", 4: data("param#5")}})
	}
	if rr := c.Run(which, v2+"OnAcknowledgementPacket"); rr != nil {
		c.Check(which, pfx+"/v2/ack", c.Calls(rr, xfer+".OnAcknowledgementPacket"), 1, nil, nil,
			Req{Name: "packet-identifiers", Args: map[int]string{2: "field:SourcePort(param#6)", 3: "param#2", 4: data("param#6")}})
	}
	_ = e
}

// only the keeper's relay functions call balance-changing bank methods inside the transfer module
func (c *Ctx) ics20BankCallers(which, pfx string) {
	e := c.Engine(which)
	allowed := map[string]bool{
		xfer + ".SendTransfer": true, xfer + ".OnRecvPacket": true, xfer + ".refundPacketTokens": true,
		xfer + ".EscrowCoin": true, xfer + ".UnescrowCoin": true,
	}
	n := 0
	mut := map[string]bool{}
	for _, m := range bankMutators {
		mut[m] = true
	}
	for key, fn := range e.P.Funcs {
		if !strings.HasPrefix(key, "apps/transfer") || fn.Blocks == nil {
			continue
		}
		for _, site := range invokeSites(fn) {
			if !mut[site.method] || !strings.HasSuffix(site.iface, "BankKeeper") {
				continue
			}
			n++
			top := topKey(fn)
			if allowed[top] {
				continue
			}
			c.bad(pfx+"/bank-callers", top, e.P.Pos(site.pos), "calls BankKeeper."+site.method+" outside the ICS-20 relay functions")
		}
	}
	if n >= 6 {
		c.ok(pfx+"/bank-callers", "apps/transfer", "", fmt.Sprintf("%d balance-changing bank call sites, all inside SendTransfer, OnRecvPacket, refundPacketTokens, EscrowCoin, UnescrowCoin", n))
	} else {
		c.bad(pfx+"/bank-callers", "apps/transfer", "", fmt.Sprintf("only %d balance-changing bank call sites found", n))
	}
}

func runC31(c *Ctx) {
	const which = "main"
	e := ics20Engine(c, which)
	if e == nil {
		return
	}
	// EscrowCoin(k#0, ctx#1, sender#2, escrow#3, coin#4) / UnescrowCoin(k#0, ctx#1, escrow#2, receiver#3, coin#4)
	for _, x := range []struct{ fn, op string }{{"EscrowCoin", "Add"}, {"UnescrowCoin", "Sub"}} {
		rr := c.Run(which, xfer+"."+x.fn)
		if rr == nil {
			continue
		}
		c.effectTable(which, "C31/"+x.fn, rr, NilErr(e), ics20Macros, []effectCase{
			{name: "move-then-track", guards: []string{
				"call:" + xfer + ".SetTotalEscrowForDenom(param#0, param#1, call:sdk.Coin." + x.op + "(call:" + xfer + ".GetTotalEscrowForDenom(param#0, param#1, call:sdk.Coin.GetDenom(~or(param#4, ref(param#4)))), param#4))"},
				effects: []string{"SendCoins($BANK, param#1, param#2, param#3, call:sdk.NewCoins(param#4))"}},
		})
		// the total is not touched when the move fails
		c.Check(which, "C31/"+x.fn+"/order", c.Calls(rr, xfer+".SetTotalEscrowForDenom"), 1, ics20Macros, nil,
			Req{Name: "after-successful-move", Any: all("ok(" + bankK + "SendCoins($BANK, param#1, param#2, param#3, call:sdk.NewCoins(param#4)))")})
	}
	// every move to/from an escrow address inside the transfer keeper's handlers is inside Escrow/UnescrowCoin
	esc := c.pats(which, nil, "call:"+xferT+".GetEscrowAddress(_, _)")[0]
	for _, en := range []string{xfer + ".SendTransfer", xfer + ".OnRecvPacket", xfer + ".refundPacketTokens"} {
		rr := c.Run(which, en)
		if rr == nil {
			continue
		}
		n := 0
		for _, ev := range c.Calls(rr, "iface:"+xferT+".BankKeeper.SendCoins") {
			if len(ev.Args) < 4 || !(e.T.Any(esc, setOf(ev.Args[2]), nil) || e.T.Any(esc, setOf(ev.Args[3]), nil)) {
				continue
			}
			n++
			in := false
			for _, s := range ev.Stack {
				if strings.HasSuffix(s, ".EscrowCoin") || strings.HasSuffix(s, ".UnescrowCoin") {
					in = true
				}
			}
			if !in {
				c.bad("C31/escrow-moves-tracked", en, e.P.Pos(ev.Instr.Pos()), "moves coins to/from an escrow address outside EscrowCoin/UnescrowCoin (total escrow not adjusted)")
			}
		}
		if n > 0 {
			c.ok("C31/escrow-moves-tracked", en, "", fmt.Sprintf("%d escrow move(s), all through EscrowCoin/UnescrowCoin", n))
		} else {
			c.bad("C31/escrow-moves-tracked", en, "", "no escrow move found")
		}
	}
	// SetTotalEscrowForDenom(k#0, ctx#1, coin#2): refuses negative amounts, deletes at zero, writes the denom's key
	if rr := c.Run(which, xfer+".SetTotalEscrowForDenom"); rr != nil {
		fk := xfer + ".SetTotalEscrowForDenom"
		neg := "call:sdkmath.Int.IsNegative(field:Amount(param#2))"
		nP := 0
		for _, ev := range rr.Events {
			if ev.Kind == "panic" {
				nP++
			}
		}
		bad := false
		for _, ev := range rr.Events {
			if ev.Kind != "return" {
				continue
			}
			if !e.T.Any(c.pats(which, nil, "F("+neg+")")[0], ev.Atoms, nil) {
				bad = true
				c.bad("C31/setter/non-negative", fk, e.P.Pos(ev.Instr.Pos()), "returns normally without having established that the amount is not negative")
			}
		}
		if !bad && nP > 0 {
			c.ok("C31/setter/non-negative", fk, "", "normal return only for a non-negative amount; otherwise panics")
		} else if nP == 0 {
			c.bad("C31/setter/non-negative", fk, "", "no panic on a negative amount")
		}
		key := `~key("totalEscrowForDenom/{s}", field:Denom(param#2))`
		c.Exists(which, "C31/setter", fk, rr.Events, nil,
			Req{Name: "writes-the-denoms-key", Args: map[int]string{1: key}, Any: all("F(" + neg + ")")})
	}
	c.WriterTable(which, "C31/store-writers", []FamilyRule{
		{Family: "totalEscrowForDenom/", Ops: "set", Allowed: []string{xfer + ".SetTotalEscrowForDenom"}, Min: 1},
		{Family: "totalEscrowForDenom/", Ops: "delete", Allowed: []string{xfer + ".SetTotalEscrowForDenom"}, Min: 1},
	})
	c.CallerTable(which, "C31/setter-callers", []CallerRule{
		{Callee: xfer + ".SetTotalEscrowForDenom", Allowed: []string{
			xfer + ".EscrowCoin", xfer + ".UnescrowCoin", xfer + ".InitGenesis", xfer + ".setTotalEscrowFromGenesis",
			"apps/packet-forward-middleware/migrations/v3.Migrate",
			"apps/transfer/keeper.Migrator.MigrateTotalEscrowForDenom", "apps/transfer/keeper.Migrator.MigrateDenomTraceToDenom",
			"apps/packet-forward-middleware/keeper.Keeper.WriteAcknowledgementForForwardedPacket", "apps/packet-forward-middleware/keeper.Keeper.unescrowToken", "apps/packet-forward-middleware/keeper.Keeper.moveEscrowToken",
		}, Min: 2},
	})
	// the packet-forward middleware moves coins in and out of escrow accounts itself when it refunds a failed
	// forward: each of its cases must adjust the tracked total by exactly the coin that is burned from / minted into
	// an escrow account (and leave it alone for the escrow→escrow move)
	old := e.Seams
	pfmSeams(e)
	pfmAckTable(c, e, "C31/pfm-refund")
	e.Seams = old
}

func runC32(c *Ctx) {
	const which = "main"
	e := ics20Engine(c, which)
	if e == nil {
		return
	}
	c.ics20RefundTable(which, "C32")
	c.ics20Dispatch(which, "C32")
	// core hands the acknowledgement / timeout to the application on the message's own context (the one whose
	// writes are kept with the transaction, and on which the commitment was deleted) — a callback run on a branch
	// that is never written back would lose the refund while the commitment is gone for good
	for _, x := range []struct{ entry, seam, name string }{
		{entryAck1, seamAck1, "ack-v1"}, {entryTimeout1, seamTimeout1, "timeout-v1"}, {entryTimeoutC1, seamTimeout1, "timeout-on-close-v1"},
		{entryAck2, seamAck2, "ack-v2"}, {entryTimeout2, seamTimeout2, "timeout-v2"},
	} {
		if rr := c.Run(which, x.entry); rr != nil {
			c.Check(which, "C32/core/"+x.name, c.Calls(rr, x.seam), 1, pktMacros, nil,
				Req{Name: "callback-on-the-kept-context", Args: map[int]string{1: "$ECTX"}})
		}
	}
	// v1 module: the acknowledgement is decoded from the bytes, the data from the packet
	if rr := c.Run(which, "apps/transfer.IBCModule.OnAcknowledgementPacket"); rr != nil {
		c.Check(which, "C32/v1/ack", c.Calls(rr, xfer+".OnAcknowledgementPacket"), 1, nil, nil,
			Req{Name: "decoded-ack-and-own-packet", Args: map[int]string{1: "param#1", 2: "field:SourcePort(param#3)", 3: "field:SourceChannel(param#3)", 5: "~or(esc#*, addr#*, deref(_))"},
				Any: all("ok(call:codec.ProtoCodec.UnmarshalJSON(_, param#4, _))")})
	}
	if rr := c.Run(which, "apps/transfer.IBCModule.OnTimeoutPacket"); rr != nil {
		c.Check(which, "C32/v1/timeout", c.Calls(rr, xfer+".OnTimeoutPacket"), 1, nil, nil,
			Req{Name: "own-packet", Args: map[int]string{1: "param#1", 2: "field:SourcePort(param#3)", 3: "field:SourceChannel(param#3)"}})
	}
	// v2: sentinel => error ack; anything else must round-trip and be a success
	if rr := c.Run(which, "apps/transfer/v2.IBCModule.OnAcknowledgementPacket"); rr != nil {
		sentinel := "call:bytes.Equal(param#5, gaddr:core/04-channel/v2/types.ErrorAcknowledgement)"
		c.Check(which, "C32/v2/ack", c.Calls(rr, xfer+".OnAcknowledgementPacket"), 1, nil, nil,
			Req{Name: "error-iff-sentinel-else-wellformed-success", Args: map[int]string{1: "param#1", 5: "?ack"}, Any: [][]string{
				{"T(" + sentinel + ")", "~is(?ack, call:core/04-channel/types.NewErrorAcknowledgement(_))"},
				{"F(" + sentinel + ")", "ok(call:codec.ProtoCodec.UnmarshalJSON(_, param#5, _))", "T(call:core/04-channel/types.Acknowledgement.Success(?ack))",
					"T(call:bytes.Equal(call:codec.ProtoCodec.MustMarshalJSON(_, ref(?ack)), param#5))"},
			}})
	}
}
