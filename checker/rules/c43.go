package rules

import (
	"fmt"
	"strings"

	"ibcverif/interp"
	"ibcverif/term"
)

const (
	pfmK  = "apps/packet-forward-middleware/keeper.Keeper"
	pfmM  = "apps/packet-forward-middleware.IBCMiddleware"
	pfmBK = "call:iface:apps/packet-forward-middleware/types.BankKeeper."
)

func init() {
	Register(&Prop{ID: "C43", Title: "Packet forwarding is all-or-nothing and conserves tokens",
		Technique: "abstract interpretation (go/ssa): sibling agreement between the forwarded-denomination function and ICS-20's receive decision; argument binding of the intercepted receive (override receiver, emptied memo, success required) and of the forward (sender = override receiver, coin = denomination credited here × packet amount, refund record = the incoming packet's identifiers); exhaustive bank-effect table of the refund on a failed forward with the matching total-escrow adjustment and the upstream acknowledgement; dispatch of acknowledgements, timeouts and retries",
		LevelText: "Decides the local clauses from which all-or-nothing and conservation follow by induction over hops (given ICS-20's own tables, C30–C32): the denomination forwarded is computed by the same case split as ICS-20's receive (source-prefixed: first hop removed; otherwise receiving hop prepended) with the packet's own identifiers; funds are first received by the underlying application into the override account derived from (destination channel, original sender) with the memo emptied, and nothing is forwarded unless that receive acknowledged success; the forward is a transfer from exactly that override account of exactly amount×that denomination, and the in-flight record stores the incoming packet's destination port/channel, sequence, data and original sender; when a forwarded packet is acknowledged, a success is passed upstream with no bank call, while a failure performs exactly one of three refund cases (escrow→refund escrow; escrow→module, burn, total escrow decreased; mint, module→refund escrow, total escrow increased) selected by the denomination's prefix relation to the forward channel and the refund channel, and then writes the error acknowledgement upstream for the recorded incoming packet; a timeout retries while retries remain (after the underlying application refunded the override account) and otherwise takes the failure path. Does not decide the multi-chain invariant itself. The check re-runs the ICS-20 rules it rests on (C30, C32).",
		Note:      "go/types + go/ssa; x/bank trusted", Design: "§5 C43", Run: runC43, Deps: []string{"C30", "C32"}})
}

func runC43(c *Ctx) {
	const which = "main"
	e := ics20Engine(c, which)
	if e == nil {
		return
	}
	any := func(src string, set term.Set) bool { return e.T.Any(c.pats(which, nil, src)[0], set, nil) }
	// the transfer keeper is an external contract of the middleware (its own behaviour is C30–C32)
	pfmSeams(e)
	// ---- getDenomForThisChain(port#0, channel#1, cpPort#2, cpChannel#3, denom#4)
	if rr := c.Run(which, "apps/packet-forward-middleware.getDenomForThisChain"); rr != nil {
		fk := "apps/packet-forward-middleware.getDenomForThisChain"
		pred := "call:" + xferT + ".Denom.HasPrefix(param#4, param#2, param#3)"
		minus := "with:Trace(param#4, slice(field:Trace(param#4), 1, nil))"
		plus := "with:Trace(param#4, append(arr(call:" + xferT + ".NewHop(param#0, param#1)), field:Trace(param#4)))"
		nB, nF := 0, 0
		for _, ev := range rr.Events {
			if ev.Kind != "return" || len(ev.Args) != 1 {
				continue
			}
			switch {
			case any("T("+pred+")", ev.Atoms) && (any("call:"+xferT+".Denom.IBCDenom("+minus+")", setOf(ev.Args[0])) || any("call:"+xferT+".Denom.Path("+minus+")", setOf(ev.Args[0])) && any("eq(len(slice(field:Trace(param#4), 1, nil)), 0)", ev.Atoms)):
				nB++
			case any("F("+pred+")", ev.Atoms) && any("call:"+xferT+".Denom.IBCDenom("+plus+")", setOf(ev.Args[0])):
				nF++
			default:
				c.bad("C43/denom", fk, e.P.Pos(ev.Instr.Pos()), "forwarded denomination is "+clip(e.T.String(ev.Args[0]), 160)+", not ICS-20's receive decision")
			}
		}
		if nB > 0 && nF > 0 {
			c.ok("C43/denom", fk, "", "source-prefixed: first hop removed; otherwise receiving hop prepended (the same split as ICS-20's OnRecvPacket)")
		} else {
			c.bad("C43/denom", fk, "", fmt.Sprintf("expected both cases, got %d/%d", nB, nF))
		}
	}
	// ---- OnRecvPacket(im#0, ctx#1, channelVersion#2, packet#3, relayer#4)
	if rr := c.Run(which, pfmM+".OnRecvPacket"); rr != nil {
		data := "~or(esc#*, deref(_), ref(_))"
		override := "~or(extract:0(call:apps/packet-forward-middleware.GetReceiver(_, field:DestinationChannel(param#3), field:Sender(" + data + "))), extract:0(call:iface:*Codec.BytesToString(_, slice(call:address.Hash(_, ~and(~in(field:DestinationChannel(param#3)), ~in(field:Sender(" + data + ")))), 0, 20))))"
		detail := "extract:0(call:" + xferT + ".PacketDataV1ToV2(" + data + "))"
		c.Check(which, "C43/recv/denom-call", c.Calls(rr, "apps/packet-forward-middleware.getDenomForThisChain"), 1, nil, nil,
			Req{Name: "packet-identifiers-and-parsed-denomination", Args: map[int]string{0: "field:DestinationPort(param#3)", 1: "field:DestinationChannel(param#3)", 2: "field:SourcePort(param#3)", 3: "field:SourceChannel(param#3)", 4: "field:Denom(field:Token(" + detail + "))"}})
		c.Check(which, "C43/recv/forward", c.Calls(rr, pfmK+".ForwardTransferPacket"), 1, nil, nil,
			Req{Name: "after-successful-receive-into-the-override-account", Args: map[int]string{2: "nil", 3: "param#3", 4: "field:Sender(" + data + ")", 5: override,
				7: "call:sdk.NewCoin(call:apps/packet-forward-middleware.getDenomForThisChain(...), extract:0(call:sdkmath.NewIntFromString(field:Amount(field:Token(" + detail + ")))))"},
				Any: all("ok(call:" + pfmM + ".receiveFunds(param#0, param#1, param#2, param#3, _, " + override + ", param#4))")})
	}
	// receiveFunds(im#0, ctx#1, channelVersion#2, packet#3, data#4, overrideReceiver#5, relayer#6)
	if rr := c.Run(which, pfmM+".receiveFunds"); rr != nil {
		app := "call:iface:core/05-port/types.IBCModule.OnRecvPacket(field:app(param#0), param#1, param#2, _, param#6)"
		c.Check(which, "C43/recv/receive-funds", c.Calls(rr, "iface:core/05-port/types.IBCModule.OnRecvPacket"), 1, nil, nil,
			Req{Name: "same-packet-with-override-receiver-and-empty-memo", Args: map[int]string{3: "~and(~wf(Data, call:codec.ProtoCodec.MustMarshalJSON(_, ref(~and(~wf(Receiver, param#5), ~wf(Memo, \"\"))))), ~in(param#3))"}})
		c.CheckRets(which, "C43/recv/receive-funds", rr, NilErr(e), 1, nil,
			Req{Name: "success-acknowledgement-required", Any: all("ne("+app+", nil)", "T(call:iface:core/exported.Acknowledgement.Success("+app+"))")})
	}
	// ---- ForwardTransferPacket(k#0, ctx#1, inFlight#2, srcPacket#3, srcPacketSender#4, receiver#5, metadata#6, token#7, maxRetries#8, timeoutDelta#9, labels#10)
	if rr := c.Run(which, pfmK+".ForwardTransferPacket"); rr != nil {
		c.Check(which, "C43/forward/transfer", c.Calls(rr, "iface:apps/packet-forward-middleware/types.TransferKeeper.Transfer"), 1, nil, nil,
			Req{Name: "from-the-override-account-the-given-coin-to-the-route", Args: map[int]string{2: "~or(call:" + xferT + ".NewMsgTransfer(field:Port(param#6), field:Channel(param#6), param#7, param#5, field:Receiver(param#6), ...), ref(~and(~wf(SourcePort, field:Port(param#6)), ~wf(SourceChannel, field:Channel(param#6)), ~wf(Token, param#7), ~wf(Sender, param#5), ~wf(Receiver, field:Receiver(param#6)))))"}})
		c.Check(which, "C43/forward/record", c.Calls(rr, pfmK+".SetInflightPacket"), 1, nil, nil,
			Req{Name: "keyed-by-the-forward-channel-and-sequence-after-successful-transfer", Args: map[int]string{2: "field:Channel(param#6)", 3: "field:Port(param#6)", 4: "field:Sequence(extract:0(call:iface:apps/packet-forward-middleware/types.TransferKeeper.Transfer))"},
				Any: all("ok(call:iface:apps/packet-forward-middleware/types.TransferKeeper.Transfer)")})
		// a fresh record remembers where to refund
		want := "ref(~and(~wf(OriginalSenderAddress, param#4), ~wf(RefundChannelId, field:DestinationChannel(param#3)), ~wf(RefundPortId, field:DestinationPort(param#3)), ~wf(RefundSequence, field:Sequence(param#3)), ~wf(PacketData, field:Data(param#3)), ~wf(RetriesRemaining, conv:int32(param#8))))"
		found := false
		for _, ev := range c.Calls(rr, pfmK+".SetInflightPacket") {
			if len(ev.Args) > 5 && any("eq(param#2, nil)", ev.Atoms) {
				if any(want, setOf(ev.Args[5])) {
					found = true
				} else {
					c.bad("C43/forward/record/refund-info", pfmK+".ForwardTransferPacket", e.P.Pos(ev.Instr.Pos()), "a new in-flight record is "+clip(e.T.String(ev.Args[5]), 200))
				}
			}
		}
		if found {
			c.ok("C43/forward/record/refund-info", pfmK+".ForwardTransferPacket", "", "records original sender, refund port/channel/sequence = incoming packet's destination, packet data, retries")
		} else {
			c.bad("C43/forward/record/refund-info", pfmK+".ForwardTransferPacket", "", "no new in-flight record with the incoming packet's refund information found")
		}
	}
	// ---- WriteAcknowledgementForForwardedPacket(k#0, ctx#1, packet#2, transferDetail#3, inFlight#4, ack#5)
	pfmAckTable(c, e, "C43/ack")
	runC43Dispatch(c, e)
}

// pfmSeams: the transfer keeper is an external contract of the middleware.
func pfmSeams(e *interp.Engine) {
	e.Seams = func(k string) bool {
		return interp.DefaultSeams(k) || strings.HasPrefix(k, "apps/packet-forward-middleware/types.TransferKeeper.")
	}
}

// pfmAckTable: exhaustive table of the success returns of WriteAcknowledgementForForwardedPacket — no bank
// call when the forward succeeded; otherwise exactly one of the three refund cases, each with its bank moves and
// (where a coin enters or leaves a tracked escrow by mint/burn) the matching total-escrow adjustment. Shared by
// C43 (refund conservation) and C31 (the tracked total follows the middleware's escrow moves).
func pfmAckTable(c *Ctx, e *interp.Engine, rule string) {
	const which = "main"
	any := func(src string, set term.Set) bool { return e.T.Any(c.pats(which, nil, src)[0], set, nil) }
	if rr := c.Run(which, pfmK+".WriteAcknowledgementForForwardedPacket"); rr != nil {
		fk := pfmK + ".WriteAcknowledgementForForwardedPacket"
		den := "field:Denom(field:Token(param#3))"
		coin := "call:sdk.NewCoin(call:" + xferT + ".Denom.IBCDenom(" + den + "), extract:0(call:sdkmath.NewIntFromString(field:Amount(field:Token(param#3)))))"
		coins := "call:sdk.NewCoins(" + coin + ")"
		fwdEscrow := "call:" + xferT + ".GetEscrowAddress(field:SourcePort(param#2), field:SourceChannel(param#2))"
		refEscrow := "call:" + xferT + ".GetEscrowAddress(field:RefundPortId(param#4), field:RefundChannelId(param#4))"
		pSrc := "call:" + xferT + ".Denom.HasPrefix(" + den + ", field:SourcePort(param#2), field:SourceChannel(param#2))"
		pRef := "call:" + xferT + ".Denom.HasPrefix(" + den + ", field:RefundPortId(param#4), field:RefundChannelId(param#4))"
		upstream := "call:iface:core/05-port/types.ICS4Wrapper.WriteAcknowledgement(field:ics4Wrapper(param#0), param#1, ~in(param#4), _)"
		succ := "call:core/04-channel/types.Acknowledgement.Success(param#5)"
		bankOps := func(atoms term.Set) []term.ID {
			var out []term.ID
			for _, at := range atoms {
				op := e.T.Op(at)
				for _, m := range bankMutators {
					if op == "call:iface:apps/packet-forward-middleware/types.BankKeeper."+m {
						out = append(out, at)
					}
				}
			}
			return out
		}
		seen := map[string]int{}
		for _, r := range rr.Rets {
			if !NilErr(e)(r) {
				continue
			}
			atoms := successAtoms(e, r)
			ops := bankOps(atoms)
			if extra := bankOps(r.May); len(extra) > 0 {
				c.bad(rule+"/refund", fk, "", "a success return class merges paths of which only some make the bank call "+clip(e.T.String(extra[0]), 160))
				continue
			}
			up := any(upstream, atoms)
			anyTot := any("call:iface:apps/packet-forward-middleware/types.TransferKeeper.SetTotalEscrowForDenom(_, _, _)", atoms)
			has := func(src string) bool { return any(pfmBK+src, atoms) }
			tot := func(op string) bool {
				return any("call:iface:apps/packet-forward-middleware/types.TransferKeeper.SetTotalEscrowForDenom(_, param#1, call:sdk.Coin."+op+"(call:iface:apps/packet-forward-middleware/types.TransferKeeper.GetTotalEscrowForDenom(_, param#1, _), "+coin+"))", atoms)
			}
			switch {
			case any("T("+succ+")", atoms):
				if len(ops) == 0 && up && !anyTot {
					seen["success"]++
				} else {
					c.bad(rule+"/success",fk, "", "a successful forward performs a bank call or does not acknowledge upstream")
				}
			case any("F("+pSrc+")", atoms) && any("F("+pRef+")", atoms):
				if len(ops) == 1 && has("SendCoins(_, param#1, "+fwdEscrow+", "+refEscrow+", "+coins+")") && up && !anyTot {
					seen["escrow-to-refund-escrow"]++
				} else {
					c.bad(rule+"/refund",fk, "", "case 'neither prefix': expected exactly forward escrow → refund escrow of the packet's coin, then the upstream acknowledgement")
				}
			case any("F("+pSrc+")", atoms) && any("T("+pRef+")", atoms):
				if len(ops) == 2 && has("SendCoinsFromAccountToModule(_, param#1, "+fwdEscrow+", \"transfer\", "+coins+")") && has("BurnCoins(_, param#1, \"transfer\", "+coins+")") && tot("Sub") && up {
					seen["burn-and-unescrow"]++
				} else {
					c.bad(rule+"/refund",fk, "", "case 'prefixed by the refund channel': expected escrow → module, burn, total escrow decreased by the coin, then the upstream acknowledgement")
				}
			case any("T("+pSrc+")", atoms):
				if len(ops) == 2 && has("MintCoins(_, param#1, \"transfer\", "+coins+")") && has("SendCoinsFromModuleToAccount(_, param#1, \"transfer\", "+refEscrow+", "+coins+")") && tot("Add") && up {
					seen["mint-to-refund-escrow"]++
				} else {
					c.bad(rule+"/refund",fk, "", "case 'prefixed by the forward channel': expected mint, module → refund escrow, total escrow increased by the coin, then the upstream acknowledgement")
				}
			default:
				c.bad(rule+"/refund",fk, "", "a success return that is none of: forward succeeded, or one of the three refund cases")
			}
		}
		for _, k := range []string{"success", "escrow-to-refund-escrow", "burn-and-unescrow", "mint-to-refund-escrow"} {
			if seen[k] > 0 {
				c.ok(rule+"/"+k,fk, "", fmt.Sprintf("%d return class(es)", seen[k]))
			} else {
				c.bad(rule+"/"+k, fk, "", "no success return realises this case")
			}
		}
	}
}

func runC43Dispatch(c *Ctx, e *interp.Engine) {
	const which = "main"
	any := func(src string, set term.Set) bool { return e.T.Any(c.pats(which, nil, src)[0], set, nil) }
	// ---- dispatch
	// OnAcknowledgementPacket(im#0, ctx#1, channelVersion#2, packet#3, acknowledgement#4, relayer#5)
	if rr := c.Run(which, pfmM+".OnAcknowledgementPacket"); rr != nil {
		c.Check(which, "C43/dispatch/ack", c.Calls(rr, pfmK+".WriteAcknowledgementForForwardedPacket"), 1, nil, nil,
			Req{Name: "for-the-recorded-forward-after-removing-the-record", Args: map[int]string{2: "param#3", 4: "~or(extract:0(call:" + pfmK + ".GetInflightPacket(field:keeper(param#0), param#1, param#3)), ref(esc#*))"},
				Any: all("call:"+pfmK+".RemoveInFlightPacket(field:keeper(param#0), param#1, param#3)", "ok(call:codec.ProtoCodec.UnmarshalJSON(_, param#4, _))")})
	}
	// OnTimeoutPacket(im#0, ctx#1, channelVersion#2, packet#3, relayer#4)
	if rr := c.Run(which, pfmM+".OnTimeoutPacket"); rr != nil {
		retry := "call:" + pfmK + ".TimeoutShouldRetry(field:keeper(param#0), param#1, param#3)"
		c.Check(which, "C43/dispatch/timeout-retry", c.Calls(rr, pfmK+".RetryTimeout"), 1, nil, nil,
			Req{Name: "only-while-retries-remain-after-the-underlying-refund", Args: map[int]string{2: "field:SourceChannel(param#3)", 3: "field:SourcePort(param#3)", 5: "~or(extract:0(" + retry + "), ref(esc#*))"},
				Any: all("ok("+retry+")", "ok(call:iface:core/05-port/types.IBCModule.OnTimeoutPacket(field:app(param#0), param#1, param#2, param#3, param#4))", "call:"+pfmK+".RemoveInFlightPacket(field:keeper(param#0), param#1, param#3)")})
		c.Check(which, "C43/dispatch/timeout-give-up", c.Calls(rr, pfmK+".WriteAcknowledgementForForwardedPacket"), 1, nil, nil,
			Req{Name: "error-acknowledgement-upstream-when-retries-are-exhausted", Args: map[int]string{2: "param#3", 4: "~or(extract:0(" + retry + "), ref(esc#*))", 5: "call:core/04-channel/types.NewErrorAcknowledgement(_)"},
				Any: all("fail(" + retry + ")")})
	}
	if rr := c.Run(which, pfmK+".TimeoutShouldRetry"); rr != nil {
		n := 0
		for _, ev := range rr.Events {
			if ev.Kind != "return" || len(ev.Args) != 2 {
				continue
			}
			if e.T.String(ev.Args[1]) == "nil" && e.T.String(ev.Args[0]) != "nil" {
				n++
				if !any("lt(0, field:RetriesRemaining(_))", ev.Atoms) {
					c.bad("C43/retries", pfmK+".TimeoutShouldRetry", e.P.Pos(ev.Instr.Pos()), "a retry is granted without retries remaining > 0")
				}
			}
		}
		if n > 0 {
			c.ok("C43/retries", pfmK+".TimeoutShouldRetry", "", "retry only while RetriesRemaining > 0")
		} else {
			c.bad("C43/retries", pfmK+".TimeoutShouldRetry", "", "no retry-granting return found")
		}
	}
	_ = interp.New
}
