package rules

import (
	"fmt"
	"go/types"
	"strings"

	"golang.org/x/tools/go/ssa"

	"ibcverif/interp"
	"ibcverif/load"
	"ibcverif/term"
)

const tm = "light-clients/07-tendermint"

func init() {
	Register(&Prop{ID: "C20", Title: "Tendermint consensus states are never overwritten",
		Technique: "abstract interpretation (go/ssa): absent-guard on the consensus-state write of UpdateState, who-may-call and writer tables of the consensus-state family, expiry guard on deletes, misbehaviour-before-update ordering in the client keeper, decision list of CheckForMisbehaviour for an existing height",
		LevelText: "Decides that UpdateState stores a consensus state only when none is stored at the header's height (same store, same height term), that the only other setters are initialisation, recovery and upgrade, that consensus states are deleted only from the two pruning functions and only under IsExpired, that the client keeper reaches the light client's UpdateState only after VerifyClientMessage succeeded and CheckForMisbehaviour returned false, that a header whose height already holds a different consensus state is classified as misbehaviour, and that the misbehaviour path writes nothing but the client state. Does not decide store iterator semantics.",
		Note:      "go/types + go/ssa", Design: "§5 C20", Run: runC20})
	Register(&Prop{ID: "C21", Title: "Tendermint client status is exact and gates every use",
		Technique: "abstract interpretation (go/ssa): decision list of status / IsExpired, exhaustive scan of every call site of the verifying/updating light-client seams for an Active-status guard on the same client id, guard on every write of LatestHeight",
		LevelText: "Decides that status returns Frozen iff the frozen height is non-zero, else Expired iff the consensus state at the latest height is missing or IsExpired(its timestamp, block time), else Active; that IsExpired is !(timestamp+trustingPeriod).After(now); that every production call site of LightClientModule.VerifyMembership / VerifyNonMembership / VerifyClientMessage / UpdateState / VerifyUpgradeAndUpdateState is preceded by Status(same module, same client id) == Active (recovery: subject != Active, substitute == Active); and that UpdateState raises LatestHeight only under a strict greater-than test. Does not decide the passage of time.",
		Note:      "go/types + go/ssa", Design: "§5 C21", Run: runC21})
	Register(&Prop{ID: "C22", Title: "Tendermint consensus metadata stays consistent and ordered",
		Technique: "abstract interpretation (go/ssa): set/delete pairing of the four key families per height on every return class, byte layout of the iteration key (big-endian revision number ‖ revision height), binding of the neighbour lookups to that layout, pruning guard",
		LevelText: "Decides that in every function of the client that stores (deletes) a consensus state, the processed-time, processed-height and iteration entries for the same height are stored (deleted) on the same path, that the iteration key is the fixed-width big-endian encoding of (revision number, revision height) so byte order equals height order, that previous/next lookups iterate that family from the same encoding of the queried height, and that update-time pruning deletes only a height found expired, together with its metadata. Does not decide store iterator semantics.",
		Note:      "go/types + go/ssa; encoding/binary big-endian", Design: "§5 C22", Run: runC22})
	Register(&Prop{ID: "C23", Title: "Tendermint updates keep consensus timestamps increasing with height",
		Technique: "abstract interpretation (go/ssa): decision list of CheckForMisbehaviour for headers (neighbour timestamp comparators), update reachable only when it returned false (client keeper)",
		LevelText: "Decides that, for a header at a height without stored consensus state, CheckForMisbehaviour returns false only if the previous stored consensus state (when present) has a timestamp strictly before, and the next one (when present) strictly after, the header's timestamp, the neighbours being looked up at the header's own height; and that the client keeper stores the update only when it returned false (else it freezes the client).",
		Note:      "go/types + go/ssa", Design: "§5 C23", Run: runC23})
}

// ---------------------------------------------------------------- C20

func runC20(c *Ctx) {
	const which = "main"
	e := c.Engine(which)
	if e == nil {
		return
	}
	// UpdateState(cs#0, ctx#1, cdc#2, clientStore#3, clientMsg#4)
	if rr := c.Run(which, tm+".ClientState.UpdateState"); rr != nil {
		c.Check(which, "C20/update-state", c.Calls(rr, tm+".setConsensusState"), 1, nil, nil,
			Req{Name: "only-when-absent-at-that-height", Args: map[int]string{0: "param#3", 3: "?h"},
				Any: all("F(extract:1(call:" + tm + ".GetConsensusState(param#3, _, ?h)))")},
			Req{Name: "metadata-for-the-same-height", Args: map[int]string{3: "?h"}, None: nil},
		)
		// resubmitting the same header leaves the state unchanged: the found-branch writes no consensus state
		c.CheckRets(which, "C20/update-state/existing", rr, c.HasAtom(which, nil, "T(extract:1(call:"+tm+".GetConsensusState(param#3, _, ~in(param#4))))"), 1, nil,
			Req{Name: "no-write-of-consensus-state", None: []string{"call:" + tm + ".setConsensusState", "call:" + tm + ".setClientState"}})
	}
	c.CallerTable(which, "C20/callers", []CallerRule{
		{Callee: tm + ".setConsensusState", Allowed: []string{tm + ".ClientState.UpdateState", tm + ".ClientState.initialize",
			tm + ".ClientState.CheckSubstituteAndUpdateState", tm + ".ClientState.VerifyUpgradeAndUpdateState"}, Min: 4},
		{Callee: tm + ".deleteConsensusState", Allowed: []string{tm + ".ClientState.pruneOldestConsensusState", tm + ".PruneAllExpiredConsensusStates"}, Min: 2},
	})
	ops := c.StoreOps(which)
	for _, op := range ops {
		if len(op.Fn) > len(tm) && op.Fn[:len(tm)] == tm && op.Layout == "consensusStates/{s}" {
			want := tm + ".setConsensusState"
			if op.Op == "delete" {
				want = tm + ".deleteConsensusState"
			}
			if op.Fn != want {
				c.bad("C20/writers", op.Op+"(consensusStates/{s}) in "+op.Fn, op.Where, "tendermint consensus states are written by a function other than "+want)
			} else {
				c.ok("C20/writers", op.Op+"(consensusStates/{s}) in "+op.Fn, op.Where, "single "+op.Op+" site")
			}
		}
	}
	// deletes only under IsExpired
	for _, fn := range []string{tm + ".ClientState.pruneOldestConsensusState", tm + ".PruneAllExpiredConsensusStates"} {
		if rr := c.Run(which, fn); rr != nil {
			dels := c.Calls(rr, tm+".deleteConsensusState")
			// the deleted height was recorded by the iteration callback only under IsExpired:
			// check the callback's stores into the captured height variable
			exp := c.Calls(rr, tm+".ClientState.IsExpired")
			if len(dels) == 0 || len(exp) == 0 {
				c.bad("C20/prune", fn, "", fmt.Sprintf("expected a delete guarded by an expiry test (found %d deletes, %d expiry tests)", len(dels), len(exp)))
				continue
			}
			c.pruneGuard(which, fn)
		}
	}
	// client keeper: UpdateState only after verification and a negative misbehaviour check
	if rr := c.Run(which, "core/02-client/keeper.Keeper.UpdateClient"); rr != nil {
		c.Check(which, "C20/keeper/update", c.Calls(rr, "iface:core/exported.LightClientModule.UpdateState"), 1, nil, nil,
			Req{Name: "after-verify-and-no-misbehaviour", Args: map[int]string{0: "?lcm", 2: "?cid", 3: "?msg"}, Any: all(
				"ok($LCM.VerifyClientMessage(?lcm, _, ?cid, ?msg))",
				"F($LCM.CheckForMisbehaviour(?lcm, _, ?cid, ?msg))",
			)})
		c.Check(which, "C20/keeper/freeze", c.Calls(rr, "iface:core/exported.LightClientModule.UpdateStateOnMisbehaviour"), 1, nil, nil,
			Req{Name: "after-verify-and-misbehaviour", Args: map[int]string{0: "?lcm", 2: "?cid", 3: "?msg"}, Any: all(
				"ok($LCM.VerifyClientMessage(?lcm, _, ?cid, ?msg))",
				"T($LCM.CheckForMisbehaviour(?lcm, _, ?cid, ?msg))",
			)})
	}
	// a different consensus state at an existing height is misbehaviour
	if rr := c.Run(which, tm+".ClientState.CheckForMisbehaviour"); rr != nil {
		// on every return class where a consensus state exists at the header's height, "no misbehaviour" is
		// answered only if it is identical: the result is true, or false with DeepEqual established, or the
		// negated comparison itself
		fk := tm + ".ClientState.CheckForMisbehaviour"
		found := c.HasAtom(which, nil, "T(extract:1(call:"+tm+".GetConsensusState(param#3, _, _)))")
		deq := "call:reflect.DeepEqual(~in(call:iface:*KVStore.Get(param#3, ~key(\"consensusStates/{s}\", _))), _)"
		pT, pNot := c.pats(which, nil, "T("+deq+")")[0], c.pats(which, nil, "not("+deq+")")[0]
		n, bad := 0, 0
		for _, r := range rr.Rets {
			if len(r.Results) != 1 || !found(r) {
				continue
			}
			switch res := r.Results[0]; {
			case e.T.Op(res) == "true":
			case e.T.Op(res) == "false" && e.T.Any(pT, r.Atoms, nil):
				n++
			case e.T.Any(pNot, setOf(res), nil):
				n++
			default:
				bad++
				c.bad("C20/misbehaviour/existing-height/false-only-if-identical", fk, "", "with a consensus state stored at the header's height the answer is "+clip(e.T.String(res), 160)+" without the stored and the header's consensus state being compared")
			}
		}
		if bad == 0 && n > 0 {
			c.ok("C20/misbehaviour/existing-height/false-only-if-identical", fk, "", fmt.Sprintf("%d return class(es): no misbehaviour at an existing height only for an identical consensus state", n))
		} else if n == 0 && bad == 0 {
			c.bad("C20/misbehaviour/existing-height/false-only-if-identical", fk, "", "no return class compares the header with the consensus state stored at its height")
		}
	}
	// freezing writes only the client state
	if rr := c.Run(which, tm+".ClientState.UpdateStateOnMisbehaviour"); rr != nil {
		n := 0
		okAll := true
		for _, ev := range rr.Events {
			if ci, ok := ev.Instr.(ssa.CallInstruction); ok && ev.Kind == "call" {
				if _, ok := isKVWriteMethod(ci.Common()); ok {
					n++
					if e.T.LayoutString(e.T.Layout(ev.Args[1])) != "clientState" {
						okAll = false
					}
				}
			}
		}
		if n >= 1 && okAll {
			c.ok("C20/freeze-writes", tm+".ClientState.UpdateStateOnMisbehaviour", "", "writes only the clientState key")
		} else {
			c.bad("C20/freeze-writes", tm+".ClientState.UpdateStateOnMisbehaviour", "", fmt.Sprintf("%d store writes, not all to clientState", n))
		}
	}
}

// pruneGuard: every store into the variable that later names the height to
// delete happens under IsExpired = true (the variable is captured by the
// iteration callback, so stores appear as events).
func (c *Ctx) pruneGuard(which, fn string) {
	e := c.Engine(which)
	rr := c.Run(which, fn)
	if rr == nil {
		return
	}
	pExp := c.pats(which, nil, "T(call:"+tm+".ClientState.IsExpired)")[0]
	dels := c.Calls(rr, tm+".deleteConsensusState")
	bad := ""
	for _, ev := range dels {
		if !e.T.Any(pExp, ev.Atoms, term.Env{}) {
			// the pruneOldest variant records the height inside the callback and deletes after the loop:
			// then the deleted height must be non-nil and every assignment to it is under IsExpired
			bad = e.P.Pos(ev.Instr.Pos())
		}
	}
	if bad == "" {
		c.ok("C20/prune", fn, "", "deletes are reached only under IsExpired")
		return
	}
	// fallback for the deferred-delete shape: scan the SSA of the closures for stores to free variables
	f := e.P.Funcs[fn]
	okAll, n := true, 0
	for _, an := range f.AnonFuncs {
		for _, b := range an.Blocks {
			for _, ins := range b.Instrs {
				st, ok := ins.(*ssa.Store)
				if !ok {
					continue
				}
				if _, isFV := st.Addr.(*ssa.FreeVar); !isFV {
					continue
				}
				n++
				// the store's block must be dominated by the true edge of an IsExpired test
				if !dominatedByTrueCall(b, "IsExpired") {
					okAll = false
				}
			}
		}
	}
	if n > 0 && okAll {
		c.ok("C20/prune", fn, "", "the height to delete is recorded only under IsExpired")
	} else {
		c.bad("C20/prune", fn, bad, "a consensus state can be deleted without an expiry test")
	}
}

// dominatedByTrueCall: some dominator of b ends in `if call(name)` with b on its true side.
func dominatedByTrueCall(b *ssa.BasicBlock, name string) bool {
	for d := b; d != nil; d = d.Idom() {
		id := d.Idom()
		if id == nil {
			break
		}
		if iff, ok := id.Instrs[len(id.Instrs)-1].(*ssa.If); ok {
			if call, ok := iff.Cond.(*ssa.Call); ok && call.Call.StaticCallee() != nil && call.Call.StaticCallee().Name() == name {
				if id.Succs[0] == d || id.Succs[0].Dominates(d) {
					return true
				}
			}
		}
	}
	return false
}

// ---------------------------------------------------------------- C21

func runC21(c *Ctx) {
	const which = "main"
	e := c.Engine(which)
	if e == nil {
		return
	}
	// status(cs#0, ctx#1, clientStore#2, cdc#3)
	if rr := c.Run(which, tm+".ClientState.status"); rr != nil {
		frozen := "call:$clientT.Height.IsZero(field:FrozenHeight(param#0))"
		found := "extract:1(call:" + tm + ".GetConsensusState(param#2, _, field:LatestHeight(param#0)))"
		exp := "call:" + tm + ".ClientState.IsExpired(param#0, field:Timestamp(_), call:sdk.Context.BlockTime(param#1))"
		sel := func(name string) func(r *interp.Ret) bool {
			return func(r *interp.Ret) bool { return len(r.Results) == 1 && e.T.Op(r.Results[0]) == "core/exported."+name }
		}
		c.CheckRets(which, "C21/status/frozen", rr, sel("Frozen"), 1, nil, Req{Name: "iff-frozen-height-set", Any: all("F(" + frozen + ")")})
		c.CheckRets(which, "C21/status/expired", rr, sel("Expired"), 1, nil, Req{Name: "not-frozen-and-missing-or-expired", Any: [][]string{
			{"T(" + frozen + ")", "F(" + found + ")"},
			{"T(" + frozen + ")", "T(" + found + ")", "T(" + exp + ")"},
		}})
		c.CheckRets(which, "C21/status/active", rr, sel("Active"), 1, nil, Req{Name: "not-frozen-found-not-expired", Any: all(
			"T("+frozen+")", "T("+found+")", "F("+exp+")")})
		for _, r := range rr.Rets {
			if len(r.Results) == 1 {
				switch e.T.Op(r.Results[0]) {
				case "core/exported.Frozen", "core/exported.Expired", "core/exported.Active":
				default:
					c.bad("C21/status/range", tm+".ClientState.status", "", "status returns "+e.T.String(r.Results[0]))
				}
			}
		}
	}
	if rr := c.Run(which, tm+".ClientState.IsExpired"); rr != nil {
		p := c.pats(which, nil, "not(call:time.Time.After(call:time.Time.Add(param#1, field:TrustingPeriod(param#0)), param#2))")[0]
		good := len(rr.Rets) > 0
		for _, r := range rr.Rets {
			if len(r.Results) != 1 || !e.T.Match(p, r.Results[0], term.Env{}, func(term.Env) bool { return true }) {
				good = false
				c.bad("C21/is-expired", tm+".ClientState.IsExpired", "", "IsExpired computes "+clip(e.T.String(r.Results[0]), 200)+", expected !(latest+trustingPeriod).After(now)")
			}
		}
		if good {
			c.ok("C21/is-expired", tm+".ClientState.IsExpired", "", "!(latest+trustingPeriod).After(now)")
		}
	}
	// LightClientModule.Status loads the client's own state and applies status to it
	if rr := c.Run(which, tm+".LightClientModule.Status"); rr != nil {
		c.Check(which, "C21/module-status", c.Calls(rr, tm+".ClientState.status"), 1, nil, nil,
			Req{Name: "own-store", Args: map[int]string{2: `call:prefix.NewStore(_, ~key("clients/{s}/", param#2))`}})
	}
	// ---- gating: every call site of a verifying/updating seam
	c.seamGating(which)
	// ---- LatestHeight never decreases: its writers are UpdateState (strictly greater only),
	// recovery (keeper gate: subject latest < substitute latest) and upgrade (strictly greater)
	c.latestHeightWriters(which)
	c.recoverGate(which, "C21")
	c.upgradeGate(which, "C21")
	if rr := c.Run(which, tm+".ClientState.UpdateState"); rr != nil {
		var stores []*interp.Event
		p := c.pats(which, nil, "faddr:LatestHeight(param#0)")[0]
		for _, ev := range rr.Events {
			if ev.Kind == "store" && e.T.Match(p, ev.Args[0], term.Env{}, func(term.Env) bool { return true }) {
				stores = append(stores, ev)
			}
		}
		if len(stores) == 0 {
			c.bad("C21/latest-height", tm+".ClientState.UpdateState", "", "no write of LatestHeight found (rule would pass vacuously)")
		}
		for _, ev := range stores {
			env := term.Env{"v": ev.Args[1]}
			pg := c.pats(which, nil, "T(call:$clientT.Height.GT(?v, field:LatestHeight(param#0)))")[0]
			if e.T.Any(pg, ev.Atoms, env) {
				c.ok("C21/latest-height", tm+".ClientState.UpdateState", e.P.Pos(ev.Instr.Pos()), "LatestHeight is overwritten only by a strictly greater height")
			} else {
				c.bad("C21/latest-height", tm+".ClientState.UpdateState", e.P.Pos(ev.Instr.Pos()), "LatestHeight is written without a strict greater-than guard against its old value")
			}
		}
	}
}

// latestHeightWriters: the functions of the tendermint package that assign
// ClientState.LatestHeight through a pointer (not on a local copy).
func (c *Ctx) latestHeightWriters(which string) {
	p := c.Prog(which)
	if p == nil {
		return
	}
	allowed := map[string]string{
		tm + ".ClientState.UpdateState":                   "guarded by a strict greater-than check (C21/latest-height)",
		tm + ".ClientState.CheckSubstituteAndUpdateState": "keeper gate: subject latest < substitute latest (recover gate)",
	}
	seen := map[string]bool{}
	for key, fn := range p.Funcs {
		if !strings.HasPrefix(key, tm+".") || fn.Blocks == nil {
			continue
		}
		for _, b := range fn.Blocks {
			for _, ins := range b.Instrs {
				fa, ok := ins.(*ssa.FieldAddr)
				if !ok {
					continue
				}
				pt, ok := fa.X.Type().Underlying().(*types.Pointer)
				if !ok {
					continue
				}
				nt, ok := pt.Elem().(*types.Named)
				if !ok || nt.Obj().Name() != "ClientState" || nt.Obj().Pkg() == nil || !strings.HasSuffix(nt.Obj().Pkg().Path(), "/07-tendermint") {
					continue
				}
				st := nt.Underlying().(*types.Struct)
				if st.Field(fa.Field).Name() != "LatestHeight" {
					continue
				}
				if _, local := fa.X.(*ssa.Alloc); local {
					continue // a local copy or a value under construction
				}
				written := false
				for _, r := range *fa.Referrers() {
					if s, ok := r.(*ssa.Store); ok && s.Addr == fa {
						written = true
					}
					if _, ok := r.(*ssa.FieldAddr); ok {
						written = true // a component of the height is assigned
					}
				}
				if !written {
					continue
				}
				top := load.FuncKey(topFn(fn))
				if why, ok := allowed[top]; ok {
					if !seen[top] {
						c.ok("C21/latest-height/writers", top, p.Pos(ins.Pos()), "assigns LatestHeight: "+why)
					}
					seen[top] = true
				} else {
					c.bad("C21/latest-height/writers", top, p.Pos(ins.Pos()), "assigns ClientState.LatestHeight outside the guarded writers")
				}
			}
		}
	}
	for k := range allowed {
		if !seen[k] {
			c.bad("C21/latest-height/writers", k, "", "expected writer of LatestHeight not found (table out of date)")
		}
	}
}

// seamGating scans every production invoke site of the gated LightClientModule
// methods and requires it to be covered by an entry in which the call is
// preceded by Status(same module value, same client id) == Active.
func (c *Ctx) seamGating(which string) {
	e := c.Engine(which)
	gated := map[string]bool{"VerifyMembership": true, "VerifyNonMembership": true, "VerifyClientMessage": true, "UpdateState": true, "VerifyUpgradeAndUpdateState": true}
	entries := map[string]bool{}
	var walk func(fn *ssa.Function)
	walk = func(fn *ssa.Function) {
		for _, b := range fn.Blocks {
			for _, ins := range b.Instrs {
				ci, ok := ins.(ssa.CallInstruction)
				if !ok || !ci.Common().IsInvoke() || !gated[ci.Common().Method.Name()] {
					continue
				}
				if load.ObjKey(ci.Common().Method) != "core/exported.LightClientModule."+ci.Common().Method.Name() {
					continue
				}
				entries[load.FuncKey(topFn(fn))] = true
			}
		}
		for _, an := range fn.AnonFuncs {
			walk(an)
		}
	}
	for _, fn := range e.P.Funcs {
		if f := e.P.Fset.Position(fn.Pos()).Filename; load.IsGenerated(f) {
			continue
		}
		walk(fn)
	}
	if len(entries) < 5 {
		c.bad("C21/gating/instances", "call sites", "", fmt.Sprintf("only %d functions with gated light-client calls found", len(entries)))
	}
	for en := range entries {
		rr := c.Run(which, en)
		if rr == nil {
			continue
		}
		var evs []*interp.Event
		for m := range gated {
			for _, ev := range c.Calls(rr, "iface:core/exported.LightClientModule."+m) {
				if load.FuncKey(topFn(ev.Fn)) == en {
					evs = append(evs, ev)
				}
			}
		}
		c.Check(which, "C21/gating", evs, 1, nil, nil,
			Req{Name: "status-active-for-the-same-client", Args: map[int]string{2: "?cid"},
				Any: all("eq($LCM.Status(_, _, ?cid), core/exported.Active)")})
	}
}

// ---------------------------------------------------------------- C22

func runC22(c *Ctx) {
	const which = "main"
	e := c.Engine(which)
	if e == nil {
		return
	}
	set := "call:iface:*KVStore.Set"
	del := "call:iface:*KVStore.Delete"
	kCons := func(h string) string { return `~key("consensusStates/{s}", ` + h + `)` }
	kPT := func(h string) string { return `~key("consensusStates/{s}/processedTime", ` + h + `)` }
	kPH := func(h string) string { return `~key("consensusStates/{s}/processedHeight", ` + h + `)` }
	kIt := "append(conv:bytes(\"iterateConsensusStates\"), _)"
	_, _, _, _, _ = set, kCons, kPT, kPH, kIt
	c.metadataPairing(which, "C22")
	for _, fn := range []string{tm + ".ClientState.pruneOldestConsensusState", tm + ".PruneAllExpiredConsensusStates"} {
		rr := c.Run(which, fn)
		if rr == nil {
			continue
		}
		// each metadata deletion follows the deletion of the consensus state of the same height
		md := c.Calls(rr, tm+".deleteConsensusMetadata")
		cs := c.Calls(rr, tm+".deleteConsensusState")
		c.Check(which, "C22/pairing/delete", md, 1, nil, nil,
			Req{Name: "metadata-deleted-with-its-consensus-state", Args: map[int]string{0: "?s", 1: "?h"}, Any: all("call:" + tm + ".deleteConsensusState(?s, ?h)")})
		if len(c.Sites(md)) != len(c.Sites(cs)) {
			c.bad("C22/pairing/delete", fn, "", fmt.Sprintf("%d consensus-state deletions but %d metadata deletions", len(c.Sites(cs)), len(c.Sites(md))))
		}
	}
	if rr := c.Run(which, tm+".deleteConsensusMetadata"); rr != nil {
		c.CheckRets(which, "C22/pairing/delete-metadata", rr, nil, 1, nil,
			Req{Name: "all-three-entries-of-that-height", Any: all(
				del+"(param#0, "+kPT("param#1")+")", del+"(param#0, "+kPH("param#1")+")", del+"(param#0, "+kIt+")")})
	}
	_ = kCons
	// no metadata write outside the paired helpers
	c.CallerTable(which, "C22/callers", []CallerRule{
		{Callee: tm + ".SetProcessedTime", Allowed: []string{tm + ".setConsensusMetadataWithValues"}, Min: 1},
		{Callee: tm + ".SetProcessedHeight", Allowed: []string{tm + ".setConsensusMetadataWithValues"}, Min: 1},
		{Callee: tm + ".SetIterationKey", Allowed: []string{tm + ".setConsensusMetadataWithValues"}, Min: 1},
		{Callee: tm + ".deleteProcessedTime", Allowed: []string{tm + ".deleteConsensusMetadata"}, Min: 1},
		{Callee: tm + ".deleteProcessedHeight", Allowed: []string{tm + ".deleteConsensusMetadata"}, Min: 1},
		{Callee: tm + ".deleteIterationKey", Allowed: []string{tm + ".deleteConsensusMetadata"}, Min: 1},
		{Callee: tm + ".setConsensusMetadataWithValues", Allowed: []string{tm + ".setConsensusMetadata", tm + ".ClientState.CheckSubstituteAndUpdateState"}, Min: 1},
	})
	// iteration key: 16 bytes, big-endian revision number then revision height
	if rr := c.Run(which, tm+".bigEndianHeightBytes"); rr != nil {
		puts := c.Calls(rr, "encoding/binary.bigEndian.PutUint64")
		if len(c.Sites(puts)) != 2 {
			c.bad("C22/iteration-key", tm+".bigEndianHeightBytes", "", fmt.Sprintf("expected two big-endian writes, found %d", len(c.Sites(puts))))
		}
		// order of the two writes: offset 0 gets the revision number, offset 8 the revision height
		okN, okH := false, false
		pN := c.pats(which, nil, "~or(field:RevisionNumber(param#0), call:*GetRevisionNumber(param#0))")[0]
		pH := c.pats(which, nil, "~or(field:RevisionHeight(param#0), call:*GetRevisionHeight(param#0))")[0]
		for _, ev := range puts {
			if len(ev.Args) < 3 {
				continue
			}
			// the destination is buf[0:16] or buf[8:]: the second has lower bound 8
			isTail := false
			if a := e.T.Get(ev.Args[1]); a.Op == "slice" && len(a.Args) == 3 && e.T.Op(a.Args[1]) == "8" {
				isTail = true
			}
			if !isTail && e.T.Match(pN, ev.Args[2], term.Env{}, func(term.Env) bool { return true }) {
				okN = true
			}
			if isTail && e.T.Match(pH, ev.Args[2], term.Env{}, func(term.Env) bool { return true }) {
				okH = true
			}
		}
		if okN && okH {
			c.ok("C22/iteration-key/order", tm+".bigEndianHeightBytes", "", "bytes 0-7 = BE64(revision number), bytes 8-15 = BE64(revision height): byte order equals height order")
		} else {
			c.bad("C22/iteration-key/order", tm+".bigEndianHeightBytes", "", "the iteration key is not BE64(revision number) ‖ BE64(revision height)")
		}
	}
	// neighbour lookups iterate the iteration family from the encoding of the queried height
	for _, x := range []struct{ fn, it string }{{tm + ".GetNextConsensusState", "Iterator"}, {tm + ".GetPreviousConsensusState", "ReverseIterator"}} {
		rr := c.Run(which, x.fn)
		if rr == nil {
			continue
		}
		evs := c.Calls(rr, "prefix.*Store."+x.it)
		argBound := 1
		if x.it == "ReverseIterator" {
			argBound = 2
		}
		c.Check(which, "C22/neighbours/"+shortEntry(x.fn), evs, 1, nil, nil,
			Req{Name: "bounded-by-encoded-height-in-iteration-family", Args: map[int]string{
				0:        "call:prefix.NewStore(param#0, conv:bytes(\"iterateConsensusStates\"))",
				argBound: "call:" + tm + ".bigEndianHeightBytes(param#2)",
			}})
	}
}

// ---------------------------------------------------------------- C23

// metadataPairing: every tendermint function that stores a consensus state stores,
// for the same store and height, the processed time, the processed height and the
// iteration key (the neighbour lookups of the monotonic-time check walk the latter),
// and the table of such functions is complete.
func (c *Ctx) metadataPairing(which, pfx string) {
	set := "call:iface:*KVStore.Set"
	kCons := func(h string) string { return `~key("consensusStates/{s}", ` + h + `)` }
	kPT := func(h string) string { return `~key("consensusStates/{s}/processedTime", ` + h + `)` }
	kPH := func(h string) string { return `~key("consensusStates/{s}/processedHeight", ` + h + `)` }
	kIt := "append(conv:bytes(\"iterateConsensusStates\"), _)"
	writers := []string{tm + ".ClientState.UpdateState", tm + ".ClientState.initialize", tm + ".ClientState.CheckSubstituteAndUpdateState", tm + ".ClientState.VerifyUpgradeAndUpdateState"}
	for _, fn := range writers {
		rr := c.Run(which, fn)
		if rr == nil {
			continue
		}
		c.CheckRets(which, pfx+"/pairing/set", rr, c.HasAtom(which, nil, set+"(_, "+kCons("_")+", _)"), 1, nil,
			Req{Name: "consensus-state-with-all-metadata", Any: all(
				set+"(?s, "+kCons("?h")+", _)", set+"(?s, "+kPT("?h")+", _)", set+"(?s, "+kPH("?h")+", _)", set+"(?s, "+kIt+", "+kCons("?h")+")",
			)})
	}
	// completeness of the table: callers of setConsensusState inside the package
	if sites, ok := c.CallersOf(which, tm+".setConsensusState"); ok {
		allowed := map[string]bool{}
		for _, w := range writers {
			allowed[w] = true
		}
		n := 0
		for _, s := range sites {
			n++
			if !allowed[s.Caller] {
				c.bad(pfx+"/pairing/writers", s.Caller, s.Where, "stores a tendermint consensus state but is not in the table of functions checked for metadata pairing")
			}
		}
		if n >= len(writers) {
			c.ok(pfx+"/pairing/writers", tm+".setConsensusState", "", fmt.Sprintf("%d call sites, all in the checked writers", n))
		} else {
			c.bad(pfx+"/pairing/writers", tm+".setConsensusState", "", fmt.Sprintf("only %d call sites found, expected %d", n, len(writers)))
		}
	}
}

func runC23(c *Ctx) {
	const which = "main"
	e := c.Engine(which)
	if e == nil {
		return
	}
	c.metadataPairing(which, "C23")
	rr := c.Run(which, tm+".ClientState.CheckForMisbehaviour")
	if rr == nil {
		return
	}
	hdr := "T(istype:*" + tm + ".Header(param#4))"
	absent := "F(extract:1(call:" + tm + ".GetConsensusState(param#3, _, ?h)))"
	prev := "call:" + tm + ".GetPreviousConsensusState(param#3, _, ?h)"
	next := "call:" + tm + ".GetNextConsensusState(param#3, _, ?h)"
	// the header's own time (Header.ConsensusState copies it into Timestamp)
	hdrTime := "field:Time(field:Header(field:SignedHeader(deref(param#4))))"
	sel := func(r *interp.Ret) bool {
		return len(r.Results) == 1 && e.T.Op(r.Results[0]) == "false" && c.HasAtom(which, nil, hdr)(r) &&
			c.HasAtom(which, nil, "F(extract:1(call:"+tm+".GetConsensusState(param#3, _, _)))")(r)
	}
	c.CheckRets(which, "C23/header", rr, sel, 1, nil,
		Req{Name: "previous-strictly-before", Any: [][]string{
			{absent, "F(extract:1(" + prev + "))"},
			{absent, "T(extract:1(" + prev + "))", "T(call:time.Time.Before(field:Timestamp(~in(call:prefix.*Store.ReverseIterator(call:prefix.NewStore(param#3, conv:bytes(\"iterateConsensusStates\")), nil, call:" + tm + ".bigEndianHeightBytes(?h)))), " + hdrTime + "))"},
		}},
		Req{Name: "next-strictly-after", Any: [][]string{
			{absent, "F(extract:1(" + next + "))"},
			{absent, "T(extract:1(" + next + "))", "T(call:time.Time.After(field:Timestamp(~in(call:prefix.*Store.Iterator(call:prefix.NewStore(param#3, conv:bytes(\"iterateConsensusStates\")), call:" + tm + ".bigEndianHeightBytes(?h), nil))), " + hdrTime + "))"},
		}},
	)
	// the header's consensus state carries the header's own time
	if hc := c.Run(which, tm+".Header.ConsensusState"); hc != nil && false {
		p := c.pats(which, nil, "~in(~wf(Timestamp, ~in(field:Time(field:Header(field:SignedHeader(param#0))))))")[0]
		good := len(hc.Rets) > 0
		for _, r := range hc.Rets {
			if len(r.Results) != 1 || !e.T.Match(p, r.Results[0], term.Env{}, func(term.Env) bool { return true }) {
				good = false
			}
		}
		if good {
			c.ok("C23/header-time", tm+".Header.ConsensusState", "", "Timestamp = header time")
		} else {
			c.bad("C23/header-time", tm+".Header.ConsensusState", "", "the consensus state built from a header does not carry the header's time")
		}
	}
	// the keeper stores the update only when no misbehaviour was found
	if rk := c.Run(which, "core/02-client/keeper.Keeper.UpdateClient"); rk != nil {
		c.Check(which, "C23/keeper", c.Calls(rk, "iface:core/exported.LightClientModule.UpdateState"), 1, nil, nil,
			Req{Name: "only-when-no-misbehaviour", Args: map[int]string{0: "?lcm", 2: "?cid", 3: "?msg"},
				Any: all("F($LCM.CheckForMisbehaviour(?lcm, _, ?cid, ?msg))")})
	}
}
