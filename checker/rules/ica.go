package rules

import (
	"fmt"

	"ibcverif/term"
)

const (
	icaHost = "apps/27-interchain-accounts/host/keeper.Keeper"
	icaT    = "apps/27-interchain-accounts/types"
)

func init() {
	Register(&Prop{ID: "C37", Title: "Interchain-account hosts only execute authorized, atomic transactions",
		Technique: "abstract interpretation (go/ssa) with loop back-edge invariants: what holds each time the message loop and the signer loop of authenticateTx go round (allow-list membership, signer extraction succeeded, signer string equals the registered account of (connection, controller port)), loop exhaustion on the success return; guard and context binding of every message execution (authenticated first, validated, on the branched context), commit of the branch only on the all-succeeded return",
		LevelText: "Decides that authenticateTx returns nil only after it looked up the account registered under (connection id, controller port) and went over every message, and that for every message that lets the loop continue the type was on the host allow list, the proto signer extraction succeeded and every extracted signer's address string equals that account; that executeTx executes a message only after authenticateTx succeeded for (the messages, the first connection hop of the packet's destination channel, the packet's source port), after the message's ValidateBasic (if it has one) succeeded, and on the context branched from the handler's context; that the branch is written only on the return where the loop went over all messages without error and never on an error return; and that OnRecvPacket hands executeTx the packet's own source port, destination port and channel and the messages decoded from the packet data. Signer extraction from proto annotations (cosmos-sdk) and the message router are trusted.",
		Note:      "go/types + go/ssa; cosmos-sdk GetMsgV1Signers and message router trusted", Design: "§5 C37", Run: runC37})
}

func runC37(c *Ctx) {
	const which = "main"
	e := c.Engine(which)
	if e == nil {
		return
	}
	any := func(src string, set term.Set) bool { return e.T.Any(c.pats(which, nil, src)[0], set, nil) }
	// ---- authenticateTx(k#0, ctx#1, msgs#2, connectionID#3, portID#4)
	if rr := c.Run(which, icaHost+".authenticateTx"); rr != nil {
		fk := icaHost + ".authenticateTx"
		acct := "call:" + icaHost + ".GetInterchainAccountAddress(param#0, param#1, param#3, param#4)"
		addr := "~or(extract:0(" + acct + `), conv:string(extract:0(call:iface:*KVStore.Get(_, ~key("owner/{s}/{s}", param#4, param#3)))))`
		msg := "index(param#2, ?i)"
		signers := "extract:0(call:iface:codec.Codec.GetMsgV1Signers(field:cdc(param#0), " + msg + "))"
		perMsg := []string{
			"T(call:apps/27-interchain-accounts/host/types.ContainsMsgType(field:AllowMessages(call:" + icaHost + ".GetParams(param#0, param#1)), " + msg + "))",
			"ok(call:iface:codec.Codec.GetMsgV1Signers(field:cdc(param#0), " + msg + "))",
		}
		nRet := 0
		for _, ev := range rr.Events {
			if ev.Kind != "return" || len(ev.Args) != 1 || e.T.String(ev.Args[0]) != "nil" {
				continue
			}
			nRet++
			if any("T(extract:1("+acct+"))", ev.Atoms) && any("le(len(param#2), _)", ev.Atoms) {
				c.ok("C37/authenticate/return", fk+"@"+c.retOrdinal(rr, ev), e.P.Pos(ev.Instr.Pos()), "account registered for (connection, port) found and every message visited")
			} else {
				c.bad("C37/authenticate/return", fk+"@"+c.retOrdinal(rr, ev), e.P.Pos(ev.Instr.Pos()), "returns nil without the registered account found or without having gone over every message")
			}
		}
		if nRet == 0 {
			c.bad("C37/authenticate/return", fk, "", "no success return")
		}
		nOuter, nInner := 0, 0
		for _, ev := range rr.Events {
			if ev.Kind != "backedge" && ev.Kind != "backedge1" {
				continue
			}
			env := term.Env{}
			ok, miss, env2 := c.Holds(e, ev.Atoms, env, c.pats(which, nil, perMsg...))
			if ev.Kind == "backedge1" {
				// a loop of a directly called helper counts only if it is the signer loop (extracted)
				if !ok || !e.T.Any(c.pats(which, nil, "lt(_, len("+signers+"))")[0], ev.Atoms, env2) {
					continue
				}
			}
			if !ok {
				c.bad("C37/authenticate/message", fk, "", "the loop goes on to the next message/signer without "+clip(miss, 160))
				continue
			}
			inner := c.pats(which, nil, "lt(_, len("+signers+"))")[0]
			outer := c.pats(which, nil, "le(len("+signers+"), _)")[0]
			switch {
			case e.T.Any(inner, ev.Atoms, env2):
				nInner++
				eq := c.pats(which, nil, "eq("+addr+", call:sdk.AccAddress.String(index("+signers+", _)))")[0]
				if !e.T.Any(eq, ev.Atoms, env2) {
					c.bad("C37/authenticate/signer", fk, "", "the signer loop continues without the signer's address string being equal to the registered interchain account")
				}
			case e.T.Any(outer, ev.Atoms, env2):
				nOuter++
			default:
				c.bad("C37/authenticate/message", fk, "", "a loop back edge that is neither the signer loop nor the message loop after all signers")
			}
		}
		if nOuter > 0 && nInner > 0 {
			c.ok("C37/authenticate/message", fk, "", fmt.Sprintf("%d message-loop and %d signer-loop path classes carry the allow-list, signer-extraction and equality facts", nOuter, nInner))
			c.ok("C37/authenticate/signer", fk, "", "every signer compared with the registered account before the loop continues")
		} else {
			c.bad("C37/authenticate/message", fk, "", fmt.Sprintf("loops not found (message %d, signer %d)", nOuter, nInner))
		}
	}
	// the account is looked up under (port, connection)
	if rr := c.Run(which, icaHost+".GetInterchainAccountAddress"); rr != nil {
		c.Check(which, "C37/account-key", c.Calls(rr, "iface:*KVStore.Get"), 1, nil, nil,
			Req{Name: "keyed-by-controller-port-and-connection", Args: map[int]string{1: `~key("owner/{s}/{s}", param#3, param#2)`}})
	}
	// ---- executeTx(k#0, ctx#1, sourcePort#2, destPort#3, destChannel#4, msgs#5)
	if rr := c.Run(which, icaHost+".executeTx"); rr != nil {
		fk := icaHost + ".executeTx"
		ch := "extract:0(call:core/04-channel/keeper.Keeper.GetChannel(field:channelKeeper(param#0), param#1, param#3, param#4))"
		auth := "ok(call:" + icaHost + ".authenticateTx(param#0, param#1, param#5, index(field:ConnectionHops(" + ch + "), 0), param#2))"
		branch := "call:sdk.Context.CacheContext(param#1)"
		c.Check(which, "C37/execute", c.Calls(rr, icaHost+".executeMsg"), 1, nil, nil,
			Req{Name: "authenticated-validated-on-the-branch", Args: map[int]string{1: "extract:0(" + branch + ")", 2: "index(param#5, ?i)"}, Any: [][]string{
				{auth, "ok(call:iface:sdk.HasValidateBasic.ValidateBasic(index(param#5, ?i)))"},
				{auth, "F(istype:sdk.HasValidateBasic(index(param#5, ?i)))"},
			}})
		commit := "call:dyn(extract:1(" + branch + "))"
		nOK, nErr := 0, 0
		for _, ev := range rr.Events {
			if ev.Kind != "return" || len(ev.Args) != 2 {
				continue
			}
			pos := e.P.Pos(ev.Instr.Pos())
			if e.T.String(ev.Args[1]) == "nil" {
				nOK++
				if !any(commit, ev.Atoms) || !any("le(len(param#5), _)", ev.Atoms) || !any(auth, ev.Atoms) {
					c.bad("C37/atomic", fk+"@"+c.retOrdinal(rr, ev), pos, "success return without the branch written after all messages were executed and authenticated")
				}
			} else {
				nErr++
				// after the write only the encoding of the collected responses can still fail (all messages
				// succeeded at that point; the whole receive is then discarded by core's own branch, C09)
				if any(commit, ev.Atoms) && !(any("fail(call:proto.Marshal(_))", ev.Atoms) && any("le(len(param#5), _)", ev.Atoms)) {
					c.bad("C37/atomic", fk+"@"+c.retOrdinal(rr, ev), pos, "an error return after the branched state was written although not all messages had succeeded")
				}
			}
		}
		// the branch is written nowhere inside the loop
		for _, ev := range rr.Events {
			if ev.Kind == "backedge" && any(commit, ev.Atoms) {
				c.bad("C37/atomic", fk, "", "the branch is written inside the message loop")
			}
		}
		if nOK > 0 && nErr >= 3 {
			c.ok("C37/atomic", fk, "", fmt.Sprintf("branch written on %d success return(s) only; %d error returns leave it unwritten", nOK, nErr))
		} else {
			c.bad("C37/atomic", fk, "", fmt.Sprintf("expected one success and several error returns, got %d/%d", nOK, nErr))
		}
	}
	// executeMsg(k#0, ctx#1, msg#2): the routed handler runs on the given context with the given message
	if rr := c.Run(which, icaHost+".executeMsg"); rr != nil {
		c.Check(which, "C37/execute/handler", c.ArgMatches(which, c.Calls(rr, "dyn"), 0, nil, "call:iface:*.Handler"), 1, nil, nil,
			Req{Name: "router-handler-of-this-message-on-this-context", Args: map[int]string{0: "call:iface:*MessageRouter.Handler(field:msgRouter(param#0), param#2)", 1: "param#1", 2: "param#2"}})
	}
	// ---- OnRecvPacket(k#0, ctx#1, packet#2)
	if rr := c.Run(which, icaHost+".OnRecvPacket"); rr != nil {
		c.Check(which, "C37/recv", c.Calls(rr, icaHost+".executeTx"), 1, nil, nil,
			Req{Name: "packet-identifiers-and-decoded-messages", Args: map[int]string{1: "param#1", 2: "field:SourcePort(param#2)", 3: "field:DestinationPort(param#2)", 4: "field:DestinationChannel(param#2)",
				5: "extract:0(call:" + icaT + ".DeserializeCosmosTx(field:cdc(param#0), field:Data(_), field:Encoding(extract:0(call:" + icaT + ".MetadataFromVersion(extract:0(call:iface:*ICS4Wrapper.GetAppVersion(_, param#1, field:DestinationPort(param#2), field:DestinationChannel(param#2))))))))"},
				Any: all("eq(field:Type(_), " + icaT + ".EXECUTE_TX)")})
	}
}
