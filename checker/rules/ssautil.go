package rules

import (
	"go/token"
	"go/types"
	"regexp"

	"golang.org/x/tools/go/ssa"

	"ibcverif/interp"
	"ibcverif/load"
)

func runKey(rr *interp.RunResult) string { return load.FuncKey(rr.Fn) }

func topKey(fn *ssa.Function) string { return load.FuncKey(topFn(fn)) }

type invokeSite struct {
	iface  string // name of the (named) interface type the method is invoked on; "" if anonymous
	method string
	pos    token.Pos
	instr  ssa.CallInstruction
}

// invokeSites lists the interface method calls of fn and of its closures.
func invokeSites(fn *ssa.Function) []invokeSite {
	var out []invokeSite
	var walk func(f *ssa.Function)
	walk = func(f *ssa.Function) {
		for _, b := range f.Blocks {
			for _, ins := range b.Instrs {
				ci, ok := ins.(ssa.CallInstruction)
				if !ok || !ci.Common().IsInvoke() {
					continue
				}
				name := ""
				if nt, ok := ci.Common().Value.Type().(*types.Named); ok {
					name = nt.Obj().Name()
				} else if at, ok := ci.Common().Value.Type().(*types.Alias); ok {
					name = at.Obj().Name()
				}
				out = append(out, invokeSite{iface: name, method: ci.Common().Method.Name(), pos: ins.Pos(), instr: ci})
			}
		}
		for _, an := range f.AnonFuncs {
			walk(an)
		}
	}
	walk(fn)
	return out
}

// siteRE matches the call-site suffix of printed call terms.
var siteRE = regexp.MustCompile(`@[0-9]+`)

type collWrite struct {
	field, method string
	pos           token.Pos
}

// collectionWrites lists calls of mutating methods (Set, Remove, Clear, Push, Next) of cosmossdk.io/collections
// types whose receiver is a field of a struct (k.Field.Set(...)), in fn and its closures.
func collectionWrites(fn *ssa.Function) []collWrite {
	var out []collWrite
	mut := map[string]bool{"Set": true, "Remove": true, "Clear": true, "Push": true, "Next": true}
	var walk func(f *ssa.Function)
	walk = func(f *ssa.Function) {
		for _, b := range f.Blocks {
			for _, ins := range b.Instrs {
				ci, ok := ins.(ssa.CallInstruction)
				if !ok {
					continue
				}
				g := ci.Common().StaticCallee()
				if g == nil || g.Signature.Recv() == nil || !mut[g.Name()] {
					continue
				}
				q := calleeQName(g)
				if len(q) < 22 || q[:22] != "cosmossdk.io/collectio" {
					if o := g.Origin(); o == nil || o.Pkg == nil || o.Pkg.Pkg.Path() != "cosmossdk.io/collections" {
						continue
					}
				}
				if len(ci.Common().Args) == 0 {
					continue
				}
				if fld := fieldOf(ci.Common().Args[0]); fld != "" {
					out = append(out, collWrite{field: fld, method: g.Name(), pos: ins.Pos()})
				}
			}
		}
		for _, an := range f.AnonFuncs {
			walk(an)
		}
	}
	walk(fn)
	return out
}

// fieldOf: the value is (a load of) a struct field; returns the field name.
func fieldOf(v ssa.Value) string {
	switch v := v.(type) {
	case *ssa.UnOp:
		return fieldOf(v.X)
	case *ssa.FieldAddr:
		if st, ok := derefType(v.X.Type()).Underlying().(*types.Struct); ok {
			return st.Field(v.Field).Name()
		}
	case *ssa.Field:
		if st, ok := v.X.Type().Underlying().(*types.Struct); ok {
			return st.Field(v.Field).Name()
		}
	}
	return ""
}
