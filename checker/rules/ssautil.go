package rules

import (
	"regexp"
	"go/token"
	"go/types"

	"golang.org/x/tools/go/ssa"

	"ibcverif/interp"
	"ibcverif/load"
)

func runKey(rr *interp.RunResult) string { return load.FuncKey(rr.Fn) }

func topKey(fn *ssa.Function) string { return load.FuncKey(topFn(fn)) }

type invokeSite struct {
	iface  string // name of the (named) interface type the method is invoked on; "" if anonymous
	method string
	pos    token.Pos
	instr  ssa.CallInstruction
}

// invokeSites lists the interface method calls of fn and of its closures.
func invokeSites(fn *ssa.Function) []invokeSite {
	var out []invokeSite
	var walk func(f *ssa.Function)
	walk = func(f *ssa.Function) {
		for _, b := range f.Blocks {
			for _, ins := range b.Instrs {
				ci, ok := ins.(ssa.CallInstruction)
				if !ok || !ci.Common().IsInvoke() {
					continue
				}
				name := ""
				if nt, ok := ci.Common().Value.Type().(*types.Named); ok {
					name = nt.Obj().Name()
				} else if at, ok := ci.Common().Value.Type().(*types.Alias); ok {
					name = at.Obj().Name()
				}
				out = append(out, invokeSite{iface: name, method: ci.Common().Method.Name(), pos: ins.Pos(), instr: ci})
			}
		}
		for _, an := range f.AnonFuncs {
			walk(an)
		}
	}
	walk(fn)
	return out
}

// siteRE matches the call-site suffix of printed call terms.
var siteRE = regexp.MustCompile(`@[0-9]+`)
