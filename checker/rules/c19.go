package rules

import (
	"strings"

	"ibcverif/interp"
	"ibcverif/term"
)

func init() {
	Register(&Prop{ID: "C19", Title: "Packet delay periods are enforced with exact block-delay arithmetic",
		Technique: "abstract interpretation (go/ssa): argument binding of (time delay, block delay) at every light-client verification seam, shape check of the block-delay term (integer quotient + remainder test, no floating point), inclusive comparisons and overflow guards in the tendermint delay check",
		LevelText: "Decides that every packet-related proof verification over a v1 connection passes the connection's delay period and a block delay that is 0 when the per-block parameter is 0 and otherwise the integer quotient, plus one exactly when the remainder is non-zero (no float conversion on the path); that handshake verifications pass (0,0); that the tendermint client rejects unless now ≥ processedTime+delay and height ≥ processedHeight+blockDelay with the processed values read at the proof height and both sums guarded against wrap-around. IBC v2 sites pass constant (0,0): exempt for native v2 clients, reported for channel aliases (see known findings).",
		Note:      "go/types + go/ssa; uint64 arithmetic semantics of Go", Design: "§5 C19", Run: runC19})
}

func runC19(c *Ctx) {
	const which = "main"
	e := c.Engine(which)
	if e == nil {
		return
	}
	conn := "extract:0(call:$connK.GetConnection)"
	per := "field:MaxExpectedTimePerBlock(call:$connK.GetParams)"
	delayReq := Req{Name: "delay-arguments", Args: map[int]string{4: "?td", 5: "?bd", 7: "?path"}, Any: [][]string{
		{`~is(?path, ~in("channelEnds"))`, "~is(?td, 0)", "~is(?bd, 0)"}, // channel-state proof inside timeout-on-close: handshake-style
		{"~is(?td, field:DelayPeriod(~and(?cn, " + conn + ")))", "~is(?bd, 0)", "eq(" + per + ", 0)"},
		{"~is(?td, field:DelayPeriod(~and(?cn, " + conn + ")))", "~is(?bd, call:$connK.getBlockDelay(_, _, ?cn))"},
		{"~is(?td, field:DelayPeriod(~and(?cn, " + conn + ")))", "~is(?bd, binop:/(?td, ~and(?p, " + per + ")))", "eq(binop:%(?td, ?p), 0)"},
		{"~is(?td, field:DelayPeriod(~and(?cn, " + conn + ")))", "~is(?bd, binop:+(binop:/(?td, ~and(?p, " + per + ")), 1))", "ne(binop:%(?td, ?p), 0)"},
	}}
	noFloat := Req{Name: "no-floating-point", Args: map[int]string{5: "~not(~in(conv:float64))"}}
	for _, en := range []string{entryRecv1, entryAck1, entryTimeout1, entryTimeoutC1} {
		rr := c.Run(which, en)
		if rr == nil {
			continue
		}
		evs := append(c.Calls(rr, lcmVerify), c.Calls(rr, lcmVerifyNon)...)
		c.Check(which, "C19/packet-v1/"+shortEntry(en), evs, 1, pktMacros, nil, delayReq, noFloat)
	}
	// handshake proofs: no delay
	for _, en := range []string{"core/keeper.Keeper.ConnectionOpenTry", "core/keeper.Keeper.ConnectionOpenAck", "core/keeper.Keeper.ConnectionOpenConfirm",
		"core/keeper.Keeper.ChannelOpenTry", "core/keeper.Keeper.ChannelOpenAck", "core/keeper.Keeper.ChannelOpenConfirm", "core/keeper.Keeper.ChannelCloseConfirm"} {
		rr := c.Run(which, en)
		if rr == nil {
			continue
		}
		evs := append(c.Calls(rr, lcmVerify), c.Calls(rr, lcmVerifyNon)...)
		c.Check(which, "C19/handshake/"+shortEntry(en), evs, 1, nil, nil, Req{Name: "zero-delays", Args: map[int]string{4: "0", 5: "0"}})
	}
	// IBC v2: constant (0,0); over an alias the connection's delay is skipped
	alias := c.pats(which, pktMacros, `conv:string(extract:0($KVGet(_, ~key("{s}alias", _))))`)[0]
	for _, en := range []string{entryRecv2, entryAck2, entryTimeout2} {
		rr := c.Run(which, en)
		if rr == nil {
			continue
		}
		evs := append(c.Calls(rr, lcmVerify), c.Calls(rr, lcmVerifyNon)...)
		var native, aliased []*interp.Event
		for _, ev := range evs {
			if len(ev.Args) > 2 && e.T.Match(alias, ev.Args[2], term.Env{}, func(term.Env) bool { return true }) {
				aliased = append(aliased, ev)
			} else {
				native = append(native, ev)
			}
		}
		c.Check(which, "C19/packet-v2/"+shortEntry(en), native, 1, nil, nil, Req{Name: "native-client-has-no-connection-delay", Args: map[int]string{4: "0", 5: "0"}})
		// aliased channel: the underlying connection's delay should be applied
		for _, s := range c.Sites(aliased) {
			c.bad("C19/packet-v2-alias-delay", shortEntry(en)+" via channel alias", e.P.Pos(s.Events[0].Instr.Pos()),
				"a v2 packet proof over a v1 channel alias is verified with constant (0,0) delays; the aliased channel's connection delay period is not applied")
		}
	}
	// the block delay itself: integer arithmetic only
	if rr := c.Run(which, "core/03-connection/keeper.Keeper.getBlockDelay"); rr != nil {
		pf := c.pats(which, nil, "~in(conv:float64)")[0]
		pf32 := c.pats(which, nil, "~in(conv:float32)")[0]
		for _, r := range rr.Rets {
			// results are read modulo the class's equalities (the arithmetic may live in a helper)
			e.T.Alias = e.T.AliasesOf(r.Atoms)
			if len(r.Results) == 1 && (e.T.Match(pf, r.Results[0], term.Env{}, func(term.Env) bool { return true }) || e.T.Match(pf32, r.Results[0], term.Env{}, func(term.Env) bool { return true })) {
				c.bad("C19/block-delay/integer", "core/03-connection/keeper.Keeper.getBlockDelay", "", "block delay is computed through floating point: "+clip(e.T.String(r.Results[0]), 200))
			}
			e.T.Alias = nil
		}
		c.ok("C19/block-delay/scanned", "core/03-connection/keeper.Keeper.getBlockDelay", "", "return classes scanned for float conversions")
		// exact ceiling: 0 if per==0; q if r==0; q+1 if r!=0, with d = connection.DelayPeriod
		d := "field:DelayPeriod(param#2)"
		p := "field:MaxExpectedTimePerBlock(call:$connK.GetParams(param#0, param#1))"
		shapes := []struct{ res, atom string }{
			{"0", "eq(" + p + ", 0)"},
			{"binop:/(" + d + ", " + p + ")", "eq(binop:%(" + d + ", " + p + "), 0)"},
			{"binop:+(binop:/(" + d + ", " + p + "), 1)", "ne(binop:%(" + d + ", " + p + "), 0)"},
		}
		seen := map[int]bool{}
		for _, r := range rr.Rets {
			if len(r.Results) != 1 {
				continue
			}
			okShape := false
			e.T.Alias = e.T.AliasesOf(r.Atoms)
			for i, s := range shapes {
				pr := c.pats(which, nil, s.res)[0]
				pa := c.pats(which, nil, s.atom)[0]
				if e.T.Match(pr, r.Results[0], term.Env{}, func(term.Env) bool { return true }) && e.T.Any(pa, r.Atoms, term.Env{}) {
					okShape = true
					seen[i] = true
				}
			}
			e.T.Alias = nil
			if !okShape {
				c.bad("C19/block-delay/exact-ceiling", "core/03-connection/keeper.Keeper.getBlockDelay", "", "a return class yields "+clip(e.T.String(r.Results[0]), 200)+" which is not 0 / quotient / quotient+1 under the matching remainder test")
			}
		}
		if len(seen) == 3 {
			c.ok("C19/block-delay/exact-ceiling", "core/03-connection/keeper.Keeper.getBlockDelay", "", "three return classes: 0 (parameter 0), d/p (d%p==0), d/p+1 (d%p!=0)")
		} else {
			c.bad("C19/block-delay/exact-ceiling", "core/03-connection/keeper.Keeper.getBlockDelay", "", "expected the three classes 0, d/p, d/p+1; some are missing")
		}
	}
	// tendermint: inclusive comparisons on values stored at the proof height, with overflow guards
	if rr := c.Run(which, "light-clients/07-tendermint.verifyDelayPeriodPassed"); rr != nil {
		c.CheckRets(which, "C19/tendermint", rr, NilErr(e), 1, nil,
			Req{Name: "time-delay-passed", Any: [][]string{
				{"eq(param#3, 0)"},
				{"le(binop:+(~and(?pt, call:sdk.BigEndianToUint64(call:iface:*KVStore.Get(param#1, ~key(\"consensusStates/{s}/processedTime\", param#2)))), param#3), conv:uint64(call:time.Time.UnixNano(call:sdk.Context.BlockTime(param#0))))",
					"le(?pt, binop:+(?pt, param#3))"},
			}},
			Req{Name: "block-delay-passed", Any: [][]string{
				{"eq(param#4, 0)"},
				{"F(call:$clientT.Height.LT(call:$clientT.GetSelfHeight(param#0), ~and(~wf(RevisionHeight, binop:+(~and(?ph, field:RevisionHeight(~and(?proc, extract:0(call:$clientT.ParseHeight(conv:string(call:iface:*KVStore.Get(param#1, ~key(\"consensusStates/{s}/processedHeight\", param#2)))))))), param#4)), ~wf(RevisionNumber, field:RevisionNumber(?proc)))))",
					"le(param#4, binop:+(?ph, param#4))"},
			}},
		)
	}
	for _, m := range []string{"VerifyMembership", "VerifyNonMembership"} {
		if rr := c.Run(which, "light-clients/07-tendermint.LightClientModule."+m); rr != nil {
			c.Check(which, "C19/tendermint/"+m, c.Calls(rr, "light-clients/07-tendermint.verifyDelayPeriodPassed"), 1, nil, nil,
				Req{Name: "delay-check-gets-the-call-arguments", Args: map[int]string{0: "param#1", 2: "param#3", 3: "param#4", 4: "param#5"}})
			c.CheckRets(which, "C19/tendermint/"+m, rr, NilErr(e), 1, nil,
				Req{Name: "success-requires-delay-check", Any: all("ok(call:light-clients/07-tendermint.verifyDelayPeriodPassed(param#1, _, param#3, param#4, param#5))")})
		}
	}
}

func shortEntry(k string) string {
	if i := strings.LastIndex(k, "/"); i >= 0 {
		return k[i+1:]
	}
	return k
}
