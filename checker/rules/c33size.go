package rules

import (
	"fmt"
	"go/constant"
	"go/token"
	"go/types"
	"strings"

	"golang.org/x/tools/go/ssa"

	"ibcverif/load"
)

// C33, size bounds. Every hop adds "port/channel/" to a denomination's path and one element to its trace, so the
// voucher's path on the way back is strictly longer than the path the origin sent. A rejection that bounds the
// size of such a hop-growing quantity (length of the full path, number of hops, number of '/' in the path) in
// the transfer application therefore rejects the return of some voucher whose forward transfer was accepted.
// The rule: no comparison, anywhere in the transfer application's own code, of a size of a hop-growing quantity
// with a constant — other than an emptiness test. Expected count on the tree: zero (built-in examples below).
//
// Hop-growing quantities recognised: field Trace of types.Denom; field Denom (the full path string) of
// types.FungibleTokenPacketData; the result of Denom.Path(); and slices / conversions / string concatenations
// of these. Sizes recognised: len, strings.Count, utf8.RuneCountInString.
const sizeBoundExamples = `package selftest
import "strings"
type Hop struct{ PortId, ChannelId string }
type Denom struct { Base string; Trace []Hop }
func (d Denom) Path() string { return d.Base }
type FungibleTokenPacketData struct{ Denom, Amount, Memo string }
func pathLen(p FungibleTokenPacketData) bool { return len(p.Denom) > 128 }
func hops(d Denom) bool { return len(d.Trace) >= 8 }
func pathOf(d Denom) bool { return 200 < len(d.Path()) }
func slashes(p FungibleTokenPacketData) bool { return strings.Count(p.Denom, "/") > 16 }
func isNative(d Denom) bool { return len(d.Trace) == 0 }
func hasHops(d Denom) bool { return len(d.Trace) > 0 }
func memo(p FungibleTokenPacketData) bool { return len(p.Memo) > 32768 }
func base(d Denom) bool { return len(d.Base) > 128 }
func loop(d Denom) int { n := 0; for i := 0; i < len(d.Trace); i++ { n++ }; return n }
`

func hopGrowing(v ssa.Value, depth int) string {
	if depth > 6 || v == nil {
		return ""
	}
	fieldOfNamed := func(t types.Type, idx int) (string, string) {
		t = derefType(t)
		nt, ok := t.(*types.Named)
		if !ok || nt.Obj().Pkg() == nil {
			return "", ""
		}
		pp := nt.Obj().Pkg().Path()
		if !(pp == "selftest" || strings.HasSuffix(pp, "/apps/transfer/types")) {
			return "", ""
		}
		st, ok := nt.Underlying().(*types.Struct)
		if !ok || idx >= st.NumFields() {
			return "", ""
		}
		return nt.Obj().Name(), st.Field(idx).Name()
	}
	grow := func(tn, fn string) string {
		if (tn == "Denom" && fn == "Trace") || (tn == "FungibleTokenPacketData" && fn == "Denom") {
			return tn + "." + fn
		}
		return ""
	}
	switch x := v.(type) {
	case *ssa.UnOp:
		if x.Op == token.MUL {
			if fa, ok := x.X.(*ssa.FieldAddr); ok {
				return grow(fieldOfNamed(fa.X.Type(), fa.Field))
			}
		}
	case *ssa.Field:
		return grow(fieldOfNamed(x.X.Type(), x.Field))
	case *ssa.Call:
		if f := x.Call.StaticCallee(); f != nil && f.Name() == "Path" && f.Signature.Recv() != nil {
			if tn, _ := fieldOfNamed(f.Signature.Recv().Type(), 0); tn == "Denom" {
				return "Denom.Path()"
			}
		}
	case *ssa.Slice:
		return hopGrowing(x.X, depth+1)
	case *ssa.ChangeType:
		return hopGrowing(x.X, depth+1)
	case *ssa.Convert:
		return hopGrowing(x.X, depth+1)
	case *ssa.BinOp:
		if x.Op == token.ADD {
			if s := hopGrowing(x.X, depth+1); s != "" {
				return s
			}
			return hopGrowing(x.Y, depth+1)
		}
	}
	return ""
}

// sizeOfHopGrowing: v is len(q) / strings.Count(q, _) / utf8.RuneCountInString(q) of a hop-growing q.
func sizeOfHopGrowing(v ssa.Value) string {
	call, ok := v.(*ssa.Call)
	if !ok || len(call.Call.Args) == 0 {
		return ""
	}
	name := ""
	if b, ok := call.Call.Value.(*ssa.Builtin); ok && b.Name() == "len" {
		name = "len"
	} else if f := call.Call.StaticCallee(); f != nil && f.Pkg != nil {
		switch f.Pkg.Pkg.Path() + "." + f.Name() {
		case "strings.Count":
			name = "strings.Count"
		case "unicode/utf8.RuneCountInString":
			name = "utf8.RuneCountInString"
		}
	}
	if name == "" {
		return ""
	}
	if q := hopGrowing(call.Call.Args[0], 0); q != "" {
		return name + "(" + q + ")"
	}
	return ""
}

type sizeBound struct {
	what string
	pos  token.Pos
}

func sizeBounds(fn *ssa.Function) []sizeBound {
	var out []sizeBound
	for _, b := range fn.Blocks {
		for _, ins := range b.Instrs {
			bo, ok := ins.(*ssa.BinOp)
			if !ok {
				continue
			}
			switch bo.Op {
			case token.LSS, token.LEQ, token.GTR, token.GEQ, token.EQL, token.NEQ:
			default:
				continue
			}
			sz, k, op := "", (*ssa.Const)(nil), bo.Op
			if s := sizeOfHopGrowing(bo.X); s != "" {
				sz = s
				k, _ = bo.Y.(*ssa.Const)
			} else if s := sizeOfHopGrowing(bo.Y); s != "" {
				sz = s
				k, _ = bo.X.(*ssa.Const)
				op = map[token.Token]token.Token{token.LSS: token.GTR, token.LEQ: token.GEQ, token.GTR: token.LSS, token.GEQ: token.LEQ, token.EQL: token.EQL, token.NEQ: token.NEQ}[bo.Op]
			}
			if sz == "" || k == nil || k.Value == nil || k.Value.Kind() != constant.Int {
				continue // compared with a non-constant (loop bounds, other lengths): not a fixed size bound
			}
			n, _ := constant.Int64Val(k.Value)
			// emptiness tests: size ==/!= 0, size > 0, size >= 1, size < 1, size <= 0
			if (n == 0 && (op == token.EQL || op == token.NEQ || op == token.GTR || op == token.LEQ)) || (n == 1 && (op == token.GEQ || op == token.LSS)) {
				continue
			}
			out = append(out, sizeBound{fmt.Sprintf("%s %s %d", sz, op, n), bo.Pos()})
		}
	}
	return out
}

func (c *Ctx) c33SizeBounds(which string) {
	c.lintSelfTest("C33/return-path/self-test", sizeBoundExamples,
		map[string]bool{"pathLen": true, "hops": true, "pathOf": true, "slashes": true, "isNative": false, "hasHops": false, "memo": false, "base": false, "loop": false},
		func(fn *ssa.Function) int { return len(sizeBounds(fn)) })
	p := c.Prog(which)
	if p == nil {
		return
	}
	n, bad := 0, 0
	var scan func(fn *ssa.Function, top string)
	scan = func(fn *ssa.Function, top string) {
		for _, sb := range sizeBounds(fn) {
			bad++
			c.bad("C33/return-path/no-size-bound-on-hop-growing-quantity", top, p.Pos(sb.pos),
				"compares "+sb.what+": every hop makes this quantity larger, so the bound rejects the return of a voucher whose forward transfer was accepted (unless the receive side refuses to mint such a voucher, which this rule cannot see)")
		}
		for _, an := range fn.AnonFuncs {
			scan(an, top)
		}
	}
	for key, fn := range p.Funcs {
		if !strings.HasPrefix(key, "apps/transfer") || fn.Blocks == nil || !fn.Pos().IsValid() {
			continue
		}
		file := p.Fset.Position(fn.Pos()).Filename
		if load.IsGenerated(file) || strings.HasSuffix(file, "_test.go") || strings.Contains(key, "/simulation") {
			continue
		}
		n++
		scan(fn, key)
	}
	if n < 100 {
		c.undecided("C33/return-path/no-size-bound-on-hop-growing-quantity", "apps/transfer", "", fmt.Sprintf("only %d functions of the transfer application found", n))
	} else if bad == 0 {
		c.ok("C33/return-path/no-size-bound-on-hop-growing-quantity", "apps/transfer", "", fmt.Sprintf("%d functions of the transfer application: no constant bound on the path length, the number of hops or the number of separators", n))
	}
}
