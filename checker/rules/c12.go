package rules

func init() {
	Register(&Prop{ID: "C12", Title: "Channel handshake state machine and end-to-end agreement",
		Technique: "abstract interpretation (go/ssa) with struct-field memory model: transition extraction at every SetChannel site (pre-state guard → stored State), field-by-field binding of the expected counterparty channel proven through the light-client seam, who-may-call table of the channel-end writer",
		LevelText: "Decides that every production write of a channel end is one of {→INIT, →TRYOPEN (new identifier), INIT→OPEN, TRYOPEN→OPEN, ≠CLOSED→CLOSED, ORDERED timeout →CLOSED, genesis/migration}, each guarded by the pre-state test on the end loaded for the same port/channel, and that Try/Ack/Confirm/CloseConfirm store their new state only after a successful membership proof, at the message's proof height under the connection's client, of the counterparty end at the counterparty's identifiers with exactly {matching state, own ordering, counterparty = own port/channel, hops = connection's counterparty id, agreed version}. Does not decide two-party agreement over all interleavings (a model-checking question).",
		Note:      "go/types + go/ssa", Design: "§5 C12", Run: runC12})
}

func runC12(c *Ctx) {
	const which = "main"
	e := c.Engine(which)
	if e == nil {
		return
	}
	m := Macros{"MSG": "param#2", "P": "field:PortId(param#2)", "C": "field:ChannelId(param#2)"}
	own := chanOf("$P", "$C")        // the end loaded for the message's port/channel
	conn := connOf(own)              // its connection
	connTry := "extract:0(call:$connK.GetConnection(_, _, index(field:ConnectionHops(field:Channel($MSG)), 0)))"
	marshal := func(expected string) string {
		return "extract:0(call:iface:codec.BinaryCodec.Marshal(_, ref(" + expected + ")))"
	}
	verify := func(cn, proof, kp, kc, expected string) string {
		return "ok($LCM.VerifyMembership(_, _, field:ClientId(" + cn + "), field:ProofHeight($MSG), 0, 0, field:" + proof + "($MSG), " +
			pathHas(cn, key(kChannel, kp, kc)) + ", " + marshal(expected) + "))"
	}
	hops := func(cn string) string { return "~wf(ConnectionHops, arr(field:ConnectionId(field:Counterparty(" + cn + "))))" }
	cpty := func(p, ch string) string {
		return "~wf(Counterparty, ~and(~wf(PortId, " + p + "), ~wf(ChannelId, " + ch + ")))"
	}
	setCh := "$chanK.SetChannel"

	// ---- Init: new identifier, State INIT
	if rr := c.Run(which, "core/keeper.Keeper.ChannelOpenInit"); rr != nil {
		c.Check(which, "C12/init", c.Calls(rr, setCh), 1, m, nil,
			Req{Name: "stores-INIT-under-generated-id", Args: map[int]string{2: "$P", 3: "~key(\"channel-{d}\", _)", 4: "~wf(State, $chanT.INIT)"}})
	}
	// ---- Try: proves counterparty INIT, stores TRYOPEN under a generated id
	if rr := c.Run(which, "core/keeper.Keeper.ChannelOpenTry"); rr != nil {
		exp := "~and(~wf(State, $chanT.INIT), ~wf(Ordering, field:Ordering(field:Channel($MSG))), " + cpty("$P", `""`) + ", " + hops(connTry) + ", ~wf(Version, field:CounterpartyVersion($MSG)))"
		c.Check(which, "C12/try", c.Calls(rr, setCh), 1, m, nil,
			Req{Name: "stores-TRYOPEN-under-generated-id", Args: map[int]string{2: "$P", 3: "~key(\"channel-{d}\", _)",
				4: "~and(~wf(State, $chanT.TRYOPEN), ~wf(Ordering, field:Ordering(field:Channel($MSG))), ~wf(Counterparty, field:Counterparty(field:Channel($MSG))))"}},
			Req{Name: "after-proof-of-counterparty-INIT", Any: all(
				verify(connTry, "ProofInit", "field:PortId(field:Counterparty(field:Channel($MSG)))", "field:ChannelId(field:Counterparty(field:Channel($MSG)))", exp),
				"eq(field:State("+connTry+"), $connT.OPEN)",
			)},
		)
	}
	// ---- Ack: INIT -> OPEN after proof of TRYOPEN
	if rr := c.Run(which, "core/keeper.Keeper.ChannelOpenAck"); rr != nil {
		exp := "~and(~wf(State, $chanT.TRYOPEN), ~wf(Ordering, field:Ordering(" + own + ")), " + cpty("$P", "$C") + ", " + hops(conn) + ", ~wf(Version, field:CounterpartyVersion($MSG)))"
		c.Check(which, "C12/ack", c.Calls(rr, setCh), 1, m, nil,
			Req{Name: "INIT-to-OPEN", Args: map[int]string{2: "$P", 3: "$C",
				4: "~and(~wf(State, $chanT.OPEN), ~wf(Version, field:CounterpartyVersion($MSG)), ~wf(Counterparty, ~wf(ChannelId, field:CounterpartyChannelId($MSG))), ~in(" + own + "))"},
				Any: all("eq(field:State(" + own + "), $chanT.INIT)")},
			Req{Name: "after-proof-of-counterparty-TRYOPEN", Any: all(
				verify(conn, "ProofTry", "field:PortId(field:Counterparty("+own+"))", "field:CounterpartyChannelId($MSG)", exp),
				"eq(field:State("+conn+"), $connT.OPEN)",
			)},
		)
	}
	// ---- Confirm: TRYOPEN -> OPEN after proof of OPEN
	if rr := c.Run(which, "core/keeper.Keeper.ChannelOpenConfirm"); rr != nil {
		exp := "~and(~wf(State, $chanT.OPEN), ~wf(Ordering, field:Ordering(" + own + ")), " + cpty("$P", "$C") + ", " + hops(conn) + ", ~wf(Version, field:Version(" + own + ")))"
		c.Check(which, "C12/confirm", c.Calls(rr, setCh), 1, m, nil,
			Req{Name: "TRYOPEN-to-OPEN", Args: map[int]string{2: "$P", 3: "$C", 4: "~and(~wf(State, $chanT.OPEN), ~in(" + own + "))"},
				Any: all("eq(field:State(" + own + "), $chanT.TRYOPEN)")},
			Req{Name: "after-proof-of-counterparty-OPEN", Any: all(
				verify(conn, "ProofAck", "field:PortId(field:Counterparty("+own+"))", "field:ChannelId(field:Counterparty("+own+"))", exp),
				"eq(field:State("+conn+"), $connT.OPEN)",
			)},
		)
	}
	// ---- CloseInit / CloseConfirm: non-CLOSED -> CLOSED
	if rr := c.Run(which, "core/keeper.Keeper.ChannelCloseInit"); rr != nil {
		c.Check(which, "C12/close-init", c.Calls(rr, setCh), 1, m, nil,
			Req{Name: "not-CLOSED-to-CLOSED", Args: map[int]string{2: "$P", 3: "$C", 4: "~and(~wf(State, $chanT.CLOSED), ~in(" + own + "))"},
				Any: all("ne(field:State(" + own + "), $chanT.CLOSED)")})
	}
	if rr := c.Run(which, "core/keeper.Keeper.ChannelCloseConfirm"); rr != nil {
		exp := "~and(~wf(State, $chanT.CLOSED), ~wf(Ordering, field:Ordering(" + own + ")), " + cpty("$P", "$C") + ", " + hops(conn) + ", ~wf(Version, field:Version(" + own + ")))"
		c.Check(which, "C12/close-confirm", c.Calls(rr, setCh), 1, m, nil,
			Req{Name: "not-CLOSED-to-CLOSED", Args: map[int]string{2: "$P", 3: "$C", 4: "~and(~wf(State, $chanT.CLOSED), ~in(" + own + "))"},
				Any: all("ne(field:State(" + own + "), $chanT.CLOSED)")},
			Req{Name: "after-proof-of-counterparty-CLOSED", Any: all(
				verify(conn, "ProofInit", "field:PortId(field:Counterparty("+own+"))", "field:ChannelId(field:Counterparty("+own+"))", exp),
			)},
		)
	}
	// ---- the application callbacks of the handshake run before the write and their error aborts it
	for _, x := range []struct{ entry, seam string }{
		{"core/keeper.Keeper.ChannelOpenInit", "OnChanOpenInit"}, {"core/keeper.Keeper.ChannelOpenTry", "OnChanOpenTry"},
		{"core/keeper.Keeper.ChannelOpenAck", "OnChanOpenAck"}, {"core/keeper.Keeper.ChannelOpenConfirm", "OnChanOpenConfirm"},
		{"core/keeper.Keeper.ChannelCloseInit", "OnChanCloseInit"}, {"core/keeper.Keeper.ChannelCloseConfirm", "OnChanCloseConfirm"},
	} {
		if rr := c.Run(which, x.entry); rr != nil {
			// (Ack/Confirm write first and rely on the transaction being reverted; the
			// handler must still fail when the callback fails)
			c.CheckRets(which, "C12/callback/"+x.seam, rr, NilErr(e), 1, m,
				Req{Name: "success-requires-callback-ok", Any: all("ok(call:iface:core/05-port/types.IBCModule." + x.seam + ")")})
		}
	}
	// ---- nobody else writes channel ends
	c.CallerTable(which, "C12/writers", []CallerRule{
		{Callee: "core/04-channel/keeper.Keeper.SetChannel", Allowed: []string{
			"core/04-channel/keeper.Keeper.WriteOpenInitChannel", "core/04-channel/keeper.Keeper.WriteOpenTryChannel",
			"core/04-channel/keeper.Keeper.WriteOpenAckChannel", "core/04-channel/keeper.Keeper.WriteOpenConfirmChannel",
			"core/04-channel/keeper.Keeper.ChanCloseInit", "core/04-channel/keeper.Keeper.ChanCloseConfirm",
			"core/04-channel/keeper.Keeper.timeoutExecuted", "core/04-channel.InitGenesis",
			"core/04-channel/migrations/v10.handleChannelMigration", // one-off store migration (upgrade states removed)
		}, Min: 8},
		{Callee: "core/04-channel/keeper.Keeper.WriteOpenInitChannel", Allowed: []string{"core/keeper.Keeper.ChannelOpenInit"}, Min: 1},
		{Callee: "core/04-channel/keeper.Keeper.WriteOpenTryChannel", Allowed: []string{"core/keeper.Keeper.ChannelOpenTry"}, Min: 1},
		{Callee: "core/04-channel/keeper.Keeper.WriteOpenAckChannel", Allowed: []string{"core/keeper.Keeper.ChannelOpenAck"}, Min: 1},
		{Callee: "core/04-channel/keeper.Keeper.WriteOpenConfirmChannel", Allowed: []string{"core/keeper.Keeper.ChannelOpenConfirm"}, Min: 1},
	})
	c.WriterTable(which, "C12/store-writers", []FamilyRule{
		{Family: "channelEnds/ports/", Ops: "set", Allowed: []string{"core/04-channel/keeper.Keeper.SetChannel"}, Min: 1},
		{Family: "channelEnds/ports/", Ops: "delete", Min: 0},
	})
}
