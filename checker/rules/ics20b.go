package rules

import (
	"fmt"
	"strings"

	"ibcverif/automata"
	"ibcverif/interp"
	"ibcverif/relang"
	"ibcverif/term"
)

// sdkDenomRegex is cosmos-sdk's default coin denomination expression
// (types/coin.go, reDnmString). A chain may install another one
// (SetCoinDenomRegex); the decision below is for the default.
const sdkDenomRegex = `^[a-zA-Z][a-zA-Z0-9/:._-]{2,127}$`

func init() {
	Register(&Prop{ID: "C33", Title: "Vouchers can always return over their channel as the original token",
		Technique: "regular-language decision (product automata over the validators' own expressions, read from the source): does the v1 denomination-path parser split any base denomination that the origin chain accepts for transfer; plus abstract interpretation (go/ssa): release of the denomination minus its first hop from the receiving channel's escrow, decoding of v1 packet data through that parser, packet data built from the stored full denomination of a voucher",
		LevelText: "Decides (1) whether some denomination accepted by MsgTransfer validation as a native base denomination (cosmos-sdk default denom expression, not ibc/…) is split by ExtractDenomFromPath into a non-empty trace with a non-blank base — for such a denomination the returning voucher is mapped to ibc/hash(remaining path) instead of the native denomination and cannot be released; the language question is decided exactly from the channel/client identifier expressions in the source and the parser's hop condition, and a witness is produced; (2) that on a returning packet the origin releases amount×(denomination minus first hop) from the receiving channel's escrow to the receiver; (3) that v1 packet data is decoded through ExtractDenomFromPath after validation and a voucher is sent with the full path stored for its hash; (4) that the transfer application nowhere compares the length of the full path, the number of hops or the number of separators with a constant (other than an emptiness test): every hop enlarges these, so such a bound would refuse the return of a voucher whose forward transfer was accepted. Does not decide liveness ('can always') beyond these necessary conditions.",
		Note:      "go/types + go/ssa + regexp/syntax; cosmos-sdk default denom regex assumed", Design: "§5 C33", Run: runC33})
	Register(&Prop{ID: "C34", Title: "Denomination paths round-trip and determine voucher names",
		Technique: "abstract interpretation (go/ssa): composition of IBCDenom/Hash/Path, key of the denomination store, agreement of the separator used by the path writer, the hop printer and the path parser, adjacency of the parts the parser pairs into hops; exact unambiguity decision (automata) of the escrow-address preimage layout over the identifier alphabet",
		LevelText: "Decides that the voucher denomination is the base when the trace is empty and otherwise \"ibc/\"+format(sha256(bytes(Path()))) of the same denomination; that denominations are stored under sha256(bytes(Path())) and that the denomination stored on receive is the one whose voucher is minted; that Path writes each hop as port \"/\" channel followed by \"/\" and then the base, that the parser splits and re-joins on the same \"/\" and builds each hop from two adjacent parts with the base being the re-joined remainder; and that the escrow-address preimage \"ics20-1\" 0x00 port \"/\" channel is uniquely decodable over the identifier alphabet, so distinct (port, channel) pairs have distinct preimages. Does not decide string-level round-tripping for every input by itself (it follows from the listed structure for paths with a non-blank base), nor SHA-256 collision freedom.",
		Note:      "go/types + go/ssa; sha256 and HexBytes formatting trusted", Design: "§5 C34", Run: runC34})
}

func runC33(c *Ctx) {
	const which = "main"
	e := ics20Engine(c, which)
	if e == nil {
		return
	}
	// ---- (0) no fixed bound on a quantity that grows with every hop
	c.c33SizeBounds(which)
	// ---- (1) native denominations that the path parser splits
	chanRE, pos1 := c.regexLiteral(which, "core/04-channel/types", "IsChannelIDFormat")
	cliRE, _ := c.regexLiteral(which, "core/02-client/types", "IsClientIDFormat")
	if chanRE == "" || cliRE == "" {
		c.undecided("C33/parser/expressions", xferT+".ExtractDenomFromPath", "", "channel/client identifier expressions not found in the source")
	} else if !c.hopConditionShape(which) {
		c.undecided("C33/parser/hop-condition", xferT+".ExtractDenomFromPath", "", "the parser's hop condition is not the known (more than two parts, next part is a channel or client identifier) form; the language rule does not apply")
	} else {
		native, err1 := relang.Compile(sdkDenomRegex)
		ch, err2 := relang.Compile(chanRE)
		cl, err3 := relang.Compile(cliRE)
		seg, err4 := relang.Compile(`^[^/]*$`)
		rest, err5 := relang.Compile(`^.*[^ \t\n/].*$`) // a remainder whose base part is not blank
		notVoucher, err6 := relang.Compile(`^([^i].*|i[^b].*|ib[^c].*|ibc[^/].*|.{0,3})$`)
		if err1 != nil || err2 != nil || err3 != nil || err4 != nil || err5 != nil || err6 != nil {
			c.undecided("C33/parser/expressions", xferT+".ExtractDenomFromPath", "", fmt.Sprintf("cannot compile expressions: %v %v %v %v %v %v", err1, err2, err3, err4, err5, err6))
		} else {
			// exact part of the hop language: channel identifiers whose sequence parses as uint64 (at most 19 digits
			// never overflows), and the localhost client id. Client identifiers carry further checks (type, length)
			// beyond their expression, so they only count for the all-clear, not for a witness.
			chSafe, _ := relang.Compile(`^channel-[0-9]{1,19}$`)
			exact := relang.Concat(seg, relang.Lit("/"), relang.Union(chSafe, relang.Lit("09-localhost")), relang.Lit("/"), rest)
			over := relang.Concat(seg, relang.Lit("/"), relang.Union(ch, cl, relang.Lit("09-localhost")), relang.Lit("/"), rest)
			yes, w := relang.Intersect(native, notVoucher, exact, relang.Concat(seg, relang.Lit("/"), ch, relang.Lit("/"), rest))
			if !yes {
				yes, w = relang.Intersect(native, notVoucher, exact)
			}
			construct := xferT + ".ExtractDenomFromPath native denomination with identifier-shaped second segment"
			switch {
			case yes:
				c.bad("C33/native-denom-split-by-path-parser", construct, pos1,
					fmt.Sprintf("a denomination accepted as native for transfer, e.g. %q, is parsed from a v1 packet as trace+base; the voucher returning over its channel is mapped to ibc/hash(rest) instead of the native denomination and the escrowed tokens cannot be released", w))
			default:
				if maybe, w2 := relang.Intersect(native, notVoucher, over); maybe {
					c.undecided("C33/native-denom-split-by-path-parser", construct, pos1, fmt.Sprintf("only client-identifier-shaped candidates such as %q remain; their acceptance depends on checks outside the expressions", w2))
				} else {
					c.ok("C33/native-denom-split-by-path-parser", construct, "", "no denomination accepted as native is split by the path parser")
				}
			}
		}
	}
	// ---- (2) the release on return
	c.ics20SendRecvTables(which, "C33")
	// ---- (3) decoding and encoding of the denomination
	// PacketDataV1ToV2(packetData#0)
	if rr := c.Run(which, xferT+".PacketDataV1ToV2"); rr != nil {
		n := 0
		for _, r := range rr.Rets {
			if !NilErr(e)(r) || len(r.Results) != 2 {
				continue
			}
			n++
			want := c.pats(which, nil, "~and(~wf(Token, ~and(~wf(Denom, call:"+xferT+".ExtractDenomFromPath(field:Denom(param#0))), ~wf(Amount, field:Amount(param#0)))), ~wf(Sender, field:Sender(param#0)), ~wf(Receiver, field:Receiver(param#0)))")[0]
			val := c.pats(which, nil, "ok(call:"+xferT+".FungibleTokenPacketData.ValidateBasic(param#0))")[0]
			if e.T.Any(want, setOf(r.Results[0]), nil) && e.T.Any(val, r.Atoms, nil) {
				c.ok("C33/decode", xferT+".PacketDataV1ToV2", "", "validated, then denom parsed from the path and amount/sender/receiver copied")
			} else {
				c.bad("C33/decode", xferT+".PacketDataV1ToV2", "", "conversion result is "+clip(e.T.String(r.Results[0]), 200))
			}
		}
		if n == 0 {
			c.bad("C33/decode", xferT+".PacketDataV1ToV2", "", "no success return")
		}
	}
	if rr := c.Run(which, xferT+".UnmarshalPacketData"); rr != nil {
		c.CheckRets(which, "C33/decode/unmarshal", rr, NilErr(e), 1, nil,
			Req{Name: "through-the-v1-conversion", Any: all("ok(call:" + xferT + ".PacketDataV1ToV2(_))")})
	}
	// TokenFromCoin(k#0, ctx#1, coin#2): a voucher is described by the stored denomination of its hash
	if rr := c.Run(which, xfer+".TokenFromCoin"); rr != nil {
		nV, nN := 0, 0
		for _, r := range rr.Rets {
			if !NilErr(e)(r) || len(r.Results) != 2 {
				continue
			}
			isV := e.T.Any(c.pats(which, nil, `F(call:strings.HasPrefix(field:Denom(param#2), "ibc/"))`)[0], r.Atoms, nil)
			if isV {
				nN++
				p := c.pats(which, nil, "~and(~wf(Denom, ~or(~wf(Base, field:Denom(param#2)), call:"+xferT+".NewDenom(field:Denom(param#2)))), ~wf(Amount, call:sdkmath.Int.String(field:Amount(param#2))))")[0]
				if !e.T.Any(p, setOf(r.Results[0]), nil) {
					c.bad("C33/encode/native", xfer+".TokenFromCoin", "", "a non-voucher coin is not described by its own denomination as base: "+clip(e.T.String(r.Results[0]), 160))
				}
			} else {
				nV++
				p := c.pats(which, nil, "~and(~wf(Denom, ~in(call:iface:*KVStore.Get)), ~wf(Amount, call:sdkmath.Int.String(field:Amount(param#2))))")[0]
				p2 := c.pats(which, nil, "~wf(Denom, extract:0(call:"+xfer+".GetDenomFromIBCDenom(param#0, param#1, field:Denom(param#2))))")[0]
				if !e.T.Any(p, setOf(r.Results[0]), nil) && !e.T.Any(p2, setOf(r.Results[0]), nil) {
					c.bad("C33/encode/voucher", xfer+".TokenFromCoin", "", "a voucher coin is not described by the denomination stored for its hash: "+clip(e.T.String(r.Results[0]), 160))
				}
			}
		}
		if nV > 0 && nN > 0 {
			c.ok("C33/encode", xfer+".TokenFromCoin", "", "native coins keep their name as base; vouchers use the stored denomination of their hash")
		} else {
			c.bad("C33/encode", xfer+".TokenFromCoin", "", fmt.Sprintf("expected a native and a voucher case, got %d/%d", nN, nV))
		}
	}
}

// hopConditionShape: in ExtractDenomFromPath a hop is taken exactly under
// i < len-1 && len > 2 && (IsValidChannelID(parts[i+1]) || IsValidClientID(parts[i+1])).
func (c *Ctx) hopConditionShape(which string) bool {
	e := c.Engine(which)
	fn := e.P.Funcs[xferT+".ExtractDenomFromPath"]
	if fn == nil {
		return false
	}
	// run with the default vocabulary (the function itself is opaque in the ics20 profile only for its callers)
	rr := e.Run(fn)
	hop := c.pats(which, nil, "call:"+xferT+".NewHop(index(?sp, ?i), index(?sp, binop:+(?i, 1)))")[0]
	n := 0
	for _, ev := range rr.Events {
		if ev.Kind != "call" || ev.Key != xferT+".NewHop" {
			continue
		}
		n++
		if !e.T.Match(hop, ev.Call, term.Env{}, func(term.Env) bool { return true }) {
			return false
		}
		okc := e.T.Any(c.pats(which, nil, "lt(2, len(?sp))")[0], ev.Atoms, nil) &&
			(e.T.Any(c.pats(which, nil, "T(call:core/04-channel/types.IsValidChannelID(index(_, binop:+(_, 1))))")[0], ev.Atoms, nil) ||
				e.T.Any(c.pats(which, nil, "T(call:core/02-client/types.IsValidClientID(index(_, binop:+(_, 1))))")[0], ev.Atoms, nil) ||
				e.T.Any(c.pats(which, nil, "ok(call:core/02-client/types.ParseClientIdentifier(index(_, binop:+(_, 1))))")[0], ev.Atoms, nil))
		if !okc {
			return false
		}
	}
	return n > 0
}

func runC34(c *Ctx) {
	const which = "main"
	e := c.Engine(which)
	if e == nil {
		return
	}
	// Path and the predicates stay opaque; IBCDenom/Hash are opened
	e.PureFn = func(k string) bool {
		return k == xferT+".Denom.Path" || k == xferT+".Denom.IsNative" || k == xferT+".Hop.String" || k == xferT+".NewHop"
	}
	pf := e.PureFn
	e.NoInline = func(k string) bool { return pf(k) || interp.DefaultNoInline(k) }
	any := func(src string, set term.Set) bool { return e.T.Any(c.pats(which, nil, src)[0], set, nil) }
	hash := func(d string) string { return "call:crypto/sha256.Sum256(conv:bytes(call:" + xferT + ".Denom.Path(" + d + ")))" }
	hashS := func(d string) string { return "~or(" + hash(d) + ", slice(" + hash(d) + ", _, _), sliceof(" + hash(d) + "))" }
	// ---- IBCDenom / Hash
	if rr := c.Run(which, xferT+".Denom.IBCDenom"); rr != nil {
		nN, nV := 0, 0
		for _, ev := range rr.Events {
			if ev.Kind != "return" || len(ev.Args) != 1 {
				continue
			}
			switch {
			case any("T(call:"+xferT+".Denom.IsNative(param#0))", ev.Atoms):
				nN++
				if e.T.String(ev.Args[0]) != "field:Base(param#0)" {
					c.bad("C34/ibc-denom", xferT+".Denom.IBCDenom", e.P.Pos(ev.Instr.Pos()), "a denomination without trace is named "+clip(e.T.String(ev.Args[0]), 120)+", not by its base")
				}
			default:
				nV++
				if !any(`call:fmt.Sprintf("%s/%s", "ibc", `+hashS("param#0")+`)`, setOf(ev.Args[0])) {
					c.bad("C34/ibc-denom", xferT+".Denom.IBCDenom", e.P.Pos(ev.Instr.Pos()), "a traced denomination is named "+clip(e.T.String(ev.Args[0]), 160)+", not ibc/<sha256 of its path>")
				}
			}
		}
		if nN > 0 && nV > 0 {
			c.ok("C34/ibc-denom", xferT+".Denom.IBCDenom", "", "base when native, otherwise \"ibc/\" + sha256(bytes(Path()))")
		} else {
			c.bad("C34/ibc-denom", xferT+".Denom.IBCDenom", "", "expected a native and a traced return")
		}
	}
	if rr := c.Run(which, xferT+".Denom.Hash"); rr != nil {
		good := len(rr.Rets) > 0
		for _, r := range rr.Rets {
			if len(r.Results) != 1 || !any(hashS("param#0"), setOf(r.Results[0])) {
				good = false
				c.bad("C34/hash", xferT+".Denom.Hash", "", "Hash is "+clip(e.T.String(r.Results[0]), 160))
			}
		}
		if good {
			c.ok("C34/hash", xferT+".Denom.Hash", "", "sha256(bytes(Path()))")
		}
	}
	// ---- the denomination store is keyed by the hash of the full path
	if rr := c.Run(which, xfer+".SetDenom"); rr != nil {
		c.Check(which, "C34/store", c.Calls(rr, "*Store.Set"), 1, nil, nil,
			Req{Name: "keyed-by-hash-of-path-under-denom-prefix", Args: map[int]string{0: "call:prefix.NewStore(_, arr(3))", 1: hashS("param#2"), 2: "~in(param#2)"}})
	}
	// the denomination stored on receive is the one minted
	if rr := c.Run(which, xfer+".OnRecvPacket"); rr != nil {
		den := "field:Denom(field:Token(param#2))"
		d := "with:Trace(" + den + ", append(arr(call:" + xferT + ".NewHop(param#5, param#6)), field:Trace(" + den + ")))"
		c.Check(which, "C34/recv/stored-denom", c.Calls(rr, xfer+".SetDenom"), 1, nil, nil,
			Req{Name: "full-received-path", Args: map[int]string{2: d}})
		mint := c.Calls(rr, "iface:"+xferT+".BankKeeper.MintCoins")
		c.Check(which, "C34/recv/minted-denom", mint, 1, nil, nil,
			Req{Name: "voucher-of-the-stored-path", Args: map[int]string{3: `call:sdk.NewCoins(call:sdk.NewCoin(~or(call:` + xferT + `.Denom.IBCDenom(` + d + `), call:fmt.Sprintf("%s/%s", "ibc", ` + hashS(d) + `)), _))`},
				Any: [][]string{{"T(call:" + xfer + ".HasDenom(param#0, param#1, " + hashS(d) + "))"}, {"call:" + xfer + ".SetDenom(param#0, param#1, " + d + ")"}}})
	}
	// ---- separators: writer, hop printer and parser agree on "/"
	c.separators(which)
	// ---- escrow address preimage
	if rr := c.Run(which, xferT+".GetEscrowAddress"); rr != nil {
		cls, _, okc := c.idClass(which)
		good := false
		for _, ev := range c.Calls(rr, "crypto/sha256.Sum256") {
			if len(ev.Args) != 1 {
				continue
			}
			segs := e.T.Layout(ev.Args[0])
			lay := e.T.LayoutString(segs)
			var as []automata.Seg
			known := okc
			for _, s := range segs {
				switch s.Kind {
				case 'L':
					as = append(as, automata.Seg{Kind: 'L', Lit: []byte(s.Lit)})
				case 'S':
					as = append(as, automata.Seg{Kind: 'C', Class: cls})
				default:
					known = false
				}
			}
			nS := 0
			for _, s := range segs {
				if s.Kind == 'S' {
					nS++
				}
			}
			if !known || nS != 2 {
				c.bad("C34/escrow-address", xferT+".GetEscrowAddress", e.P.Pos(ev.Instr.Pos()), "preimage layout "+lay+" is not literal/port/channel shaped")
				continue
			}
			if amb, w := automata.Ambiguous(automata.Build(as)); amb {
				c.bad("C34/escrow-address", xferT+".GetEscrowAddress", e.P.Pos(ev.Instr.Pos()), fmt.Sprintf("preimage layout %s is ambiguous: %q decodes to two (port, channel) pairs", lay, w))
			} else if !strings.HasPrefix(lay, `"ics20-1\x00`) && !strings.Contains(lay, "ics20-1") {
				c.bad("C34/escrow-address", xferT+".GetEscrowAddress", e.P.Pos(ev.Instr.Pos()), "preimage layout "+lay+" lost its version prefix")
			} else {
				good = true
				c.ok("C34/escrow-address", xferT+".GetEscrowAddress", e.P.Pos(ev.Instr.Pos()), "preimage "+lay+" uniquely decodable over the identifier alphabet; address = first 20 bytes of its sha256")
			}
		}
		if !good {
			c.bad("C34/escrow-address", xferT+".GetEscrowAddress", "", "no decidable preimage found")
		}
		for _, r := range rr.Rets {
			if len(r.Results) == 1 && !any("slice(call:crypto/sha256.Sum256(_), 0, 20)", setOf(r.Results[0])) {
				c.bad("C34/escrow-address/result", xferT+".GetEscrowAddress", "", "result is "+clip(e.T.String(r.Results[0]), 120))
			}
		}
	}
}

// separators: Path writes hop "/" … base; Hop.String is port "/" channel; the parser splits and joins on "/".
func (c *Ctx) separators(which string) {
	e := c.Engine(which)
	any := func(src string, set term.Set) bool { return e.T.Any(c.pats(which, nil, src)[0], set, nil) }
	good := true
	// Path(d#0)
	if fn := e.P.Funcs[xferT+".Denom.Path"]; fn != nil {
		rr := e.Run(fn)
		nHop, nSep, nBase := 0, 0, 0
		for _, ev := range rr.Events {
			if ev.Kind != "call" {
				continue
			}
			switch ev.Key {
			case "strings.Builder.WriteByte":
				nSep++
				if len(ev.Args) != 2 || e.T.String(ev.Args[1]) != "47" {
					good = false
					c.bad("C34/separators", xferT+".Denom.Path", e.P.Pos(ev.Instr.Pos()), "writes separator byte "+e.T.String(ev.Args[1])+" instead of '/'")
				}
			case "strings.Builder.WriteString":
				if len(ev.Args) == 2 && any("call:"+xferT+".Hop.String(_)", setOf(ev.Args[1])) {
					nHop++
				} else if len(ev.Args) == 2 && e.T.String(ev.Args[1]) == "field:Base(param#0)" {
					nBase++
				} else {
					good = false
					c.bad("C34/separators", xferT+".Denom.Path", e.P.Pos(ev.Instr.Pos()), "writes "+clip(e.T.String(ev.Args[1]), 80)+" into the path")
				}
			}
		}
		if nHop == 0 || nSep == 0 || nBase == 0 {
			good = false
			c.bad("C34/separators", xferT+".Denom.Path", "", fmt.Sprintf("path writer shape not recognised (hop writes %d, separators %d, base writes %d)", nHop, nSep, nBase))
		}
		// native: the base itself
		okN := false
		for _, ev := range rr.Events {
			if ev.Kind == "return" && len(ev.Args) == 1 && e.T.String(ev.Args[0]) == "field:Base(param#0)" && any("T(call:"+xferT+".Denom.IsNative(param#0))", ev.Atoms) {
				okN = true
			}
		}
		if !okN {
			good = false
			c.bad("C34/separators", xferT+".Denom.Path", "", "a denomination without trace is not printed as its base")
		}
	}
	if fn := e.P.Funcs[xferT+".Hop.String"]; fn != nil {
		rr := e.Run(fn)
		for _, r := range rr.Rets {
			if len(r.Results) != 1 || !any(`call:fmt.Sprintf("%s/%s", field:PortId(param#0), field:ChannelId(param#0))`, setOf(r.Results[0])) {
				good = false
				c.bad("C34/separators", xferT+".Hop.String", "", "hop printed as "+clip(e.T.String(r.Results[0]), 120))
			}
		}
	}
	if fn := e.P.Funcs[xferT+".ExtractDenomFromPath"]; fn != nil {
		rr := e.Run(fn)
		nSplit, nJoin, nHop := 0, 0, 0
		for _, ev := range rr.Events {
			if ev.Kind != "call" || topKey(ev.Fn) != xferT+".ExtractDenomFromPath" {
				continue // calls made by inlined validators are not the parser's own
			}
			switch ev.Key {
			case "strings.Split":
				nSplit++
				if len(ev.Args) != 2 || e.T.String(ev.Args[0]) != "param#0" || e.T.String(ev.Args[1]) != `"/"` {
					good = false
					c.bad("C34/separators", xferT+".ExtractDenomFromPath", e.P.Pos(ev.Instr.Pos()), "splits "+clip(e.T.String(ev.Args[0]), 60)+" on "+e.T.String(ev.Args[1]))
				}
			case "strings.Join":
				nJoin++
				if len(ev.Args) != 2 || e.T.String(ev.Args[1]) != `"/"` || !any(`~or(slice(call:strings.Split(param#0, "/"), _, nil), nil, phi#*)`, setOf(ev.Args[0])) {
					good = false
					c.bad("C34/separators", xferT+".ExtractDenomFromPath", e.P.Pos(ev.Instr.Pos()), "base is joined from "+clip(e.T.String(ev.Args[0]), 80)+" with "+e.T.String(ev.Args[1]))
				}
			case xferT + ".NewHop":
				nHop++
				if !any(`call:`+xferT+`.NewHop(index(call:strings.Split(param#0, "/"), ?i), index(call:strings.Split(param#0, "/"), binop:+(?i, 1)))`, setOf(ev.Call)) {
					good = false
					c.bad("C34/separators", xferT+".ExtractDenomFromPath", e.P.Pos(ev.Instr.Pos()), "a hop is built from non-adjacent parts: "+clip(e.T.String(ev.Call), 160))
				}
			}
		}
		if nSplit == 0 || nJoin == 0 || nHop == 0 {
			good = false
			c.bad("C34/separators", xferT+".ExtractDenomFromPath", "", fmt.Sprintf("parser shape not recognised (split %d, join %d, hop %d)", nSplit, nJoin, nHop))
		}
	}
	if good {
		c.ok("C34/separators", xferT, "", "Path, Hop.String and ExtractDenomFromPath all use \"/\"; hops are adjacent parts; the base is the re-joined remainder")
	}
}
