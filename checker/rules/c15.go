package rules

import (
	"ibcverif/interp"
	"fmt"
	"go/ast"
	"go/token"
	"regexp"
	"strconv"
	"strings"

	"ibcverif/term"
)

func init() {
	Register(&Prop{ID: "C15", Title: "Generated identifiers are unique and parse back to their parts",
		Technique: "abstract interpretation (go/ssa): returned identifier layout = prefix ‖ decimal(stored counter) paired with counter+1 write on the same key; writer/caller tables of the counter families; 64-bit base-10 parse with propagated error; identifier regular expressions (read from source) decided on boundary strings",
		LevelText: "Decides that each Generate*Identifier returns format(prefix, stored counter) and rewrites that same counter key to counter+1 on every path, that the three counters have no other writers than genesis import, that every sequence parse goes through strconv.ParseUint(_, 10, 64) with its error propagated and its value returned, and that the identifier formats accept every decimal uint64 (and nothing with 21 digits) so generated identifiers pass validation. Does not decide the Format∘Parse round trip for every client-type string.",
		Note:      "go/types + go/ssa; fmt %d renders an unsigned integer in canonical decimal", Design: "§5 C15", Run: runC15})
}

func runC15(c *Ctx) {
	const which = "main"
	e := c.Engine(which)
	if e == nil {
		return
	}
	gens := []struct{ fn, layout, counter, setter string }{
		{"core/02-client/keeper.Keeper.GenerateClientIdentifier", "{s}-{d}", "nextClientSequence", "core/02-client/keeper.Keeper.SetNextClientSequence"},
		{"core/03-connection/keeper.Keeper.GenerateConnectionIdentifier", "connection-{d}", "nextConnectionSequence", "core/03-connection/keeper.Keeper.SetNextConnectionSequence"},
		{"core/04-channel/keeper.Keeper.GenerateChannelIdentifier", "channel-{d}", "nextChannelSequence", "core/04-channel/keeper.Keeper.SetNextChannelSequence"},
	}
	for _, g := range gens {
		rr := c.Run(which, g.fn)
		if rr == nil {
			continue
		}
		ctr := "call:sdk.BigEndianToUint64(extract:0($KVGet(?s, ~and(?k, conv:bytes(\"" + g.counter + "\")))))"
		pCtr := c.pats(which, nil, ctr)[0]
		good := len(rr.Rets) > 0
		for _, r := range rr.Rets {
			if len(r.Results) != 1 {
				good = false
				continue
			}
			segs := e.T.Layout(r.Results[0])
			ls := e.T.LayoutString(segs)
			if ls != g.layout {
				c.bad("C15/generate/format", g.fn, "", fmt.Sprintf("returned identifier has layout %q, expected %q", ls, g.layout))
				good = false
				continue
			}
			var dec term.ID
			for _, s := range segs {
				if s.Kind == 'D' {
					dec = s.T
				}
			}
			var env term.Env
			if !e.T.Match(pCtr, dec, term.Env{}, func(en term.Env) bool { env = en; return true }) {
				c.bad("C15/generate/format", g.fn, "", "the number in the identifier is "+clip(e.T.String(dec), 160)+", not the stored counter "+g.counter)
				good = false
				continue
			}
			env["n"] = dec
			inc := c.pats(which, nil, "$KVSet(?s, ?k, call:sdk.Uint64ToBigEndian(binop:+(?n, 1)))")[0]
			if !e.T.Any(inc, r.Atoms, env) {
				c.bad("C15/generate/increment", g.fn, "", "a path returns an identifier without storing counter+1 under "+g.counter)
				good = false
			}
		}
		if good {
			c.ok("C15/generate", g.fn, "", "identifier = "+g.layout+" of the stored counter; counter+1 stored on every path")
		}
		c.CallerTable(which, "C15/counter-callers", []CallerRule{{Callee: g.setter, Allowed: []string{g.fn,
			"core/02-client.InitGenesis", "core/02-client/keeper.Keeper.InitGenesis", "core/03-connection.InitGenesis", "core/04-channel.InitGenesis"}, Min: 2}})
	}
	c.WriterTable(which, "C15/counter-writers", []FamilyRule{
		{Family: "nextClientSequence", Ops: "set", Allowed: []string{"core/02-client/keeper.Keeper.SetNextClientSequence"}, Min: 1},
		{Family: "nextConnectionSequence", Ops: "set", Allowed: []string{"core/03-connection/keeper.Keeper.SetNextConnectionSequence"}, Min: 1},
		{Family: "nextChannelSequence", Ops: "set", Allowed: []string{"core/04-channel/keeper.Keeper.SetNextChannelSequence"}, Min: 1},
		{Family: "nextClientSequence", Ops: "delete", Min: 0},
		{Family: "nextConnectionSequence", Ops: "delete", Min: 0},
		{Family: "nextChannelSequence", Ops: "delete", Min: 0},
	})
	// ---- an imported genesis must leave the counter strictly above every identifier in use
	for _, g := range []struct{ fn, field string }{
		{"core/02-client/types.GenesisState.Validate", "NextClientSequence"},
		{"core/03-connection/types.GenesisState.Validate", "NextConnectionSequence"},
		{"core/04-channel/types.GenesisState.Validate", "NextChannelSequence"},
	} {
		if rr := c.Run(which, g.fn); rr != nil {
			// a rejecting branch guarded by  max != 0 && next <= max  must exist
			var rejects []*interp.Event
			for _, k := range []string{"errorsmod.Wrapf", "fmt.Errorf", "errorsmod.Wrap"} {
				for _, ev := range c.Calls(rr, k) {
					if ev.Fn == rr.Fn {
						rejects = append(rejects, ev)
					}
				}
			}
			c.Exists(which, "C15/genesis-counter", g.fn, rejects, nil,
				Req{Name: g.field + "-must-exceed-max-used", Any: all("le(field:"+g.field+"(param#0), ~or(phi#*, top#*))")})
		}
	}
	// ---- parsing: 64-bit base 10, error propagated, value returned
	for _, p := range []struct {
		fn  string
		seq int
	}{{"core/02-client/types.ParseClientIdentifier", 1}, {"core/24-host.ParseIdentifier", 0}} {
		rr := c.Run(which, p.fn)
		if rr == nil {
			continue
		}
		evs := c.Calls(rr, "strconv.ParseUint")
		c.Check(which, "C15/parse/"+shortEntry(p.fn), evs, 1, nil, nil, Req{Name: "base-10-64-bit", Args: map[int]string{1: "10", 2: "64"}})
		for _, bad := range []string{"strconv.Atoi", "strconv.ParseInt"} {
			if len(c.Calls(rr, bad)) > 0 {
				c.bad("C15/parse/"+shortEntry(p.fn), p.fn, "", "parses the sequence with "+bad+" (not an unsigned 64-bit parse)")
			}
		}
		okAll := true
		n := 0
		for _, r := range rr.Rets {
			if !NilErr(e)(r) {
				continue
			}
			res := r.Results[p.seq]
			if e.T.Op(res) == "0" && p.seq == 1 { // localhost short-cut returns sequence 0
				continue
			}
			n++
			pu := c.pats(which, nil, "extract:0(~and(?pu, call:strconv.ParseUint(_, 10, 64)))")[0]
			var env term.Env
			if !e.T.Match(pu, res, term.Env{}, func(en term.Env) bool { env = en; return true }) {
				c.bad("C15/parse/"+shortEntry(p.fn), p.fn, "", "returned sequence is "+clip(e.T.String(res), 120)+", not the result of ParseUint(_, 10, 64)")
				okAll = false
				continue
			}
			if !e.T.Any(c.pats(which, nil, "ok(?pu)")[0], r.Atoms, env) {
				c.bad("C15/parse/"+shortEntry(p.fn), p.fn, "", "returns success without checking ParseUint's error")
				okAll = false
			}
		}
		if okAll && n > 0 {
			c.ok("C15/parse/"+shortEntry(p.fn), p.fn, "", "sequence = ParseUint(_, 10, 64), error propagated")
		} else if n == 0 {
			c.bad("C15/parse/"+shortEntry(p.fn), p.fn, "", "no successful return class found")
		}
	}
	// the channel/connection parsers delegate to host.ParseIdentifier after the format check
	for _, x := range []struct{ fn, prefix string }{{"core/03-connection/types.ParseConnectionSequence", "connection-"}, {"core/04-channel/types.ParseChannelSequence", "channel-"}} {
		if rr := c.Run(which, x.fn); rr != nil {
			c.CheckRets(which, "C15/parse/"+shortEntry(x.fn), rr, NilErr(e), 1, nil,
				Req{Name: "format-checked-then-parsed", Any: all("T(call:dyn(gv:*Is*IDFormat, param#0))", "ok(call:core/24-host.ParseIdentifier(param#0, \""+x.prefix+"\"))")})
		}
	}
	// ---- identifier formats: accept every decimal uint64, reject 21 digits
	for _, x := range []struct{ pkg, v, sample string }{
		{"core/02-client/types", "IsClientIDFormat", "07-tendermint-"},
		{"core/03-connection/types", "IsConnectionIDFormat", "connection-"},
		{"core/04-channel/types", "IsChannelIDFormat", "channel-"},
	} {
		lit, where := c.regexLiteral(which, x.pkg, x.v)
		if lit == "" {
			c.undecided("C15/format", x.pkg+"."+x.v, "", "cannot find the regular expression literal behind "+x.v)
			continue
		}
		re, err := regexp.Compile(lit)
		if err != nil {
			c.undecided("C15/format", x.pkg+"."+x.v, where, "regular expression does not compile: "+err.Error())
			continue
		}
		max := strconv.FormatUint(^uint64(0), 10)
		switch {
		case !re.MatchString(x.sample+"0") || !re.MatchString(x.sample+max):
			c.bad("C15/format", x.pkg+"."+x.v, where, "identifier format "+lit+" rejects a generated identifier (sequence 0 or 2^64-1)")
		case re.MatchString(x.sample + max + "0"):
			c.bad("C15/format", x.pkg+"."+x.v, where, "identifier format "+lit+" accepts a 21-digit sequence")
		case re.MatchString(x.sample+"1x") || re.MatchString(x.sample+"-"):
			c.bad("C15/format", x.pkg+"."+x.v, where, "identifier format "+lit+" accepts a non-numeric sequence")
		default:
			c.ok("C15/format", x.pkg+"."+x.v, where, "accepts prefix+0 .. prefix+2^64-1, rejects 21 digits and non-digits")
		}
	}
}

// regexLiteral finds `var <name> = regexp.MustCompile(<lit>)...` in a package.
func (c *Ctx) regexLiteral(which, pkgShort, name string) (string, string) {
	P := c.Prog(which)
	if P == nil {
		return "", ""
	}
	for _, p := range P.Pkgs {
		if !strings.HasSuffix(p.PkgPath, "/"+pkgShort) {
			continue
		}
		for _, f := range p.Syntax {
			for _, d := range f.Decls {
				gd, ok := d.(*ast.GenDecl)
				if !ok || gd.Tok != token.VAR {
					continue
				}
				for _, sp := range gd.Specs {
					vs := sp.(*ast.ValueSpec)
					for i, n := range vs.Names {
						if n.Name != name || i >= len(vs.Values) {
							continue
						}
						lit := ""
						ast.Inspect(vs.Values[i], func(x ast.Node) bool {
							if bl, ok := x.(*ast.BasicLit); ok && bl.Kind == token.STRING && lit == "" {
								if s, err := strconv.Unquote(bl.Value); err == nil {
									lit = s
								}
							}
							return true
						})
						return lit, P.Pos(vs.Pos())
					}
				}
			}
		}
	}
	return "", ""
}
