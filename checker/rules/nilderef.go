package rules

import (
	"go/token"
	"go/types"

	"golang.org/x/tools/go/ssa"
)

// Part of the panic lint (C47, C35): dereference of a value that is nil whenever a preceding "comma-ok" operation
// failed. The sources recognised are exactly the ones whose zero result is nil by construction:
//
//	v, ok := x.(*T) / x.(I)      — v is nil when ok is false
//	v, ok := m[k]  /  v := m[k]  — v is nil for a missing key when the map's value type is a pointer or interface
//
// A use that dereferences v (load through it, field address, method invocation on a nil interface, call of a
// method whose receiver is dereferenced is NOT followed — only direct dereferences) must be dominated by the
// branch of a test that establishes ok (or v != nil). This is a contradiction rule in Engler's sense: asking for
// ok and not looking at it states a belief that the operation cannot fail; if it can, the dereference panics.
func nilDerefs(fn *ssa.Function) []panicSiteT {
	var out []panicSiteT
	for _, b := range fn.Blocks {
		for _, ins := range b.Instrs {
			var x ssa.Value
			switch ins := ins.(type) {
			case *ssa.UnOp:
				if ins.Op == token.MUL {
					x = ins.X
				}
			case *ssa.FieldAddr:
				x = ins.X
			case *ssa.Store:
				x = ins.Addr
			case *ssa.IndexAddr:
				if _, ok := ins.X.Type().Underlying().(*types.Pointer); ok {
					x = ins.X
				}
			case ssa.CallInstruction:
				if ins.Common().IsInvoke() {
					x = ins.Common().Value
				}
			}
			if x == nil {
				continue
			}
			src, okv := maybeNilSource(x)
			if src == "" {
				continue
			}
			if establishedNonNil(x, okv, b) {
				continue
			}
			out = append(out, panicSiteT{panicSite{kind: "nil-dereference", detail: "dereferences the result of " + src + " without a dominating check that it succeeded (nil when it fails)"}, ins.Pos()})
		}
	}
	return out
}

// maybeNilSource: x is the value result of a comma-ok type assertion / map lookup (or a plain map lookup) whose
// failure value is nil. Returns a description and the ok value if the code extracts one.
func maybeNilSource(x ssa.Value) (string, ssa.Value) {
	nilable := func(t types.Type) bool {
		switch t.Underlying().(type) {
		case *types.Pointer, *types.Interface:
			return true
		}
		return false
	}
	switch v := x.(type) {
	case *ssa.Extract:
		if v.Index != 0 || !nilable(v.Type()) {
			return "", nil
		}
		var what string
		switch t := v.Tuple.(type) {
		case *ssa.TypeAssert:
			if !t.CommaOk {
				return "", nil
			}
			what = "a comma-ok type assertion to " + t.AssertedType.String()
		case *ssa.Lookup:
			if !t.CommaOk {
				return "", nil
			}
			what = "a comma-ok map lookup"
		default:
			return "", nil
		}
		var okv ssa.Value
		for _, r := range *v.Tuple.Referrers() {
			if e, ok := r.(*ssa.Extract); ok && e.Index == 1 {
				okv = e
			}
		}
		return what, okv
	case *ssa.Lookup:
		if _, isMap := v.X.Type().Underlying().(*types.Map); isMap && !v.CommaOk && nilable(v.Type()) {
			return "a map lookup (nil for a missing key)", nil
		}
	case *ssa.UnOp:
		// a load of a pointer- or interface-typed local whose address was handed to encoding/json: the JSON
		// literal null stores nil there and Unmarshal returns no error
		if v.Op != token.MUL || !nilable(v.Type()) {
			return "", nil
		}
		if al, ok := v.X.(*ssa.Alloc); ok && jsonDecodedInto(al) {
			return "encoding/json decoding into a pointer/interface variable (the JSON literal null stores nil without an error)", nil
		}
	}
	return "", nil
}

// jsonDecodedInto: the address of the local is passed (as an interface) to json.Unmarshal or (*json.Decoder).Decode.
func jsonDecodedInto(al *ssa.Alloc) bool {
	for _, r := range *al.Referrers() {
		mi, ok := r.(*ssa.MakeInterface)
		if !ok {
			continue
		}
		for _, u := range *mi.Referrers() {
			ci, ok := u.(ssa.CallInstruction)
			if !ok || ci.Common().IsInvoke() {
				continue
			}
			f := ci.Common().StaticCallee()
			if f == nil || f.Pkg == nil || f.Pkg.Pkg.Path() != "encoding/json" {
				continue
			}
			if f.Name() == "Unmarshal" || f.Name() == "Decode" {
				return true
			}
		}
	}
	return false
}

// establishedNonNil: the block is dominated by the successor of a test that implies ok / x != nil, and that
// successor is entered only through that test.
func establishedNonNil(x, okv ssa.Value, blk *ssa.BasicBlock) bool {
	for _, b := range blk.Parent().Blocks {
		iff, ok := lastIf(b)
		if !ok {
			continue
		}
		onTrue, onFalse := impliesNonNil(iff.Cond, x, okv)
		for i, holds := range []bool{onTrue, onFalse} {
			if !holds {
				continue
			}
			s := b.Succs[i]
			if len(s.Preds) == 1 && dominates(s, blk) {
				return true
			}
		}
	}
	return false
}

// impliesNonNil: does cond being true (resp. false) imply that the operation succeeded?
func impliesNonNil(cond, x, okv ssa.Value) (onTrue, onFalse bool) {
	if okv != nil && cond == okv {
		return true, false
	}
	switch c := cond.(type) {
	case *ssa.UnOp:
		if c.Op == token.NOT {
			t, f := impliesNonNil(c.X, x, okv)
			return f, t
		}
	case *ssa.BinOp:
		isNil := func(v ssa.Value) bool {
			k, ok := v.(*ssa.Const)
			return ok && k.IsNil()
		}
		if (sameValue(c.X, x) && isNil(c.Y)) || (sameValue(c.Y, x) && isNil(c.X)) {
			switch c.Op {
			case token.NEQ:
				return true, false
			case token.EQL:
				return false, true
			}
		}
	}
	return false, false
}
