package rules

import (
	"fmt"
	"go/constant"
	"go/token"
	"go/types"
	"sort"
	"strings"

	"golang.org/x/tools/go/ssa"

	"ibcverif/load"
)

func init() {
	Register(&Prop{ID: "C47", Title: "Stateless validation and decoders never panic",
		Technique: "call-graph reachability (static callees plus ibc-go implementers of ibc-go interfaces) from every stateless-validation method and every parser/decoder entry point, with an SSA lint for constructs that can panic in ibc-go's own code: explicit panic, type assertion without comma-ok, calls to dependency functions documented to panic (Must*, constructors that validate by panicking), integer division by a non-constant, index/slice expressions not covered by a recognised bounds idiom, and dereferences of the result of a comma-ok type assertion / map lookup without a dominating success test (built-in positive and negative examples on every run); frozen allow-list with one reason per construct",
		LevelText: "Decides that no function of ibc-go reachable from a ValidateBasic/Validate method of a message, packet-data, acknowledgement, metadata or genesis type, or from the identifier/height/denomination parsers and the packet-data, memo, metadata, callback-data and ABI decoders, contains: an explicit panic, an unchecked type assertion, a call to a dependency function that panics on bad input, a division whose divisor is not a non-zero constant, or an index/slice operation outside the recognised safe idioms (range variable of the indexed value, constant index under a dominating length test, index bounded by a dominating comparison with len, full or prefix slice bounded by len) — except the allow-listed constructs, each with its reason. Also decides one class of nil dereference: the value of a comma-ok type assertion, of a map lookup with pointer/interface values, or of a pointer/interface variable that encoding/json decoded into (JSON null stores nil without an error) is dereferenced only where a dominating test established that the operation succeeded (or that the value is not nil). Dependencies (protobuf, amino, json, abi, big-number and SDK helper code) are trusted not to panic on their own; other nil-pointer dereferences (nested protobuf fields, values that flow through variables or calls) are not decided.",
		Note:      "go/types + go/ssa", Design: "§5 C47", Run: runC47})
}

// panicking dependency functions (validated by reading their documentation/source): prefix match on "<pkg>.<name>"
var panickingDeps = []string{
	"github.com/cosmos/cosmos-sdk/types.MustAccAddressFromBech32", "github.com/cosmos/cosmos-sdk/types.MustBech32ifyAddressBytes",
	"github.com/cosmos/cosmos-sdk/types.NewCoin", "github.com/cosmos/cosmos-sdk/types.NewCoins", "github.com/cosmos/cosmos-sdk/types.NewInt64Coin",
	"github.com/cosmos/cosmos-sdk/types.MustSortJSON", "github.com/cosmos/cosmos-sdk/codec.ProtoCodec.MustMarshal", "github.com/cosmos/cosmos-sdk/codec.ProtoCodec.MustUnmarshal",
	"github.com/cosmos/cosmos-sdk/codec.ProtoCodec.MustMarshalJSON", "github.com/cosmos/cosmos-sdk/codec.ProtoCodec.MustUnmarshalJSON",
	"cosmossdk.io/math.NewIntFromBigInt", "cosmossdk.io/math.Int.Quo", "cosmossdk.io/math.Int.QuoRaw", "cosmossdk.io/math.LegacyMustNewDecFromStr",
	"regexp.MustCompile", "strings.Repeat",
}

type panicSite struct {
	kind, fn, pos, detail string
}

// c47Allow: "<kind>|<function>" -> reason.
var c47Allow = map[string]string{
	"explicit-panic|apps/transfer/types.getICS20ABI":                      "construction of the ABI type from constant arguments; abi.NewType cannot fail for them, no input involved",
	"explicit-panic|apps/27-gmp/types.getICS27PacketABI":                  "construction of the ABI type from constant arguments; no input involved",
	"explicit-panic|apps/27-gmp/types.getICS27AckABI":                     "construction of the ABI type from constant arguments; no input involved",
	"explicit-panic|apps/27-gmp/types.MarshalAcknowledgement":             "guards the version parameter, which every caller passes as the compile-time constant types.Version",
	"explicit-panic|apps/27-gmp/types.UnmarshalAcknowledgement":           "guards the version parameter, not the decoded bytes; no production caller passes anything but types.Version",
	"explicit-panic|core/02-client/types.Height.Compare":                  "exported.Height has a single implementation (types.Height); every caller in ibc-go passes it",
	"explicit-panic|core/02-client/migrations/v7.ClientState.Validate":    "deprecated legacy type; not registered in any interface registry by ibc-go's modules, so no message can carry it",
	"explicit-panic|core/02-client/migrations/v7.ConsensusState.ValidateBasic": "deprecated legacy type; not registered in any interface registry by ibc-go's modules",
	"index|apps/transfer/types.DecodeABIFungibleTokenPacketData":         "abi.Arguments.Unpack returns one value per argument when it succeeds (one tuple argument) and fails on empty input",
	"index|apps/27-gmp/types.DecodeABIGMPPacketData":                      "abi.Arguments.Unpack returns one value per argument when it succeeds (one tuple argument)",
	"index|apps/27-gmp/types.DecodeABIAcknowledgement":                    "abi.Arguments.Unpack returns one value per argument when it succeeds (one tuple argument)",
}

// c47Entries: the stateless entry points. Methods named ValidateBasic / Validate of any ibc-go type are added automatically.
var c47Entries = []string{
	"core/24-host.ParseIdentifier", "core/24-host.ClientIdentifierValidator", "core/24-host.ConnectionIdentifierValidator", "core/24-host.ChannelIdentifierValidator",
	"core/24-host.PortIdentifierValidator", "core/02-client/types.ParseClientIdentifier", "core/02-client/types.ParseHeight", "core/02-client/types.ParseChainID",
	"core/02-client/types.IsValidClientID", "core/04-channel/types.IsValidChannelID", "core/04-channel/types.ParseChannelSequence", "core/03-connection/types.ParseConnectionSequence",
	"apps/transfer/types.ExtractDenomFromPath", "apps/transfer/types.ParseHexHash", "apps/transfer/types.validateIBCDenom",
	"apps/transfer/types.UnmarshalPacketData", "apps/transfer/types.DecodeABIFungibleTokenPacketData", "apps/transfer/types.PacketDataV1ToV2",
	"apps/27-interchain-accounts/types.MetadataFromVersion",
	"apps/27-interchain-accounts/types.DeserializeCosmosTx", "apps/27-interchain-accounts/types.NewControllerPortID",
	"apps/packet-forward-middleware/types.GetPacketMetadataFromPacketdata", "apps/packet-forward-middleware/types.getForwardMetadata",
	"apps/callbacks/types.GetCallbackData", // the stateless core of Get{Source,Dest}CallbackData (which first unmarshal through the application)
	"apps/27-gmp/types.UnmarshalPacketData", "apps/27-gmp/types.UnmarshalAcknowledgement", "apps/27-gmp/types.DeserializeCosmosTx",
	"light-clients/attestations.ABIDecodePacketAttestation", "light-clients/attestations.ABIDecodeStateAttestation",
	"apps/rate-limiting/types.ParseDenomFromSendPacket", "apps/rate-limiting/types.ParseDenomFromRecvPacket",
}

// built-in examples for the nil-dereference part of the lint (expected count on the tree: zero)
const nilDerefExamples = `package selftest
import "encoding/json"
type T struct{ A int }
func jsonNull(bz []byte) (int, error) { p := &T{}; if err := json.Unmarshal(bz, &p); err != nil { return 0, err }; return p.A, nil }
func jsonNullCopy(bz []byte) (T, error) { var p *T; if err := json.Unmarshal(bz, &p); err != nil { return T{}, err }; return *p, nil }
func jsonChecked(bz []byte) (int, error) { var p *T; if err := json.Unmarshal(bz, &p); err != nil { return 0, err }; if p == nil { return 0, nil }; return p.A, nil }
func jsonValue(bz []byte) (int, error) { var v T; if err := json.Unmarshal(bz, &v); err != nil { return 0, err }; return v.A, nil }
type I interface{ M() int }
func unchecked(x any) int { v, _ := x.(*T); return v.A }
func uncheckedCopy(x any) T { v, _ := x.(*T); return *v }
func uncheckedIface(x any) int { v, _ := x.(I); return v.M() }
func mapMiss(m map[string]*T) int { return m["k"].A }
func checked(x any) int { v, ok := x.(*T); if !ok { return 0 }; return v.A }
func checkedAnd(x any) bool { v, ok := x.(*T); return ok && v.A > 0 }
func checkedNil(x any) int { v, _ := x.(*T); if v == nil { return 0 }; return v.A }
func mapOk(m map[string]*T) int { if v, ok := m["k"]; ok { return v.A }; return 0 }
`

func runC47(c *Ctx) {
	c.lintSelfTest("C47/self-test/nil-dereference", nilDerefExamples,
		map[string]bool{"jsonNull": true, "jsonNullCopy": true, "jsonChecked": false, "jsonValue": false, "unchecked": true,"uncheckedCopy": true, "uncheckedIface": true, "mapMiss": true, "checked": false, "checkedAnd": false, "checkedNil": false, "mapOk": false},
		func(fn *ssa.Function) int { return len(nilDerefs(fn)) })
	c47Used = map[string]bool{}
	for _, which := range []string{"main", "wasm"} {
		c.c47Scan(which)
	}
	for k := range c47Allow {
		if !c47Used[k] {
			c.bad("C47/allow-list", k, "", "allow-list entry matches nothing any more (remove it)")
		}
	}
}

var c47Used map[string]bool

func (c *Ctx) c47Scan(which string) {
	p := c.Prog(which)
	if p == nil {
		return
	}
	// ---- entry points
	entries := map[string]*ssa.Function{}
	missing := 0
	for _, k := range c47Entries {
		if fn := p.Funcs[k]; fn != nil {
			entries[k] = fn
		} else {
			missing++
		}
	}
	nVB := 0
	for key, fn := range p.Funcs {
		if fn.Signature.Recv() == nil || !fn.Pos().IsValid() || load.IsGenerated(p.Fset.Position(fn.Pos()).Filename) {
			continue
		}
		if n := fn.Name(); n == "ValidateBasic" || n == "Validate" {
			entries[key] = fn
			nVB++
		}
	}
	if which == "main" && nVB < 60 {
		c.bad("C47/entries", "ValidateBasic/Validate methods", "", fmt.Sprintf("only %d stateless validation methods found", nVB))
	}
	if which == "main" && missing > len(c47Entries)/3 {
		c.bad("C47/entries", "parser/decoder table", "", fmt.Sprintf("%d of %d listed parser/decoder entry points no longer exist", missing, len(c47Entries)))
	}
	// ---- reachability
	reach := map[*ssa.Function]string{} // fn -> entry that reaches it
	var work []*ssa.Function
	var ek []string
	for k := range entries {
		ek = append(ek, k)
	}
	sort.Strings(ek)
	for _, k := range ek {
		if _, ok := reach[entries[k]]; !ok {
			reach[entries[k]] = k
			work = append(work, entries[k])
		}
	}
	inScope := func(f *ssa.Function) bool {
		if f == nil || f.Blocks == nil {
			return false
		}
		o := f
		if f.Origin() != nil {
			o = f.Origin()
		}
		for o.Parent() != nil {
			o = o.Parent()
		}
		return o.Pkg != nil && strings.HasPrefix(o.Pkg.Pkg.Path(), "github.com/cosmos/ibc-go/") && p.InScope[o.Pkg] &&
			!(o.Pos().IsValid() && load.IsGenerated(p.Fset.Position(o.Pos()).Filename))
	}
	for len(work) > 0 {
		fn := work[len(work)-1]
		work = work[:len(work)-1]
		add := func(g *ssa.Function) {
			if inScope(g) {
				if _, ok := reach[g]; !ok {
					reach[g] = reach[fn]
					work = append(work, g)
				}
			}
		}
		for _, an := range fn.AnonFuncs {
			add(an)
		}
		for _, b := range fn.Blocks {
			for _, ins := range b.Instrs {
				ci, ok := ins.(ssa.CallInstruction)
				if !ok {
					continue
				}
				cm := ci.Common()
				if g := cm.StaticCallee(); g != nil {
					add(g)
					continue
				}
				if cm.IsInvoke() && cm.Method.Pkg() != nil && strings.HasPrefix(cm.Method.Pkg().Path(), "github.com/cosmos/ibc-go/") {
					if it, ok := cm.Value.Type().Underlying().(*types.Interface); ok {
						for _, impl := range p.Implementers(it) {
							if sel := p.SSA.MethodSets.MethodSet(impl).Lookup(cm.Method.Pkg(), cm.Method.Name()); sel != nil {
								add(p.SSA.MethodValue(sel))
							}
						}
					}
				}
			}
		}
	}
	// ---- lint
	var sites []panicSite
	for fn, from := range reach {
		for _, s := range panicConstructs(fn) {
			s.fn = load.FuncKey(fn)
			s.pos = p.Pos(s.tok)
			s.detail += " (reachable from " + from + ")"
			sites = append(sites, s.panicSite)
		}
	}
	sort.Slice(sites, func(i, j int) bool {
		if sites[i].fn != sites[j].fn {
			return sites[i].fn < sites[j].fn
		}
		return sites[i].kind+sites[i].pos < sites[j].kind+sites[j].pos
	})
	for _, s := range sites {
		k := s.kind + "|" + s.fn
		if why, ok := c47Allow[k]; ok {
			if !c47Used[k] {
				c.ok("C47/"+s.kind, s.fn, s.pos, "allowed: "+why)
			}
			c47Used[k] = true
			continue
		}
		c.bad("C47/"+s.kind, s.fn, s.pos, s.detail)
	}
	c.ok("C47/scanned", which, "", fmt.Sprintf("%d entry points (%d validation methods), %d reachable ibc-go functions, %d constructs reported or allowed", len(entries), nVB, len(reach), len(sites)))
}

type panicSiteT struct {
	panicSite
	tok token.Pos
}

// panicConstructs lists the constructs of fn that may panic.
func panicConstructs(fn *ssa.Function) []panicSiteT {
	var out []panicSiteT
	add := func(kind string, pos token.Pos, detail string) {
		out = append(out, panicSiteT{panicSite{kind: kind, detail: detail}, pos})
	}
	for _, b := range fn.Blocks {
		for _, ins := range b.Instrs {
			switch ins := ins.(type) {
			case *ssa.Panic:
				add("explicit-panic", ins.Pos(), "explicit panic")
			case *ssa.TypeAssert:
				if !ins.CommaOk {
					add("type-assertion", ins.Pos(), "type assertion without comma-ok to "+ins.AssertedType.String())
				}
			case *ssa.BinOp:
				if (ins.Op == token.QUO || ins.Op == token.REM) && isInteger(ins.X.Type()) {
					if k, ok := ins.Y.(*ssa.Const); !ok || k.Value == nil || constant.Sign(k.Value) == 0 {
						add("division", ins.Pos(), "integer division by a value that is not a non-zero constant")
					}
				}
			case ssa.CallInstruction:
				q := calleeQName(ins.Common().StaticCallee())
				if ins.Common().IsInvoke() {
					q = ""
				}
				if f := ins.Common().StaticCallee(); f != nil && f.Signature.Recv() != nil {
					// method: "<pkg>.<Type>.<name>"
					if nt, ok := derefType(f.Signature.Recv().Type()).(*types.Named); ok && nt.Obj().Pkg() != nil {
						q = nt.Obj().Pkg().Path() + "." + nt.Obj().Name() + "." + f.Name()
					}
				}
				for _, pd := range panickingDeps {
					if q == pd {
						add("panicking-call", ins.Pos(), "calls "+q+", which panics on invalid input")
					}
				}
			case *ssa.IndexAddr:
				if !indexSafe(ins.X, ins.Index, ins.Block()) {
					add("index", ins.Pos(), "index expression not covered by a recognised bounds idiom")
				}
			case *ssa.Index:
				if !indexSafe(ins.X, ins.Index, ins.Block()) {
					add("index", ins.Pos(), "index expression not covered by a recognised bounds idiom")
				}
			case *ssa.Lookup:
				if _, isMap := ins.X.Type().Underlying().(*types.Map); !isMap && !indexSafe(ins.X, ins.Index, ins.Block()) {
					add("index", ins.Pos(), "string index not covered by a recognised bounds idiom")
				}
			case *ssa.Slice:
				if !sliceSafe(ins) {
					add("slice", ins.Pos(), "slice expression not covered by a recognised bounds idiom")
				}
			}
		}
	}
	return append(out, nilDerefs(fn)...)
}

func derefType(t types.Type) types.Type {
	if p, ok := t.(*types.Pointer); ok {
		return p.Elem()
	}
	return t
}

func isInteger(t types.Type) bool {
	b, ok := t.Underlying().(*types.Basic)
	return ok && b.Info()&types.IsInteger != 0
}

// lenOf: v is len(x) (or a constant array length).
func isLenOf(v ssa.Value, x ssa.Value) bool {
	c, ok := v.(*ssa.Call)
	if !ok {
		return false
	}
	b, ok := c.Call.Value.(*ssa.Builtin)
	return ok && b.Name() == "len" && len(c.Call.Args) == 1 && sameValue(c.Call.Args[0], x)
}

// sameValue: the two SSA values denote the same slice/string (identical, or loads of the same local / field).
func sameValue(a, b ssa.Value) bool {
	if a == b {
		return true
	}
	ua, ok1 := a.(*ssa.UnOp)
	ub, ok2 := b.(*ssa.UnOp)
	if ok1 && ok2 && ua.Op == token.MUL && ub.Op == token.MUL {
		if ua.X == ub.X {
			return true
		}
		fa, ok1 := ua.X.(*ssa.FieldAddr)
		fb, ok2 := ub.X.(*ssa.FieldAddr)
		if ok1 && ok2 && fa.Field == fb.Field && sameValue(fa.X, fb.X) {
			return true
		}
	}
	fa, ok1 := a.(*ssa.Field)
	fb, ok2 := b.(*ssa.Field)
	if ok1 && ok2 && fa.Field == fb.Field && sameValue(fa.X, fb.X) {
		return true
	}
	return false
}

// indexSafe recognises the bounds idioms used in this code base.
func indexSafe(x, idx ssa.Value, blk *ssa.BasicBlock) bool {
	// arrays (and pointers to arrays) with a constant in-range index
	if at := arrayOf(x.Type()); at != nil {
		if k, ok := idx.(*ssa.Const); ok && k.Value != nil {
			if n, ok := constant.Int64Val(k.Value); ok && n >= 0 && n < at.Len() {
				return true
			}
		}
	}
	// range loop index: idx is a phi incremented by one and compared against len(x) in the loop header,
	// or idx comes from Next of a Range over x (strings)
	if isLoopIndexOf(idx, x) {
		return true
	}
	// out := make([]T, len(y)); for i := range y { out[i] = ... }
	if ms, ok := x.(*ssa.MakeSlice); ok {
		if lc, ok := ms.Len.(*ssa.Call); ok {
			if b, ok := lc.Call.Value.(*ssa.Builtin); ok && b.Name() == "len" && len(lc.Call.Args) == 1 && isLoopIndexOf(idx, lc.Call.Args[0]) {
				return true
			}
		}
	}
	// strings.Split / SplitN return at least one element: [0] and [len-1] are in range
	if isSplitResult(x) {
		if k, ok := idx.(*ssa.Const); ok && k.Value != nil && k.Value.ExactString() == "0" {
			return true
		}
		if isLenMinusOne(idx, x) {
			return true
		}
	}
	// dominating comparison: some dominator block ends in an If whose condition bounds idx against len(x)
	for d := blk; d != nil; d = d.Idom() {
		id := d.Idom()
		if id == nil {
			break
		}
		iff, ok := id.Instrs[len(id.Instrs)-1].(*ssa.If)
		if !ok {
			continue
		}
		onTrue := id.Succs[0] == d || dominates(id.Succs[0], d) && !dominates(id.Succs[1], d)
		onFalse := id.Succs[1] == d || dominates(id.Succs[1], d) && !dominates(id.Succs[0], d)
		if condBounds(iff.Cond, x, idx, onTrue, onFalse) {
			return true
		}
	}
	return false
}

func isSplitResult(x ssa.Value) bool {
	c, ok := x.(*ssa.Call)
	if !ok {
		return false
	}
	q := calleeQName(c.Call.StaticCallee())
	return q == "strings.Split" || q == "strings.SplitN" || q == "bytes.Split"
}

// isLenMinusOne: v is len(x)-1.
func isLenMinusOne(v, x ssa.Value) bool {
	bo, ok := v.(*ssa.BinOp)
	if !ok || bo.Op != token.SUB {
		return false
	}
	k, ok := bo.Y.(*ssa.Const)
	return ok && k.Value != nil && k.Value.ExactString() == "1" && isLenOf(bo.X, x)
}

func arrayOf(t types.Type) *types.Array {
	if p, ok := t.Underlying().(*types.Pointer); ok {
		t = p.Elem()
	}
	a, _ := t.Underlying().(*types.Array)
	return a
}

func dominates(a, b *ssa.BasicBlock) bool {
	for x := b; x != nil; x = x.Idom() {
		if x == a {
			return true
		}
	}
	return false
}

// isLoopIndexOf: idx is the induction variable of a loop `for i := 0; i < len(x); i++` / `for i := range x`.
func isLoopIndexOf(idx, x ssa.Value) bool {
	// rotated range loops: idx = phi(-1, idx+1)+1 pattern, or phi(0, idx+1)
	var phi *ssa.Phi
	switch v := idx.(type) {
	case *ssa.Phi:
		phi = v
	case *ssa.BinOp:
		if v.Op == token.ADD {
			if p, ok := v.X.(*ssa.Phi); ok {
				if k, ok := v.Y.(*ssa.Const); ok && k.Value != nil && k.Value.ExactString() == "1" {
					phi = p
					idx = v
				}
			}
		}
	}
	if phi == nil {
		return false
	}
	// the loop test compares (phi or phi+1) with len(x)
	for _, b := range phi.Block().Parent().Blocks {
		iff, ok := lastIf(b)
		if !ok {
			continue
		}
		bo, ok := iff.Cond.(*ssa.BinOp)
		if !ok || bo.Op != token.LSS {
			continue
		}
		if (bo.X == idx || bo.X == ssa.Value(phi)) && (isLenOf(bo.Y, x) || lenAlias(bo.Y, x)) {
			return true
		}
	}
	return false
}

// lenAlias: v is a value computed once as len(x) before the loop (range loops hoist the length).
func lenAlias(v ssa.Value, x ssa.Value) bool {
	return isLenOf(v, x)
}

func lastIf(b *ssa.BasicBlock) (*ssa.If, bool) {
	if len(b.Instrs) == 0 {
		return nil, false
	}
	iff, ok := b.Instrs[len(b.Instrs)-1].(*ssa.If)
	return iff, ok
}

// condBounds: the branch taken implies 0 <= idx < len(x).
func condBounds(cond ssa.Value, x, idx ssa.Value, onTrue, onFalse bool) bool {
	bo, ok := cond.(*ssa.BinOp)
	if !ok {
		return false
	}
	k, isConst := idx.(*ssa.Const)
	var kv int64 = -1
	if isConst && k.Value != nil {
		kv, _ = constant.Int64Val(k.Value)
	}
	constOf := func(v ssa.Value) (int64, bool) {
		c, ok := v.(*ssa.Const)
		if !ok || c.Value == nil {
			return 0, false
		}
		return constant.Int64Val(c.Value)
	}
	// len(x) OP n  with a constant index
	if isLenOf(bo.X, x) && isConst {
		if n, ok := constOf(bo.Y); ok {
			switch bo.Op {
			case token.EQL: // len == n on true
				return onTrue && kv < n
			case token.NEQ: // len != n : false branch has len == n
				return onFalse && kv < n
			case token.LSS: // len < n : false branch has len >= n
				return onFalse && kv < n
			case token.LEQ: // len <= n : false branch has len > n
				return onFalse && kv <= n
			case token.GTR: // len > n
				return onTrue && kv <= n
			case token.GEQ:
				return onTrue && kv < n
			}
		}
	}
	if isLenOf(bo.Y, x) && isConst {
		if n, ok := constOf(bo.X); ok {
			switch bo.Op {
			case token.LSS: // n < len
				return onTrue && kv <= n
			case token.LEQ:
				return onTrue && kv < n
			case token.GEQ: // n >= len : false branch has n < len
				return onFalse && kv <= n
			case token.GTR:
				return onFalse && kv < n
			}
		}
	}
	// idx < len(x)
	if bo.X == idx && isLenOf(bo.Y, x) {
		switch bo.Op {
		case token.LSS:
			return onTrue
		case token.GEQ:
			return onFalse
		}
	}
	if bo.Y == idx && isLenOf(bo.X, x) {
		switch bo.Op {
		case token.GTR:
			return onTrue
		case token.LEQ:
			return onFalse
		}
	}
	return false
}

// sliceSafe: x[:], x[:len(y)] is not assumed; recognised: no bounds, constant bounds within an array,
// bounds that are len() of the sliced value, or low bound a loop index of the sliced value.
func sliceSafe(s *ssa.Slice) bool {
	if s.Low == nil && s.High == nil && s.Max == nil {
		return true
	}
	if at := arrayOf(s.X.Type()); at != nil {
		ok := true
		for _, b := range []ssa.Value{s.Low, s.High, s.Max} {
			if b == nil {
				continue
			}
			k, isC := b.(*ssa.Const)
			if !isC || k.Value == nil {
				ok = false
				break
			}
			if n, okk := constant.Int64Val(k.Value); !okk || n < 0 || n > at.Len() {
				ok = false
			}
		}
		if ok {
			return true
		}
	}
	okB := func(b ssa.Value) bool {
		if b == nil {
			return true
		}
		if k, isC := b.(*ssa.Const); isC && k.Value != nil {
			if n, ok := constant.Int64Val(k.Value); ok && n == 0 {
				return true
			}
			// constant bound under a dominating length test
			return indexSafeConstBound(s.X, k, s.Block())
		}
		if isLenOf(b, s.X) {
			return true
		}
		if isSplitResult(s.X) && isLenMinusOne(b, s.X) {
			return true
		}
		return isLoopIndexOf(b, s.X)
	}
	return okB(s.Low) && okB(s.High) && s.Max == nil
}

// indexSafeConstBound: a constant slice bound n is safe when a dominating test gives len(x) >= n.
func indexSafeConstBound(x ssa.Value, k *ssa.Const, blk *ssa.BasicBlock) bool {
	n, ok := constant.Int64Val(k.Value)
	if !ok || n < 0 {
		return false
	}
	if n == 0 {
		return true
	}
	// len(x) >= n  <=>  index n-1 is in range
	km1 := ssa.NewConst(constant.MakeInt64(n-1), k.Type())
	return indexSafe(x, km1, blk)
}
