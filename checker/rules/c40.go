package rules

import (
	"fmt"

	"ibcverif/interp"
	"ibcverif/term"
)

const cbT = "apps/callbacks/types"

func init() {
	Register(&Prop{ID: "C40", Title: "Callbacks are gas-bounded and cannot break the packet lifecycle",
		Technique: "abstract interpretation (go/ssa) including the deferred recovery closure: case table of the gas-limit computation (result terms and guards), context and gas-meter binding of the callback execution, commit of the branch only after a nil error, conditions under which the recovery re-panics or turns failure into an error, and what the middleware does with a callback error on each packet event",
		LevelText: "Decides that the commit limit is the user's value when it is non-zero and not above the chain maximum and the maximum otherwise, and the execution limit is min(remaining gas, commit limit); that the callback runs on a context branched from the handler's with a fresh gas meter limited to the execution limit, that the branch is written only if the callback returned nil, and that the outer meter is charged exactly the amount the inner meter reports as consumed-to-limit; that a panic is re-raised only for send callbacks and otherwise becomes an error; that exceeding the limit re-panics with out-of-gas exactly when the execution limit is below the commit limit (retry allowed) and otherwise becomes an error; that the acknowledgement and timeout hooks of the v1 and v2 middlewares call the application first, return its error, and after a well-formed callback ran return nil whatever the callback returned; and that a failing receive callback yields an error acknowledgement while a failing send callback fails the send. Gas accounting inside the SDK meter and the contract keeper are trusted.",
		Note:      "go/types + go/ssa; cosmos-sdk gas meter trusted", Design: "§5 C40", Run: runC40})
}

func runC40(c *Ctx) {
	const which = "main"
	e := c.Engine(which)
	if e == nil {
		return
	}
	any := func(src string, set term.Set) bool { return e.T.Any(c.pats(which, nil, src)[0], set, nil) }
	e.PureFn = func(k string) bool { return k == cbT+".getUserDefinedGasLimit" }
	e.NoInline = func(k string) bool { return k == cbT+".getUserDefinedGasLimit" || interp.DefaultNoInline(k) }
	// ---- computeExecAndCommitGasLimit(callbackData#0, remainingGas#1, maxGas#2)
	if rr := c.Run(which, cbT+".computeExecAndCommitGasLimit"); rr != nil {
		fk := cbT + ".computeExecAndCommitGasLimit"
		u := "extract:0(call:" + cbT + ".getUserDefinedGasLimit(param#0))"
		nU, nM := 0, 0
		for _, ev := range rr.Events {
			if ev.Kind != "return" || len(ev.Args) != 3 || e.T.String(ev.Args[2]) != "nil" {
				continue
			}
			pos := e.P.Pos(ev.Instr.Pos())
			exec, commit := setOf(ev.Args[0]), setOf(ev.Args[1])
			switch {
			case any(u, commit) && any("min(param#1, "+u+")", exec):
				nU++
				if !any("ne("+u+", 0)", ev.Atoms) || !any("le("+u+", param#2)", ev.Atoms) {
					c.bad("C40/limits", fk, pos, "the user's limit is used without being non-zero and not above the maximum")
				}
			case any("param#2", commit) && any("min(param#1, param#2)", exec):
				nM++
				if !any("eq("+u+", 0)", ev.Atoms) && !any("lt(param#2, "+u+")", ev.Atoms) {
					c.bad("C40/limits", fk, pos, "the maximum is used although the user's limit may be admissible")
				}
			default:
				c.bad("C40/limits", fk, pos, "limits are ("+clip(e.T.String(ev.Args[0]), 80)+", "+clip(e.T.String(ev.Args[1]), 80)+"), not (min(remaining, commit), commit) with commit ∈ {user, max}")
			}
		}
		if nU > 0 && nM > 0 {
			c.ok("C40/limits", fk, "", "commit = user limit if 0 < user <= max else max; execution = min(remaining, commit)")
		} else {
			c.bad("C40/limits", fk, "", fmt.Sprintf("expected both cases, got user:%d max:%d", nU, nM))
		}
	}
	if rr := c.Run(which, cbT+".CallbackData.AllowRetry"); rr != nil {
		good := len(rr.Rets) > 0
		for _, r := range rr.Rets {
			if len(r.Results) != 1 || !any("lt(field:ExecutionGasLimit(param#0), field:CommitGasLimit(param#0))", setOf(r.Results[0])) {
				good = false
			}
		}
		if good {
			c.ok("C40/allow-retry", cbT+".CallbackData.AllowRetry", "", "execution limit < commit limit")
		} else {
			c.bad("C40/allow-retry", cbT+".CallbackData.AllowRetry", "", "retry is not defined as execution limit < commit limit")
		}
	}
	// ---- ProcessCallback(ctx#0, callbackType#1, callbackData#2, callbackExecutor#3)
	if rr := c.Run(which, "apps/callbacks/internal.ProcessCallback"); rr != nil {
		fk := "apps/callbacks/internal.ProcessCallback"
		branch := "call:sdk.Context.CacheContext(param#0)"
		inner := "call:sdk.Context.WithGasMeter(extract:0(" + branch + "), call:storetypes.NewGasMeter(field:ExecutionGasLimit(param#2)))"
		exec := c.ArgMatches(which, c.Calls(rr, "dyn"), 0, nil, "param#3")
		c.Check(which, "C40/process/execute", exec, 1, nil, nil,
			Req{Name: "on-the-branch-with-a-meter-limited-to-the-execution-limit", Args: map[int]string{1: inner}})
		write := c.ArgMatches(which, c.Calls(rr, "dyn"), 0, nil, "extract:1("+branch+")")
		c.Check(which, "C40/process/commit", write, 1, nil, nil,
			Req{Name: "only-after-the-callback-returned-nil", Any: all("errnil(call:dyn(param#3, " + inner + "))")})
		c.Check(which, "C40/process/charge", c.Calls(rr, "iface:storetypes.GasMeter.ConsumeGas"), 1, nil, nil,
			Req{Name: "outer-meter-charged-what-the-inner-meter-consumed", Args: map[int]string{0: "call:sdk.Context.GasMeter(param#0)", 1: "call:iface:storetypes.GasMeter.GasConsumedToLimit(call:sdk.Context.GasMeter(" + inner + "))"}})
		past := "call:iface:storetypes.GasMeter.IsPastLimit(call:sdk.Context.GasMeter(" + inner + "))"
		retry := "~or(T(call:" + cbT + ".CallbackData.AllowRetry(param#2)), lt(field:ExecutionGasLimit(param#2), field:CommitGasLimit(param#2)))"
		noRetry := "~or(F(call:" + cbT + ".CallbackData.AllowRetry(param#2)), le(field:CommitGasLimit(param#2), field:ExecutionGasLimit(param#2)))"
		nRe, nOOG := 0, 0
		for _, ev := range rr.Events {
			if ev.Kind != "panic" || len(ev.Args) != 1 {
				continue
			}
			pos := e.P.Pos(ev.Instr.Pos())
			switch {
			case any("recover", setOf(ev.Args[0])) || any("~in(recover)", setOf(ev.Args[0])):
				nRe++
				if !any("eq(param#1, "+cbT+".CallbackTypeSendPacket)", ev.Atoms) {
					c.bad("C40/process/panic", fk, pos, "a recovered panic is re-raised for a callback type that is not established to be the send callback")
				}
			default:
				nOOG++
				if !any("T("+past+")", ev.Atoms) || !any(retry, ev.Atoms) {
					c.bad("C40/process/out-of-gas", fk, pos, "aborts the transaction without the inner meter being past its limit and the execution limit being below the commit limit")
				}
			}
		}
		if nRe > 0 && nOOG > 0 {
			c.ok("C40/process/panic", fk, "", "a recovered panic is re-raised only for send callbacks")
			c.ok("C40/process/out-of-gas", fk, "", "out-of-gas aborts the transaction only when a retry with more gas is possible")
		} else {
			c.bad("C40/process/recovery", fk, "", fmt.Sprintf("expected a re-panic site and an out-of-gas panic site in the deferred closure, got %d/%d", nRe, nOOG))
		}
		// returns: past the limit without retry => an out-of-gas error is returned; a recovered panic => an error
		for _, ev := range rr.Events {
			if ev.Kind != "return" || len(ev.Args) != 1 {
				continue
			}
			pos := e.P.Pos(ev.Instr.Pos())
			if any("T("+past+")", ev.Atoms) && any(noRetry, ev.Atoms) && !any("~in(gv:"+cbT+".ErrCallbackOutOfGas)", setOf(ev.Args[0])) {
				c.bad("C40/process/returns", fk+"@"+c.retOrdinal(rr, ev), pos, "past the gas limit without retry, but the returned error is "+clip(e.T.String(ev.Args[0]), 100))
			}
			if any("ne(recover, nil)", ev.Atoms) && !any("T("+past+")", ev.Atoms) && !any("~in(gv:"+cbT+".ErrCallbackPanic)", setOf(ev.Args[0])) {
				c.bad("C40/process/returns", fk+"@"+c.retOrdinal(rr, ev), pos, "a recovered panic does not become the callback-panic error: "+clip(e.T.String(ev.Args[0]), 100))
			}
		}
		c.ok("C40/process/returns", fk, "", "return sites scanned")
	}
	// ---- middleware hooks
	mw := "apps/callbacks.IBCMiddleware."
	pc := "call:apps/callbacks/internal.ProcessCallback"
	for _, x := range []struct{ hook, app string }{
		{"OnAcknowledgementPacket", "iface:core/05-port/types.IBCModule.OnAcknowledgementPacket"},
		{"OnTimeoutPacket", "iface:core/05-port/types.IBCModule.OnTimeoutPacket"},
	} {
		rr := c.Run(which, mw+x.hook)
		if rr == nil {
			continue
		}
		fk := mw + x.hook
		c.Check(which, "C40/v1/"+x.hook+"/order", c.Calls(rr, "apps/callbacks/internal.ProcessCallback"), 1, nil, nil,
			Req{Name: "application-handled-the-event-first", Any: all("ok(call:" + x.app + "(field:app(param#0), param#1, ...))")})
		n := 0
		for _, ev := range rr.Events {
			if ev.Kind != "return" || len(ev.Args) != 1 {
				continue
			}
			if any(pc, ev.Atoms) {
				n++
				if e.T.String(ev.Args[0]) != "nil" {
					c.bad("C40/v1/"+x.hook+"/callback-error-ignored", fk+"@"+c.retOrdinal(rr, ev), e.P.Pos(ev.Instr.Pos()), "after the callback ran the hook returns "+clip(e.T.String(ev.Args[0]), 100)+" instead of nil")
				}
			}
		}
		if n > 0 {
			c.ok("C40/v1/"+x.hook+"/callback-error-ignored", fk, "", fmt.Sprintf("%d return(s) after the callback, all nil", n))
		} else {
			c.bad("C40/v1/"+x.hook+"/callback-error-ignored", fk, "", "no return after a processed callback found")
		}
	}
	// receive: a failing destination callback becomes an error acknowledgement
	if rr := c.Run(which, mw+"OnRecvPacket"); rr != nil {
		fk := mw + "OnRecvPacket"
		n := 0
		for _, ev := range rr.Events {
			if ev.Kind != "return" || len(ev.Args) != 1 {
				continue
			}
			if any("fail("+pc+")", ev.Atoms) || any("errnonnil("+pc+")", ev.Atoms) {
				n++
				if !any("~in(call:core/04-channel/types.NewErrorAcknowledgement)", setOf(ev.Args[0])) {
					c.bad("C40/v1/recv", fk+"@"+c.retOrdinal(rr, ev), e.P.Pos(ev.Instr.Pos()), "a failed receive callback does not yield an error acknowledgement: "+clip(e.T.String(ev.Args[0]), 100))
				}
			}
		}
		if n > 0 {
			c.ok("C40/v1/recv", fk, "", "failed destination callback => error acknowledgement")
		} else {
			c.bad("C40/v1/recv", fk, "", "no return for a failed destination callback found")
		}
	}
	// send: a failing send callback fails the send
	if rr := c.Run(which, mw+"SendPacket"); rr != nil {
		c.CheckRets(which, "C40/v1/send", rr, NilErr(e), 1, nil,
			Req{Name: "success-only-if-no-callback-or-callback-succeeded", Any: [][]string{{"ok(" + pc + ")"}, {"F(extract:1(call:" + cbT + ".GetSourceCallbackData))"}, {"F(extract:1(call:" + cbT + ".GetCallbackData))"}}})
	}
}
