package rules

import (
	"fmt"

	"golang.org/x/tools/go/ssa"

	"ibcverif/interp"
	"ibcverif/term"
)

const lh = "light-clients/09-localhost"

func init() {
	Register(&Prop{ID: "C27", Title: "Localhost verification is equivalent to reading the chain's own store",
		Technique: "abstract interpretation (go/ssa): guard chain on the success return (both directions: success implies the store facts; every rejecting return site carries the negation of one enumerated conjunct), effect scan (no writes), no-success-return check of the refusing entry points, keeper gates",
		LevelText: "Decides that localhost VerifyMembership returns nil only if the proof equals the sentinel, the path has two elements and the chain's own IBC store (opened from the module's store service with the call's context, no prefix) returns a non-nil value at the second path element that is byte-equal to the given value, and VerifyNonMembership only if Has reports false for that key; conversely that every rejecting return site is guarded by the negation of one of those conjuncts (or of the proof-height ≤ own-height precondition), so nothing else can make verification fail; that neither function writes; that Initialize, VerifyClientMessage, RecoverClient and VerifyUpgradeAndUpdateState have no success return and UpdateState/UpdateStateOnMisbehaviour write nothing; and that the keeper's CreateClient rejects the localhost client type before routing.",
		Note:      "go/types + go/ssa", Design: "§5 C27", Run: runC27})
}

func runC27(c *Ctx) {
	const which = "main"
	e := c.Engine(which)
	if e == nil {
		return
	}
	store := "call:iface:corestore.KVStoreService.OpenKVStore(field:storeService(param#0), param#1)"
	key := "index(field:KeyPath(param#7), 1)"
	get := "call:iface:corestore.KVStore.Get(" + store + ", " + key + ")"
	has := "call:iface:corestore.KVStore.Has(" + store + ", " + key + ")"
	common := []string{
		"T(call:bytes.Equal(param#6, arr(1)))",
		"eq(len(field:KeyPath(param#7)), 2)",
		"F(call:$clientT.Height.GT(param#3, call:$clientT.GetSelfHeight(param#1)))",
	}
	// negations acceptable at a rejecting return site
	rejectCommon := []string{
		"F(call:bytes.Equal(param#6, arr(1)))",
		"ne(len(field:KeyPath(param#7)), 2)",
		"T(call:$clientT.Height.GT(param#3, call:$clientT.GetSelfHeight(param#1)))",
		"F(istype:core/23-commitment/types/v2.MerklePath(param#7))",
	}
	for _, x := range []struct {
		fn      string
		success []string
		reject  []string
	}{
		{"VerifyMembership",
			[]string{"ne(extract:0(" + get + "), nil)", "T(call:bytes.Equal(extract:0(" + get + "), param#8))"},
			[]string{"eq(extract:0(" + get + "), nil)", "F(call:bytes.Equal(extract:0(" + get + "), param#8))"}},
		{"VerifyNonMembership",
			[]string{"ok(" + has + ")", "F(extract:0(" + has + "))"},
			[]string{"T(extract:0(" + has + "))", "fail(" + has + ")"}},
	} {
		fk := lh + ".LightClientModule." + x.fn
		rr := c.Run(which, fk)
		if rr == nil {
			continue
		}
		c.CheckRets(which, "C27/"+x.fn, rr, NilErr(e), 1, nil,
			Req{Name: "success-implies-store-facts", Any: all(append(append([]string{}, common...), x.success...)...)})
		// converse: every rejecting return site has one of the enumerated causes
		var pats []*term.Pat
		for _, s := range append(append([]string{}, rejectCommon...), x.reject...) {
			pats = append(pats, c.pats(which, nil, s)[0])
		}
		nRej := 0
		for _, ev := range rr.Events {
			if ev.Kind != "return" || len(ev.Args) != 1 {
				continue
			}
			if e.T.String(ev.Args[0]) == "nil" {
				continue
			}
			nRej++
			found := false
			for _, p := range pats {
				if e.T.Any(p, ev.Atoms, nil) {
					found = true
					break
				}
			}
			pos := e.P.Pos(ev.Instr.Pos())
			if found {
				c.ok("C27/"+x.fn+"/rejection-has-cause", fk+"@"+c.retOrdinal(rr, ev), pos, "rejecting return guarded by the negation of a required conjunct")
			} else {
				c.bad("C27/"+x.fn+"/rejection-has-cause", fk+"@"+c.retOrdinal(rr, ev), pos, "a rejecting return is reachable although proof, path shape, height and store content are as required")
			}
		}
		if nRej < 4 {
			c.bad("C27/"+x.fn+"/rejection-sites", fk, "", fmt.Sprintf("only %d rejecting return sites seen (expected at least 4)", nRej))
		}
		c.noWrites(which, "C27/"+x.fn+"/read-only", rr, fk)
	}
	// ---- refusing entry points
	for _, fn := range []string{"Initialize", "VerifyClientMessage", "RecoverClient", "VerifyUpgradeAndUpdateState"} {
		fk := lh + ".LightClientModule." + fn
		rr := c.Run(which, fk)
		if rr == nil {
			continue
		}
		n := 0
		for _, ev := range rr.Events {
			if ev.Kind == "return" && len(ev.Args) == 1 {
				n++
				if e.T.String(ev.Args[0]) == "nil" || !isErrorCtor(e, ev.Args[0]) {
					c.bad("C27/refuses/"+fn, fk, e.P.Pos(ev.Instr.Pos()), "a return of "+fn+" may yield a nil error: "+clip(e.T.String(ev.Args[0]), 120))
				}
			}
		}
		if n > 0 {
			c.ok("C27/refuses/"+fn, fk, "", fmt.Sprintf("all %d returns yield a constructed error", n))
		} else {
			c.bad("C27/refuses/"+fn, fk, "", "no return found")
		}
		c.noWrites(which, "C27/refuses/"+fn+"/no-writes", rr, fk)
	}
	for _, fn := range []string{"UpdateState", "UpdateStateOnMisbehaviour", "CheckForMisbehaviour"} {
		fk := lh + ".LightClientModule." + fn
		if rr := c.Run(which, fk); rr != nil {
			c.noWrites(which, "C27/inert/"+fn, rr, fk)
		}
	}
	// ---- keeper: creation refused by client type before routing
	if rr := c.Run(which, "core/02-client/keeper.Keeper.CreateClient"); rr != nil {
		c.Check(which, "C27/keeper/create", c.Calls(rr, "iface:core/exported.LightClientModule.Initialize"), 1, nil, nil,
			Req{Name: "client-type-is-not-localhost", Any: all(`ne(param#2, "09-localhost")`)})
	}
}

// retOrdinal names a return site by its ordinal among the function's return instructions (stable under line shifts).
func (c *Ctx) retOrdinal(rr *interp.RunResult, ev *interp.Event) string {
	n := 0
	for _, b := range rr.Fn.Blocks {
		for _, ins := range b.Instrs {
			if r, ok := ins.(*ssa.Return); ok {
				if r == ev.Instr {
					return fmt.Sprintf("return#%d", n)
				}
				n++
			}
		}
	}
	return "return#?"
}

// isErrorCtor: the value is produced by an error constructor (errorsmod.Wrap/Wrapf/..., errors.New, fmt.Errorf) on a non-nil error.
func isErrorCtor(e *interp.Engine, id term.ID) bool {
	tm := e.T.Get(id)
	switch {
	case globMatch("call:errorsmod.Wrap*", tm.Op):
		// Wrap(nil, ...) is nil: the wrapped error must be a package-level sentinel
		return len(tm.Args) > 0 && globMatch("gv:*Err*", e.T.Get(tm.Args[0]).Op)
	case globMatch("call:errors.New", tm.Op), globMatch("call:fmt.Errorf", tm.Op), globMatch("call:errorsmod.Register*", tm.Op):
		return true
	case globMatch("gv:*Err*", tm.Op):
		return true
	}
	return false
}

// noWrites: the function performs no KV-store write (directly or in inlined callees) and calls no opaque ibc-go function that may write.
func (c *Ctx) noWrites(which, rule string, rr *interp.RunResult, construct string) {
	e := c.Engine(which)
	n := 0
	for _, ev := range rr.Events {
		if ev.Kind == "store" {
			c.bad(rule, construct, e.P.Pos(ev.Instr.Pos()), "writes through a pointer: "+clip(e.T.String(ev.Args[0]), 100))
			n++
			continue
		}
		ci, ok := ev.Instr.(ssa.CallInstruction)
		if !ok || ev.Kind != "call" {
			continue
		}
		if op, ok := isKVWriteMethod(ci.Common()); ok {
			c.bad(rule, construct, e.P.Pos(ev.Instr.Pos()), "store "+op+" on "+clip(e.T.String(ev.Args[0]), 100))
			n++
		}
	}
	if n == 0 {
		c.ok(rule, construct, "", fmt.Sprintf("%d events scanned, no store write", len(rr.Events)))
	}
}
