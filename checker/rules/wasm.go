package rules

import (
	"fmt"
	"strings"

	"golang.org/x/tools/go/ssa"

	"ibcverif/load"
	"ibcverif/term"
)

const wasmT = "light-clients/08-wasm/internal/types"

func init() {
	Register(&Prop{ID: "C29", Title: "Wasm client recovery never writes the substitute's store",
		Technique: "abstract interpretation (go/ssa) of every method of ClientRecoveryStore in the 08-wasm module: receiver and guard of every underlying store call, case analysis of the prefix splitter, who-may-use of the substitute store field, argument binding at the recovery call site",
		LevelText: "Decides that, in every method of ClientRecoveryStore, each Set/Delete on an underlying store has the subject store as receiver, is guarded by the key's split prefix being \"subject/\" and passes the key with that prefix removed; that the substitute store field is only ever the receiver of Get, Has, Iterator, ReverseIterator or GetStoreType, each under the split prefix being \"substitute/\"; that a key without one of the two prefixes makes Get return nil, Has return false and Set/Delete return without any store call; that Iterator/ReverseIterator reach an underlying store only when both bounds carry the same prefix and otherwise return the closed iterator; that the two prefixes are constants of which neither is a prefix of the other; and that RecoverClient hands the contract exactly NewClientRecoveryStore(subject client's store, substitute client's store). What the contract does with the store is outside ibc-go.",
		Note:      "go/types + go/ssa over the 08-wasm module (separate go.mod)", Design: "§5 C29", Run: runC29})
}

func runC29(c *Ctx) {
	const which = "wasm"
	e := c.Engine(which)
	if e == nil {
		return
	}
	e.KeepValues = func(k string) bool {
		return strings.HasSuffix(k, "internal/types.SplitPrefix") || strings.HasSuffix(k, "ClientRecoveryStore.GetStore")
	}
	any := func(src string, set term.Set) bool { return e.T.Any(c.pats(which, nil, src)[0], set, nil) }
	subj, subst := "field:subjectStore(param#0)", "field:substituteStore(param#0)"
	isSubj := func(k string) string { return "T(call:bytes.HasPrefix(" + k + `, conv:bytes("subject/")))` }
	notSubj := func(k string) string { return "F(call:bytes.HasPrefix(" + k + `, conv:bytes("subject/")))` }
	isSubst := func(k string) string { return "T(call:bytes.HasPrefix(" + k + `, conv:bytes("substitute/")))` }
	trim := func(k, p string) string { return "call:bytes.TrimPrefix(" + k + `, conv:bytes("` + p + `"))` }

	// ---- SplitPrefix(key#0): three cases
	if rr := c.Run(which, wasmT+".SplitPrefix"); rr != nil {
		fk := wasmT + ".SplitPrefix"
		n := 0
		for _, ev := range rr.Events {
			if ev.Kind != "return" || len(ev.Args) != 2 {
				continue
			}
			n++
			p, k := e.T.String(ev.Args[0]), ev.Args[1]
			good := false
			switch p {
			case `conv:bytes("subject/")`:
				good = any(isSubj("param#0"), ev.Atoms) && any(trim("param#0", "subject/"), setOf(k))
			case `conv:bytes("substitute/")`:
				good = any(notSubj("param#0"), ev.Atoms) && any(isSubst("param#0"), ev.Atoms) && any(trim("param#0", "substitute/"), setOf(k))
			case "nil":
				good = any(notSubj("param#0"), ev.Atoms) && any("F(call:bytes.HasPrefix(param#0, conv:bytes(\"substitute/\")))", ev.Atoms) && e.T.String(k) == "param#0"
			}
			if good {
				c.ok("C29/split-prefix", fk+"@"+c.retOrdinal(rr, ev), e.P.Pos(ev.Instr.Pos()), "returns "+p+" exactly in its case")
			} else {
				c.bad("C29/split-prefix", fk+"@"+c.retOrdinal(rr, ev), e.P.Pos(ev.Instr.Pos()), "returns ("+p+", "+clip(e.T.String(k), 80)+") under the wrong condition")
			}
		}
		if n != 3 {
			c.bad("C29/split-prefix", fk, "", fmt.Sprintf("expected three return sites, found %d", n))
		}
	}
	// the prefixes: distinct constants, neither a prefix of the other (the term printer shows a global that is
	// never reassigned by its constant initialiser, so seeing the literals above already means they are constants)
	if strings.HasPrefix("substitute/", "subject/") || strings.HasPrefix("subject/", "substitute/") {
		c.bad("C29/prefixes", wasmT, "", "prefix literals overlap")
	}
	for _, g := range []struct{ name, lit string }{{"SubjectPrefix", "subject/"}, {"SubstitutePrefix", "substitute/"}} {
		v := c.globalLiteral(which, "/internal/types", g.name)
		if v == g.lit {
			c.ok("C29/prefixes", wasmT+"."+g.name, "", "constant "+fmt.Sprintf("%q", v)+", never reassigned")
		} else {
			c.bad("C29/prefixes", wasmT+"."+g.name, "", "expected the never-reassigned literal "+fmt.Sprintf("%q", g.lit)+", found "+fmt.Sprintf("%q", v))
		}
	}

	// ---- every method: receivers and guards of the underlying store calls
	// the value(s) closedIterator returns, as a pattern (call sites are renumbered when it is inlined)
	closedVal := "call:" + wasmT + ".ClientRecoveryStore.closedIterator(param#0)"
	if rr := c.Run(which, wasmT+".ClientRecoveryStore.closedIterator"); rr != nil {
		alts := []string{closedVal}
		for _, r := range rr.Rets {
			if len(r.Results) == 1 {
				alts = append(alts, siteRE.ReplaceAllString(e.T.String(r.Results[0]), ""))
			}
		}
		closedVal = "~or(" + strings.Join(alts, ", ") + ")"
	}
	readOps := map[string]bool{"Get": true, "Has": true, "Iterator": true, "ReverseIterator": true, "GetStoreType": true}
	methods := []string{"Get", "Has", "Set", "Delete", "Iterator", "ReverseIterator", "GetStoreType", "CacheWrap", "GetStore", "closedIterator"}
	// every method of the type is analysed: fail if the type grew a method we do not know
	if p := c.Prog(which); p != nil {
		known := map[string]bool{}
		for _, m := range methods {
			known[m] = true
		}
		for key := range p.Funcs {
			if strings.HasPrefix(key, wasmT+".ClientRecoveryStore.") {
				m := strings.TrimPrefix(key, wasmT+".ClientRecoveryStore.")
				if !known[m] && !strings.Contains(m, "$") {
					c.bad("C29/methods", key, "", "ClientRecoveryStore has a method that is not covered by the rule table")
				}
			}
		}
	}
	nWrites := 0
	for _, m := range methods {
		fk := wasmT + ".ClientRecoveryStore." + m
		rr := c.Run(which, fk)
		if rr == nil {
			continue
		}
		bad := false
		nCalls := 0
		for _, ev := range rr.Events {
			if ev.Kind == "store" {
				bad = true
				c.bad("C29/"+m, fk, e.P.Pos(ev.Instr.Pos()), "writes through a pointer")
				continue
			}
			ci, ok := ev.Instr.(ssa.CallInstruction)
			if !ok || ev.Kind != "call" || !ci.Common().IsInvoke() || len(ev.Args) == 0 {
				continue
			}
			recv := e.T.String(ev.Args[0])
			if !strings.Contains(recv, "subjectStore") && !strings.Contains(recv, "substituteStore") {
				continue
			}
			if strings.HasPrefix(recv, "call:") {
				continue // a method of something a store returned (an iterator), not of a store
			}
			inClosed := m == "closedIterator"
			for _, s := range ev.Stack {
				if strings.HasSuffix(s, ".closedIterator") {
					inClosed = true
				}
			}
			if inClosed {
				continue // judged by the closed-iterator rule below
			}
			nCalls++
			op := ci.Common().Method.Name()
			pos := e.P.Pos(ev.Instr.Pos())
			switch {
			case recv == subst:
				if !readOps[op] {
					bad = true
					c.bad("C29/"+m, fk, pos, "calls "+op+" on the substitute store")
				} else if op != "GetStoreType" {
					// reads of the substitute happen only for the substitute prefix
					k := "param#1"
					if !(any(notSubj(k), ev.Atoms) && any(isSubst(k), ev.Atoms)) {
						bad = true
						c.bad("C29/"+m, fk, pos, "reads the substitute store for a key whose prefix is not established to be \"substitute/\"")
					} else if len(ev.Args) > 1 && !any(trim(k, "substitute/"), setOf(ev.Args[1])) {
						bad = true
						c.bad("C29/"+m, fk, pos, "reads the substitute store with "+clip(e.T.String(ev.Args[1]), 80)+", not the key with its prefix removed")
					}
				}
			case recv == subj:
				if op == "Set" || op == "Delete" {
					nWrites++
					if !any(isSubj("param#1"), ev.Atoms) {
						bad = true
						c.bad("C29/"+m, fk, pos, op+" on the subject store for a key whose prefix is not established to be \"subject/\"")
					} else if !any(trim("param#1", "subject/"), setOf(ev.Args[1])) {
						bad = true
						c.bad("C29/"+m, fk, pos, op+" uses key "+clip(e.T.String(ev.Args[1]), 80)+", not the key with its prefix removed")
					}
				} else if readOps[op] && op != "GetStoreType" && m != "closedIterator" {
					if !any(isSubj("param#1"), ev.Atoms) {
						bad = true
						c.bad("C29/"+m, fk, pos, "reads the subject store for a key whose prefix is not established to be \"subject/\"")
					}
				}
			default:
				bad = true
				c.bad("C29/"+m, fk, pos, "store call on "+clip(recv, 80))
			}
			// range reads: both bounds must carry the same prefix
			if (op == "Iterator" || op == "ReverseIterator") && m != "closedIterator" && (recv == subj || recv == subst) {
				pfx := "subject/"
				if recv == subst {
					pfx = "substitute/"
				}
				if len(ev.Args) < 3 || !any(trim("param#1", pfx), setOf(ev.Args[1])) || !any(trim("param#2", pfx), setOf(ev.Args[2])) ||
					!any("T(call:bytes.HasPrefix(param#2, conv:bytes(\""+pfx+"\")))", ev.Atoms) {
					bad = true
					c.bad("C29/"+m, fk, pos, "iterates an underlying store without both bounds carrying \""+pfx+"\" and being stripped of it")
				}
			}
		}
		// unprefixed keys: nothing is touched and the empty answer is returned
		for _, ev := range rr.Events {
			if ev.Kind != "return" {
				continue
			}
			unpref := any(notSubj("param#1"), ev.Atoms) && any("F(call:bytes.HasPrefix(param#1, conv:bytes(\"substitute/\")))", ev.Atoms)
			if !unpref {
				continue
			}
			pos := e.P.Pos(ev.Instr.Pos())
			switch m {
			case "Get":
				if len(ev.Args) != 1 || e.T.String(ev.Args[0]) != "nil" {
					bad = true
					c.bad("C29/"+m, fk, pos, "an unprefixed key does not read as empty: "+clip(e.T.String(ev.Args[0]), 80))
				}
			case "Has":
				if len(ev.Args) != 1 || e.T.String(ev.Args[0]) != "false" {
					bad = true
					c.bad("C29/"+m, fk, pos, "an unprefixed key is reported present: "+clip(e.T.String(ev.Args[0]), 80))
				}
			case "Set", "Delete":
				if any("call:iface:*KVStore.Set", ev.Atoms) || any("call:iface:*KVStore.Delete", ev.Atoms) || any("call:iface:*.Set", ev.Atoms) || any("call:iface:*.Delete", ev.Atoms) {
					bad = true
					c.bad("C29/"+m, fk, pos, "an unprefixed key reaches a store write")
				}
			case "Iterator", "ReverseIterator":
				if len(ev.Args) != 1 || !any(closedVal, setOf(ev.Args[0])) {
					bad = true
					c.bad("C29/"+m, fk, pos, "an unprefixed range does not return the closed iterator: "+clip(e.T.String(ev.Args[0]), 100))
				}
			}
		}
		if !bad {
			c.ok("C29/"+m, fk, "", fmt.Sprintf("%d underlying store calls, all on the store and key selected by the prefix", nCalls))
		}
	}
	if nWrites < 2 {
		c.bad("C29/writes", wasmT+".ClientRecoveryStore", "", fmt.Sprintf("expected the Set and Delete forwarding calls, found %d", nWrites))
	}
	// mixed-prefix ranges return the closed iterator
	for _, m := range []string{"Iterator", "ReverseIterator"} {
		fk := wasmT + ".ClientRecoveryStore." + m
		rr := c.Run(which, fk)
		if rr == nil {
			continue
		}
		bad := false
		for _, ev := range rr.Events {
			if ev.Kind != "return" || len(ev.Args) != 1 {
				continue
			}
			mixed := (any(isSubj("param#1"), ev.Atoms) && any(notSubj("param#2"), ev.Atoms)) || (any(notSubj("param#1"), ev.Atoms) && any(isSubj("param#2"), ev.Atoms))
			if mixed && !any(closedVal, setOf(ev.Args[0])) {
				bad = true
				c.bad("C29/"+m+"/mixed", fk, e.P.Pos(ev.Instr.Pos()), "bounds with different prefixes do not return the closed iterator: "+clip(e.T.String(ev.Args[0]), 100))
			}
		}
		if !bad {
			c.ok("C29/"+m+"/mixed", fk, "", "bounds with different prefixes return the closed iterator")
		}
	}
	// closedIterator must read as empty whatever the stores hold: it may not hand out an iterator
	// obtained from a store (closing an iterator does not invalidate it), and the value it returns
	// must be of a type whose Valid() is constantly false
	if rr := c.Run(which, wasmT+".ClientRecoveryStore.closedIterator"); rr != nil {
		fk := wasmT + ".ClientRecoveryStore.closedIterator"
		touches := false
		for _, ev := range rr.Events {
			if ci, ok := ev.Instr.(ssa.CallInstruction); ok && ev.Kind == "call" && ci.Common().IsInvoke() && len(ev.Args) > 0 {
				r := e.T.String(ev.Args[0])
				if r == subj || r == subst {
					touches = true
					c.bad("C29/closed-iterator/reads-empty", fk, e.P.Pos(ev.Instr.Pos()),
						"the 'closed' iterator is an iterator over "+clip(e.T.String(ev.Call), 120)+" of an underlying store: Close() does not invalidate it, so an unprefixed or mixed-prefix range yields the subject store's entries in that range")
				}
			}
		}
		if !touches {
			never := true
			n := 0
			for _, b := range rr.Fn.Blocks {
				for _, ins := range b.Instrs {
					ret, ok := ins.(*ssa.Return)
					if !ok || len(ret.Results) != 1 {
						continue
					}
					n++
					mi, ok := ret.Results[0].(*ssa.MakeInterface)
					if !ok {
						never = false
						continue
					}
					vm := e.P.SSA.LookupMethod(mi.X.Type(), rr.Fn.Pkg.Pkg, "Valid")
					if vm == nil || vm.Blocks == nil {
						never = false
						continue
					}
					for _, vb := range vm.Blocks {
						for _, vi := range vb.Instrs {
							if vr, ok := vi.(*ssa.Return); ok {
								k, isC := vr.Results[0].(*ssa.Const)
								if !isC || k.Value == nil || k.Value.ExactString() != "false" {
									never = false
								}
							}
						}
					}
				}
			}
			if never && n > 0 {
				c.ok("C29/closed-iterator/reads-empty", fk, "", "returns a value whose Valid() is constantly false and touches no store")
			} else {
				c.bad("C29/closed-iterator/reads-empty", fk, "", "the returned iterator is not of a type whose Valid() is constantly false")
			}
		}
	}
	// ---- the recovery call site
	if rr := c.Run(which, "light-clients/08-wasm.LightClientModule.RecoverClient"); rr != nil {
		st := func(id string) string {
			return "call:*/02-client/types.StoreProvider.ClientStore(field:storeProvider(param#0), param#1, " + id + ")"
		}
		c.Check(which, "C29/recover/store", c.Calls(rr, wasmT+".NewClientRecoveryStore"), 1, nil, nil,
			Req{Name: "subject-then-substitute", Args: map[int]string{0: st("param#2"), 1: st("param#3")}})
		c.Check(which, "C29/recover/sudo", c.Calls(rr, "light-clients/08-wasm/keeper.Keeper.WasmSudo"), 1, nil, nil,
			Req{Name: "contract-gets-the-recovery-store", Args: map[int]string{2: "param#2", 3: "~in(~and(~wf(subjectStore, " + st("param#2") + "), ~wf(substituteStore, " + st("param#3") + ")))"}})
	}
}

// globalLiteral returns the string literal a package-level []byte/string variable is initialised with, if the
// variable is never reassigned; "" otherwise.
func (c *Ctx) globalLiteral(which, pkgSuffix, name string) string {
	e := c.Engine(which)
	if e == nil {
		return ""
	}
	for _, sp := range e.P.SSAPkgs {
		if sp == nil || !strings.HasSuffix(sp.Pkg.Path(), pkgSuffix) {
			continue
		}
		if v, ok := e.GlobalConst(load.ShortPkg(sp.Pkg.Path()) + "." + name); ok {
			s := e.T.String(v)
			s = strings.TrimSuffix(strings.TrimPrefix(s, "conv:bytes("), ")")
			if len(s) >= 2 && s[0] == '"' {
				return s[1 : len(s)-1]
			}
		}
	}
	return ""
}
