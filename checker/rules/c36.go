package rules

import (
	"fmt"
	"strings"

	"ibcverif/term"
)

func init() {
	Register(&Prop{ID: "C36", Title: "Transfer authorizations never exceed their grant",
		Technique: "abstract interpretation (go/ssa): guard chain and state update on every accepting return of TransferAuthorization.Accept (allocation selected by the message's own port and channel, receiver allow list, memo list, spend-limit subtraction with the negative flag tested, allocation removal at zero, response flags), definitions of the three helper predicates",
		LevelText: "Decides that Accept returns without error only for a MsgTransfer whose (source port, source channel) equals an allocation's, whose receiver passed that allocation's allow list (empty list or an equal entry) and whose memo passed that allocation's memo list; that unless the allocation's limit for the message's denomination is the unlimited sentinel, the new limit is Coins.SafeSub(limit, message token) with the negative flag false and is stored back into that allocation (so the limit decreases by exactly the accepted amount and a request above it — in particular the 'entire balance' sentinel amount 2^256-1 against any bounded limit — is refused); that an allocation whose limit became zero is removed, that Delete is reported only when no allocation is left and that an updated authorization carrying the remaining allocations is returned whenever a limit changed. Coins arithmetic (SafeSub, IsZero, AmountOf) is cosmos-sdk's and trusted; x/authz persisting the updated grant is outside ibc-go.",
		Note:      "go/types + go/ssa; cosmos-sdk Coins arithmetic and x/authz trusted", Design: "§5 C36", Run: runC36})
}

func runC36(c *Ctx) {
	const which = "main"
	e := c.Engine(which)
	if e == nil {
		return
	}
	any := func(src string, set term.Set) bool { return e.T.Any(c.pats(which, nil, src)[0], set, nil) }
	ta := xferT + ".TransferAuthorization.Accept"
	if rr := c.Run(which, ta); rr != nil {
		allocs := "field:Allocations(param#0)"
		idx := "call:" + xferT + ".getAllocationIndex(~or(param#2, deref(param#2)), " + allocs + ")"
		alloc := "index(" + allocs + ", " + idx + ")"
		limit := "field:SpendLimit(" + alloc + ")"
		unb := "call:sdkmath.Int.Equal(call:sdk.Coins.AmountOf(" + limit + ", field:Denom(field:Token(param#2))), call:sdkmath.NewIntFromBigInt(gv:" + xferT + ".maxUint256))"
		sub := "call:sdk.Coins.SafeSub(" + limit + ", field:Token(param#2))"
		common := []string{
			"T(istype:*" + xferT + ".MsgTransfer(param#2))",
			"ne(" + idx + ", -1)",
			"T(call:" + xferT + ".isAllowedAddress(_, field:Receiver(param#2), field:AllowList(" + alloc + ")))",
			"ok(call:" + xferT + ".validateMemo(_, field:Memo(param#2), field:AllowedPacketData(" + alloc + ")))",
		}
		nU, nB := 0, 0
		for _, ev := range rr.Events {
			if ev.Kind != "return" || len(ev.Args) != 2 || e.T.String(ev.Args[1]) != "nil" {
				continue
			}
			cst := ta + "@" + c.retOrdinal(rr, ev)
			pos := e.P.Pos(ev.Instr.Pos())
			okc := true
			for _, p := range common {
				if !any(p, ev.Atoms) {
					okc = false
					c.bad("C36/accept/guards", cst, pos, "accepts without "+clip(p, 140))
				}
			}
			resp := setOf(ev.Args[0])
			if !any("~wf(Accept, true)", resp) {
				okc = false
				c.bad("C36/accept/response", cst, pos, "a nil error is returned with Accept != true")
			}
			limStore := "store(faddr:SpendLimit(iaddr(" + allocs + ", " + idx + ")), extract:0(" + sub + "))"
			switch {
			case any("T("+unb+")", ev.Atoms):
				nU++
				if any("store(faddr:SpendLimit(_), _)", ev.Atoms) {
					okc = false
					c.bad("C36/accept/unlimited", cst, pos, "an unlimited allocation has its limit rewritten")
				}
			case any("F("+unb+")", ev.Atoms):
				nB++
				if !any("F(extract:1("+sub+"))", ev.Atoms) || !any(limStore, ev.Atoms) {
					okc = false
					c.bad("C36/accept/bounded", cst, pos, "a bounded allocation is accepted without limit' = SafeSub(limit, token), not negative, stored back into the same allocation")
				}
				// a changed limit must be reported back (or the grant deleted)
				if !any("~wf(Delete, true)", resp) && !any("~wf(Updated, ~or(addr#*, ref(~wf(Allocations, _))))", resp) {
					okc = false
					c.bad("C36/accept/bounded", cst, pos, "the limit changed but neither an updated authorization nor deletion is returned")
				}
			default:
				okc = false
				c.bad("C36/accept/limit", cst, pos, "accepts without having compared the allocation's limit for the message's denomination with the unlimited sentinel")
			}
			// Delete only when nothing is left
			if any("~wf(Delete, true)", resp) && !any("eq(len(_), 0)", ev.Atoms) {
				okc = false
				c.bad("C36/accept/response", cst, pos, "Delete is reported although allocations may remain")
			}
			// an exhausted allocation is removed
			zeroNew := "T(call:sdk.Coins.IsZero(extract:0(" + sub + ")))"
			zeroOld := "T(call:sdk.Coins.IsZero(" + limit + "))"
			if (any(zeroNew, ev.Atoms) || any(zeroOld, ev.Atoms)) && !any("store(faddr:Allocations(param#0), call:slices.Delete("+allocs+", "+idx+", binop:+("+idx+", 1)))", ev.Atoms) {
				okc = false
				c.bad("C36/accept/removal", cst, pos, "an allocation whose limit is zero is not removed")
			}
			if okc {
				c.ok("C36/accept", cst, pos, "accepting return with all guards, the limit update and a consistent response")
			}
		}
		if nU == 0 || nB == 0 {
			c.bad("C36/accept/cases", ta, "", fmt.Sprintf("expected accepting returns for unlimited and bounded allocations, got %d/%d", nU, nB))
		}
	}
	// ---- helpers
	if rr := c.Run(which, xferT+".getAllocationIndex"); rr != nil {
		fk := xferT + ".getAllocationIndex"
		good, n := true, 0
		for _, ev := range rr.Events {
			if ev.Kind != "return" || len(ev.Args) != 1 {
				continue
			}
			n++
			if e.T.String(ev.Args[0]) == "-1" {
				continue
			}
			// the returned index i (a loop variable, or the result of a slices search over the allocations) has
			// allocations[i] established to carry the message's channel and port
			ps := c.pats(which, nil, "eq(field:SourceChannel(index(param#1, ?i)), field:SourceChannel(param#0))", "eq(field:SourcePort(index(param#1, ?i)), field:SourcePort(param#0))")
			found := false
			e.T.MatchSet(ps, ev.Atoms, term.Env{}, func(en term.Env) bool {
				i := en["i"]
				if i == ev.Args[0] || (e.T.Op(i) == e.T.Op(ev.Args[0]) && strings.HasPrefix(e.T.Op(i), "call:slices.") && e.T.Args(i)[0] == e.T.Args(ev.Args[0])[0]) {
					found = true
				}
				return found
			})
			if !found {
				good = false
				c.bad("C36/allocation-index", fk, e.P.Pos(ev.Instr.Pos()), "returns an index whose allocation is not established to have the message's port and channel")
			}
		}
		if good && n >= 2 {
			c.ok("C36/allocation-index", fk, "", "an index is returned only for an allocation with the message's source port and channel")
		} else if n < 2 {
			c.bad("C36/allocation-index", fk, "", "expected a found and a not-found return")
		}
	}
	if rr := c.Run(which, xferT+".isAllowedAddress"); rr != nil {
		fk := xferT + ".isAllowedAddress"
		good, nT := true, 0
		for _, ev := range rr.Events {
			if ev.Kind != "return" || len(ev.Args) != 1 || e.T.String(ev.Args[0]) != "true" {
				continue
			}
			nT++
			if !any("eq(len(param#2), 0)", ev.Atoms) && !any("eq(index(param#2, _), param#1)", ev.Atoms) {
				good = false
				c.bad("C36/allow-list", fk, e.P.Pos(ev.Instr.Pos()), "reports the receiver allowed without an empty list or an equal entry")
			}
		}
		if good && nT >= 2 {
			c.ok("C36/allow-list", fk, "", "true only for an empty list or an entry equal to the receiver")
		} else if nT < 2 {
			c.bad("C36/allow-list", fk, "", "expected two accepting returns")
		}
	}
	if rr := c.Run(which, xferT+".validateMemo"); rr != nil {
		fk := xferT + ".validateMemo"
		good, n := true, 0
		for _, ev := range rr.Events {
			if ev.Kind != "return" || len(ev.Args) != 1 || e.T.String(ev.Args[0]) != "nil" {
				continue
			}
			n++
			switch {
			case any("eq(len(param#2), 0)", ev.Atoms) && any("eq(len(call:strings.TrimSpace(param#1)), 0)", ev.Atoms):
			case any("eq(len(param#2), 1)", ev.Atoms) && any("eq(index(param#2, 0), \"*\")", ev.Atoms):
			case any("T(call:slices.ContainsFunc(param#2, closure:"+xferT+".validateMemo$1(...)))", ev.Atoms):
			default:
				good = false
				c.bad("C36/memo", fk, e.P.Pos(ev.Instr.Pos()), "accepts a memo outside the three admissible cases (no list and empty memo; the allow-all entry; an entry equal up to surrounding space)")
			}
		}
		if good && n >= 3 {
			c.ok("C36/memo", fk, "", "nil only for: empty list and blank memo; single allow-all entry; a matching entry")
		} else if n < 3 {
			c.bad("C36/memo", fk, "", fmt.Sprintf("expected three accepting returns, found %d", n))
		}
	}
	// the closure compares the memo with the entry
	if parent := e.P.Funcs[xferT+".validateMemo"]; parent != nil && len(parent.AnonFuncs) == 1 {
		rr := e.Run(parent.AnonFuncs[0])
		good := len(rr.Rets) > 0
		for _, r := range rr.Rets {
			if len(r.Results) != 1 || !any("eq(call:strings.TrimSpace(_), call:strings.TrimSpace(param#0))", setOf(r.Results[0])) {
				good = false
			}
		}
		if good {
			c.ok("C36/memo/compare", xferT+".validateMemo$1", "", "entry matches iff TrimSpace(memo) == TrimSpace(entry)")
		} else {
			c.bad("C36/memo/compare", xferT+".validateMemo$1", "", "the memo comparison is not an equality of the trimmed strings")
		}
	} else {
		c.undecided("C36/memo/compare", xferT+".validateMemo$1", "", "comparison closure not found")
	}
}
