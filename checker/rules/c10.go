package rules

import (
	"fmt"

	"ibcverif/interp"
)

func init() {
	Register(&Prop{ID: "C10", Title: "IBC v2 multi-payload receives are all-or-nothing",
		Technique: "abstract interpretation (go/ssa) of the v2 RecvPacket handler: commit-count per outcome class, shape of the acknowledgement handed to the writer, guards of the async and sentinel rejections, structural checks of Acknowledgement.Validate",
		LevelText: "Decides that in the v2 receive handler every payload callback runs on the shared cache context of the TAO step, that the second commit of that cache happens on exactly the path classes on which no payload reported failure (including the asynchronous one), that on a failure the acknowledgement written is the one-element list holding the error sentinel, that a successful result equal to the sentinel and an asynchronous result of a multi-payload packet are rejected, that the synchronous writer validates the acknowledgement and demands one entry per payload for a success, and that Validate rejects the sentinel inside a longer list. Does not decide per-application rollback beyond the shared cache.",
		Note:      "go/types + go/ssa; sdk.Context.CacheContext semantics", Design: "§5 C10", Run: runC10})
}

// v2RecvCommitRule is shared by C09 (async/success persist, failure discards)
// and C10 (all-or-nothing): on the non-noop successful returns of the v2
// handler the shared cache is committed a second time iff no payload failed.
func (c *Ctx) v2RecvCommitRule(which, rule string) {
	e := c.Engine(which)
	rr := c.Run(which, entryRecv2)
	if e == nil || rr == nil {
		return
	}
	noop := c.HasAtom(which, pktMacros, "T(call:errors.Is(_, gv:$chanT2.ErrNoOpMsg))")
	failed := c.HasAtom(which, pktMacros, "eq(field:Status(call:"+seamRecvV2+"), $chanT2.PacketStatus_Failure)")
	called := c.HasAtom(which, pktMacros, "call:"+seamRecvV2)
	nOK, nFail := 0, 0
	for _, r := range rr.Rets {
		if !NilErr(e)(r) || noop(r) {
			continue
		}
		commits := c.CountAtoms(which, r.Atoms, nil, pktMacros, "call:dyn(extract:1($CC($ECTX)))")
		switch {
		case failed(r):
			nFail++
			// a commit performed on only some of the paths merged into this class counts too
			if extra := c.CountAtoms(which, r.May, nil, pktMacros, "call:dyn(extract:1($CC($ECTX)))"); commits != 1 || extra != 0 {
				commits += extra
				c.bad(rule+"/failure-discards-all-app-state", entryRecv2, "", fmt.Sprintf("a path class on which a payload reported failure commits the shared cache %d times (expected only the TAO commit)", commits))
			} else {
				c.ok(rule+"/failure-discards-all-app-state", entryRecv2, "", "failure: only the TAO commit")
			}
		default:
			_ = called
			nOK++
			if commits != 2 {
				c.bad(rule+"/success-or-async-persists", entryRecv2, "", fmt.Sprintf("a path class on which no payload failed commits the shared cache %d times (expected TAO commit + application commit)", commits))
			} else {
				c.ok(rule+"/success-or-async-persists", entryRecv2, "", "no failure: application state committed")
			}
		}
	}
	if nOK == 0 || nFail == 0 {
		c.bad(rule+"/instances", entryRecv2, "", fmt.Sprintf("expected both failing and non-failing return classes, found %d/%d", nFail, nOK))
	}
}

func runC10(c *Ctx) {
	const which = "main"
	e := c.Engine(which)
	if e == nil {
		return
	}
	rr := c.Run(which, entryRecv2)
	if rr == nil {
		return
	}
	// callbacks run on the cache the TAO ran on, after its first commit
	c.Check(which, "C10/callback", c.Calls(rr, seamRecvV2), 1, pktMacros, nil,
		Req{Name: "on-shared-cache-after-tao-commit", Args: map[int]string{1: "extract:0(~and(?cc, $CC($ECTX)))"}, Any: all(
			"ok(call:$chanK2.recvPacket(_, extract:0(?cc), $PKT, ...))", "call:dyn(extract:1(?cc))")},
		Req{Name: "payload-of-this-packet", Args: map[int]string{2: "$SCL", 3: "$DCL", 4: "$SEQ", 5: "index(field:Payloads($PKT), _)"}},
	)
	c.v2RecvCommitRule(which, "C10/commit")
	// acknowledgement on the failure path is exactly [sentinel]
	wr := c.Calls(rr, "$chanK2.writeAcknowledgement")
	var wrFail, wrOK []*interp.Event
	pf := c.pats(which, pktMacros, "eq(field:Status(call:"+seamRecvV2+"), $chanT2.PacketStatus_Failure)")[0]
	for _, ev := range wr {
		if e.T.Any(pf, ev.Atoms, nil) {
			wrFail = append(wrFail, ev)
		} else {
			wrOK = append(wrOK, ev)
		}
	}
	c.Check(which, "C10/ack-on-failure", wrFail, 1, pktMacros, nil,
		Req{Name: "single-sentinel", Args: map[int]string{1: "$ECTX", 2: "$PKT", 3: "~wf(AppAcknowledgements, arr(gaddr:$chanT2.ErrorAcknowledgement))"}})
	c.Check(which, "C10/ack-on-success", wrOK, 1, pktMacros, nil,
		Req{Name: "on-entry-ctx-not-async", Args: map[int]string{1: "$ECTX", 2: "$PKT"}, None: []string{"eq(field:Status(call:" + seamRecvV2 + "), $chanT2.PacketStatus_Async)"}})
	// each appended app acknowledgement is this iteration's result and is not the sentinel
	var appends []*interp.Event
	for _, ev := range c.Calls(rr, "builtin:append") {
		if ev.Fn == rr.Fn {
			appends = append(appends, ev)
		}
	}
	c.Check(which, "C10/append", appends, 1, pktMacros, nil,
		Req{Name: "result-of-this-callback-not-sentinel", Args: map[int]string{1: "arr(field:Acknowledgement(~and(?res, call:" + seamRecvV2 + ")))"}, Any: all(
			"F(call:bytes.Equal(field:Acknowledgement(?res), gaddr:$chanT2.ErrorAcknowledgement))",
			"ne(field:Status(?res), $chanT2.PacketStatus_Failure)",
		)})
	// async only for single-payload packets
	c.Check(which, "C10/async", c.Calls(rr, "$chanK2.SetAsyncPacket"), 1, pktMacros, nil,
		Req{Name: "single-payload", Any: all("le(len(field:Payloads($PKT)), 1)")})
	// the writer validates and demands one entry per payload on success
	if wa := c.Run(which, "core/04-channel/v2/keeper.Keeper.writeAcknowledgement"); wa != nil {
		c.CheckRets(which, "C10/writer", wa, NilErr(e), 1, nil,
			Req{Name: "validated", Any: all("ok(call:$chanT2.Acknowledgement.Validate(param#3))")},
			Req{Name: "one-entry-per-payload-on-success", Any: [][]string{
				{"F(call:$chanT2.Acknowledgement.Success(param#3))"},
				{"eq(len(field:AppAcknowledgements(param#3)), len(field:Payloads(param#2)))"},
			}},
		)
	}
	if v := c.Run(which, "core/04-channel/v2/types.Acknowledgement.Validate"); v != nil {
		c.CheckRets(which, "C10/validate", v, NilErr(e), 1, nil,
			Req{Name: "non-empty", Any: all("ne(len(field:AppAcknowledgements(param#0)), 0)")})
		c.Exists(which, "C10/validate", "core/04-channel/v2/types.Acknowledgement.Validate", c.Calls(v, "errorsmod.Wrap"), nil,
			Req{Name: "rejects-sentinel-in-longer-list", Any: all(
				"lt(1, len(field:AppAcknowledgements(param#0)))",
				"T(call:bytes.Equal(_, gaddr:$chanT2.ErrorAcknowledgement))",
			)},
			Req{Name: "rejects-empty-element", Any: all("eq(len(index(field:AppAcknowledgements(param#0), _)), 0)")},
		)
	}
}
