package rules

import (
	"fmt"

	"golang.org/x/tools/go/ssa"

	"ibcverif/interp"
	"ibcverif/term"
)

func init() {
	Register(&Prop{ID: "C24", Title: "Tendermint headers and misbehaviour are accepted only when verified",
		Technique: "abstract interpretation (go/ssa): guard chain on the nil return of header verification and argument binding into cometbft's light.Verify (trusted header rebuilt from the stored consensus state, client's own trusting period, clock drift and trust level, block time), same for both misbehaviour headers; freeze reachable only after verification",
		LevelText: "Decides that verifyHeader succeeds only if the consensus state at the header's trusted height is stored, the trusted validators hash to its next-validators hash, the header's revision equals the trusted height's, its height is strictly above the trusted height, and cometbft's light.Verify succeeded when called with a trusted header rebuilt from that stored consensus state (chain id of the client, trusted height, stored timestamp and next-validators hash), the header's own signed header and validator set, the client's trusting period, max clock drift and trust level, and the block time; that misbehaviour verification requires, for both headers, the stored trusted consensus state, the same trusted-validator check, the trusting-period guard against block time and VerifyCommitLightTrusting with the client's trust level; and that the keeper freezes or updates only after VerifyClientMessage succeeded. cometbft's signature and voting-power checks are trusted.",
		Note:      "go/types + go/ssa; github.com/cometbft/cometbft/light trusted", Design: "§5 C24", Run: runC24})
	Register(&Prop{ID: "C25", Title: "Client recovery and upgrade are gated and touch only the subject",
		Technique: "abstract interpretation (go/ssa): gates of the keeper's RecoverClient/UpgradeClient, store lineage of every write in the tendermint recovery (subject store only; substitute store read-only), copied values bound to the substitute's latest height, constructor argument binding of the upgraded client state, proofs under the consensus root at the latest height",
		LevelText: "Decides that the keeper recovers only when the subject is not Active, the substitute is Active and the subject's latest height is strictly below the substitute's; that the tendermint recovery requires a tendermint substitute with matching parameters, copies the substitute's consensus state, processed height and processed time at the substitute's latest height into the subject's store, resets a frozen height, takes over latest height, chain id and trusting period, and performs no write on the substitute's store; that an upgrade requires a non-empty upgrade path, two successful membership proofs under the root of the consensus state at the client's latest height with paths built from the client's upgrade path and that height, builds the new client state from the committed chain-chosen fields and the client's own trust level and max clock drift, and that the keeper only upgrades an Active client to a strictly greater height. Does not decide the trusting-period scaling arithmetic for all durations.",
		Note:      "go/types + go/ssa", Design: "§5 C25", Run: runC25})
}

func runC24(c *Ctx) {
	const which = "main"
	e := c.Engine(which)
	if e == nil {
		return
	}
	// verifyHeader(cs#0, ctx#1, clientStore#2, cdc#3, header#4)
	if rr := c.Run(which, tm+".ClientState.verifyHeader"); rr != nil {
		cons := "extract:0(call:$clientT.UnmarshalConsensusState(_, call:iface:*KVStore.Get(param#2, ~key(\"consensusStates/{s}\", field:TrustedHeight(param#4)))))"
		hdrHeight := "~and(~wf(RevisionHeight, conv:uint64(field:Height(field:Header(field:SignedHeader(param#4))))), ~wf(RevisionNumber, call:$clientT.ParseChainID(field:ChainID(field:Header(field:SignedHeader(param#4))))))"
		c.CheckRets(which, "C24/header", rr, NilErr(e), 1, nil,
			Req{Name: "trusted-consensus-state-stored", Any: all("T(extract:1(call:" + tm + ".GetConsensusState(param#2, _, field:TrustedHeight(param#4))))")},
			Req{Name: "trusted-validators-hash-to-stored-next-validators-hash", Any: all(
				"T(call:bytes.Equal(field:NextValidatorsHash("+cons+"), call:cmttypes.ValidatorSet.Hash(extract:0(call:cmttypes.ValidatorSetFromProto(field:TrustedValidators(param#4))))))")},
			Req{Name: "same-revision", Any: all("eq(call:$clientT.ParseChainID(field:ChainID(field:Header(field:SignedHeader(param#4)))), field:RevisionNumber(field:TrustedHeight(param#4)))")},
			Req{Name: "strictly-above-trusted-height", Any: all("F(call:$clientT.Height.LTE(" + hdrHeight + ", field:TrustedHeight(param#4)))")},
			Req{Name: "light-verify-ok", Any: all("ok(call:light.Verify)")},
		)
		trusted := "ref(~wf(Header, ref(~and(~wf(ChainID, field:ChainId(~or(param#0, deref(param#0)))), ~wf(Height, conv:int64(field:RevisionHeight(field:TrustedHeight(param#4)))), ~wf(Time, field:Timestamp(" + cons + ")), ~wf(NextValidatorsHash, field:NextValidatorsHash(" + cons + "))))))"
		c.Check(which, "C24/header/light-verify", c.Calls(rr, "light.Verify"), 1, nil, nil,
			Req{Name: "arguments", Args: map[int]string{
				0: trusted,
				1: "extract:0(call:cmttypes.ValidatorSetFromProto(field:TrustedValidators(param#4)))",
				2: "extract:0(call:cmttypes.SignedHeaderFromProto(field:SignedHeader(param#4)))",
				3: "extract:0(call:cmttypes.ValidatorSetFromProto(field:ValidatorSet(param#4)))",
				4: "field:TrustingPeriod(param#0)",
				5: "call:sdk.Context.BlockTime(param#1)",
				6: "field:MaxClockDrift(param#0)",
				7: "~and(~wf(Numerator, field:Numerator(field:TrustLevel(param#0))), ~wf(Denominator, field:Denominator(field:TrustLevel(param#0))))",
			}})
	}
	// VerifyClientMessage dispatches to verifyHeader / verifyMisbehaviour with its own arguments
	if rr := c.Run(which, tm+".ClientState.VerifyClientMessage"); rr != nil {
		c.CheckRets(which, "C24/dispatch", rr, NilErr(e), 1, nil,
			Req{Name: "header-or-misbehaviour-verified", Any: [][]string{
				{"ok(call:" + tm + ".ClientState.verifyHeader(param#0, param#1, param#3, param#2, _))"},
				{"ok(call:" + tm + ".ClientState.verifyMisbehaviour(param#0, param#1, param#3, param#2, _))"},
			}})
	}
	// verifyMisbehaviour(cs#0, ctx#1, clientStore#2, cdc#3, misbehaviour#4)
	if rr := c.Run(which, tm+".ClientState.verifyMisbehaviour"); rr != nil {
		for _, h := range []string{"Header1", "Header2"} {
			hd := "field:" + h + "(param#4)"
			cons := "extract:0(call:$clientT.UnmarshalConsensusState(_, call:iface:*KVStore.Get(param#2, ~key(\"consensusStates/{s}\", field:TrustedHeight(" + hd + ")))))"
			c.CheckRets(which, "C24/misbehaviour/"+h, rr, NilErr(e), 1, nil,
				Req{Name: "trusted-state-stored-and-header-checked", Any: all(
					"T(extract:1(call:"+tm+".GetConsensusState(param#2, _, field:TrustedHeight("+hd+"))))",
					"ok(call:"+tm+".checkMisbehaviourHeader(param#0, "+cons+", "+hd+", call:sdk.Context.BlockTime(param#1)))",
				)})
		}
	}
	// checkMisbehaviourHeader(clientState#0, consState#1, header#2, now#3)
	if rr := c.Run(which, tm+".checkMisbehaviourHeader"); rr != nil {
		c.CheckRets(which, "C24/misbehaviour-header", rr, NilErr(e), 1, nil,
			Req{Name: "trusted-validators-checked", Any: all("ok(call:" + tm + ".checkTrustedHeader(param#2, param#1))")},
			Req{Name: "within-trusting-period", Any: all("lt(call:time.Time.Sub(param#3, field:Timestamp(param#1)), field:TrustingPeriod(param#0))")},
			Req{Name: "commit-verified-with-trust-level", Any: all("ok(call:cmttypes.ValidatorSet.VerifyCommitLightTrusting(extract:0(call:cmttypes.ValidatorSetFromProto(field:TrustedValidators(param#2))), _, extract:0(call:cmttypes.CommitFromProto(field:Commit(~in(param#2)))), _))")},
		)
		c.Check(which, "C24/misbehaviour-header/trust-level", c.Calls(rr, "cmttypes.ValidatorSet.VerifyCommitLightTrusting"), 1, nil, nil,
			Req{Name: "client-trust-level", Args: map[int]string{3: "~and(~wf(Numerator, field:Numerator(field:TrustLevel(param#0))), ~wf(Denominator, field:Denominator(field:TrustLevel(param#0))))"}})
	}
	if rr := c.Run(which, tm+".checkTrustedHeader"); rr != nil {
		c.CheckRets(which, "C24/trusted-header", rr, NilErr(e), 1, nil,
			Req{Name: "trusted-validators-hash-to-next-validators-hash", Any: all(
				"T(call:bytes.Equal(field:NextValidatorsHash(param#1), call:cmttypes.ValidatorSet.Hash(extract:0(call:cmttypes.ValidatorSetFromProto(field:TrustedValidators(param#0))))))")})
	}
	// keeper: freeze / update only after verification
	if rr := c.Run(which, "core/02-client/keeper.Keeper.UpdateClient"); rr != nil {
		for _, s := range []string{"UpdateStateOnMisbehaviour", "UpdateState"} {
			c.Check(which, "C24/keeper/"+s, c.Calls(rr, "iface:core/exported.LightClientModule."+s), 1, nil, nil,
				Req{Name: "after-verify-client-message", Args: map[int]string{0: "?lcm", 2: "?cid", 3: "?msg"}, Any: all("ok($LCM.VerifyClientMessage(?lcm, _, ?cid, ?msg))")})
		}
	}
}

func runC25(c *Ctx) {
	const which = "main"
	e := c.Engine(which)
	if e == nil {
		return
	}
	c.recoverGate(which, "C25")
	// ---- tendermint module: stores of subject and substitute
	if rr := c.Run(which, tm+".LightClientModule.RecoverClient"); rr != nil {
		subj := `call:prefix.NewStore(_, ~key("clients/{s}/", param#2))`
		subst := `call:prefix.NewStore(_, ~key("clients/{s}/", param#3))`
		c.Check(which, "C25/tm/recover-module", c.Calls(rr, tm+".ClientState.CheckSubstituteAndUpdateState"), 1, nil, nil,
			Req{Name: "subject-and-substitute-stores", Args: map[int]string{3: subj, 4: subst}},
			Req{Name: "same-client-type", Any: all("eq(extract:0(call:$clientT.ParseClientIdentifier(param#3)), _)")},
		)
	}
	// CheckSubstituteAndUpdateState(cs#0, ctx#1, cdc#2, subjectStore#3, substituteStore#4, substituteClient#5)
	if rr := c.Run(which, tm+".ClientState.CheckSubstituteAndUpdateState"); rr != nil {
		h := "field:LatestHeight(deref(param#5))"
		c.CheckRets(which, "C25/tm/recover", rr, NilErr(e), 1, nil,
			Req{Name: "matching-parameters", Any: all("T(call:" + tm + ".IsMatchingClientState(deref(param#0), deref(param#5)))")},
			Req{Name: "copies-substitute-latest-consensus-state", Any: all(
				"T(extract:1(call:"+tm+".GetConsensusState(param#4, _, "+h+")))",
				"call:"+tm+".setConsensusState(param#3, _, _, "+h+")",
			)},
			Req{Name: "copies-substitute-metadata", Any: all(
				"call:"+tm+".setConsensusMetadataWithValues(param#3, "+h+", ~in(call:iface:*KVStore.Get(param#4, ~key(\"consensusStates/{s}/processedHeight\", "+h+"))), ~in(call:iface:*KVStore.Get(param#4, ~key(\"consensusStates/{s}/processedTime\", "+h+"))))",
			)},
			Req{Name: "client-state-stored-in-subject", Any: all("call:" + tm + ".setClientState(param#3, _, param#0)")},
		)
		// every write goes to the subject store; the substitute store is only read
		nW := 0
		for _, ev := range rr.Events {
			ci, ok := ev.Instr.(ssa.CallInstruction)
			if !ok || ev.Kind != "call" {
				continue
			}
			if _, ok := isKVWriteMethod(ci.Common()); ok {
				nW++
				if e.T.String(ev.Args[0]) != "param#3" {
					c.bad("C25/tm/recover/writes", tm+".ClientState.CheckSubstituteAndUpdateState", e.P.Pos(ev.Instr.Pos()), "a store write goes to "+clip(e.T.String(ev.Args[0]), 80)+", not to the subject store")
				}
			}
		}
		if nW >= 5 {
			c.ok("C25/tm/recover/writes", tm+".ClientState.CheckSubstituteAndUpdateState", "", fmt.Sprintf("%d store writes, all on the subject store", nW))
		} else {
			c.bad("C25/tm/recover/writes", tm+".ClientState.CheckSubstituteAndUpdateState", "", fmt.Sprintf("only %d store writes found", nW))
		}
		// field updates of the subject client state
		want := map[string]string{
			"LatestHeight":   "field:LatestHeight(deref(param#5))",
			"ChainId":        "field:ChainId(deref(param#5))",
			"TrustingPeriod": "field:TrustingPeriod(deref(param#5))",
		}
		seen := map[string]bool{}
		for _, ev := range rr.Events {
			if ev.Kind != "store" {
				continue
			}
			for f, w := range want {
				pa := c.pats(which, nil, "faddr:"+f+"(param#0)")[0]
				if e.T.Match(pa, ev.Args[0], term.Env{}, func(term.Env) bool { return true }) {
					pv := c.pats(which, nil, w)[0]
					if e.T.Match(pv, ev.Args[1], term.Env{}, func(term.Env) bool { return true }) {
						seen[f] = true
					} else {
						c.bad("C25/tm/recover/fields", f, e.P.Pos(ev.Instr.Pos()), "subject."+f+" is set to "+clip(e.T.String(ev.Args[1]), 120)+", not to the substitute's value")
					}
				}
			}
		}
		for f := range want {
			if seen[f] {
				c.ok("C25/tm/recover/fields", f, "", "taken from the substitute")
			} else {
				c.bad("C25/tm/recover/fields", f, "", "subject."+f+" is not taken over from the substitute")
			}
		}
		// frozen height reset when the subject is frozen
		c.Exists(which, "C25/tm/recover", tm+".ClientState.CheckSubstituteAndUpdateState", storeEvents(rr), nil,
			Req{Name: "unfreezes", Args: map[int]string{0: "faddr:FrozenHeight(param#0)", 1: "~or(zero:$clientT.Height, ~and(~wf(RevisionNumber, 0), ~wf(RevisionHeight, 0)), call:$clientT.ZeroHeight)"}})
	}
	if rr := c.Run(which, tm+".IsMatchingClientState"); rr != nil {
		// compares everything except the six listed fields
		p := c.pats(which, nil, "call:reflect.DeepEqual(?a, ?b)")[0]
		okk := false
		for _, r := range rr.Rets {
			if len(r.Results) == 1 && e.T.Match(p, r.Results[0], term.Env{}, func(term.Env) bool { return true }) {
				okk = true
			}
		}
		if okk {
			c.ok("C25/tm/matching", tm+".IsMatchingClientState", "", "result is a DeepEqual of the two normalised client states")
		} else {
			c.bad("C25/tm/matching", tm+".IsMatchingClientState", "", "result is not a DeepEqual of the normalised client states")
		}
	}
	// ---- upgrade
	if rr := c.Run(which, "core/02-client/keeper.Keeper.UpgradeClient"); rr != nil {
		c.Check(which, "C25/keeper/upgrade", c.Calls(rr, "iface:core/exported.LightClientModule.VerifyUpgradeAndUpdateState"), 1, nil, nil,
			Req{Name: "active-client", Args: map[int]string{2: "?cid"}, Any: all("eq($LCM.Status(_, _, ?cid), core/exported.Active)")})
	}
	c.upgradeGate(which, "C25")
	// VerifyUpgradeAndUpdateState(cs#0, ctx#1, cdc#2, clientStore#3, upgradedClient#4, upgradedConsState#5, proofClient#6, proofCons#7)
	if rr := c.Run(which, tm+".ClientState.VerifyUpgradeAndUpdateState"); rr != nil {
		last := "field:LatestHeight(param#0)"
		root := "field:Root(deref(extract:0(call:" + tm + ".GetConsensusState(param#3, _, " + last + "))))"
		rootAlt := "~or(" + root + ", ~in(call:iface:*KVStore.Get(param#3, ~key(\"consensusStates/{s}\", " + last + "))))"
		c.Check(which, "C25/tm/upgrade/proofs", c.Calls(rr, "core/23-commitment/types.MerkleProof.VerifyMembership"), 2, nil, nil,
			Req{Name: "own-specs-root-at-latest-height-upgrade-path", Args: map[int]string{
				1: "field:ProofSpecs(param#0)", 2: rootAlt,
				3: "~or(call:" + tm + ".constructUpgradeClientMerklePath(field:UpgradePath(param#0), " + last + "), call:" + tm + ".constructUpgradeConsStateMerklePath(field:UpgradePath(param#0), " + last + "), ~and(~in(field:UpgradePath(param#0)), ~in(" + last + ")))",
			}})
		c.CheckRets(which, "C25/tm/upgrade", rr, NilErr(e), 1, nil,
			Req{Name: "upgrade-path-set", Any: all("ne(len(field:UpgradePath(param#0)), 0)")},
			Req{Name: "both-proofs-verified", Any: all(
				"ok(call:core/23-commitment/types.MerkleProof.VerifyMembership(_, _, _, _, extract:0(call:iface:codec.BinaryCodec.MarshalInterface(param#2, ~in(param#4)))))",
				"ok(call:core/23-commitment/types.MerkleProof.VerifyMembership(_, _, _, _, extract:0(call:iface:codec.BinaryCodec.MarshalInterface(param#2, param#5))))",
			)},
		)
		c.Check(which, "C25/tm/upgrade/new-client", c.Calls(rr, tm+".NewClientState"), 1, nil, nil,
			Req{Name: "own-security-parameters-and-committed-chain-fields", Args: map[int]string{
				0: "field:ChainId(deref(param#4))", 1: "field:TrustLevel(param#0)", 3: "field:UnbondingPeriod(deref(param#4))",
				4: "field:MaxClockDrift(param#0)", 5: "field:LatestHeight(deref(param#4))", 6: "field:ProofSpecs(deref(param#4))", 7: "field:UpgradePath(deref(param#4))",
			}},
			// kept when unbonding does not shrink; otherwise own*new/old (decimal arithmetic, truncated)
			Req{Name: "trusting-period-kept-or-scaled-by-unbonding-ratio", Args: map[int]string{2: "?tp"}, Any: [][]string{
				{"~is(?tp, field:TrustingPeriod(param#0))", "le(field:UnbondingPeriod(param#0), field:UnbondingPeriod(param#4))"},
				{"lt(field:UnbondingPeriod(param#4), field:UnbondingPeriod(param#0))",
					"~is(?tp, call:sdkmath.LegacyDec.TruncateInt64(call:sdkmath.LegacyDec.Quo(call:sdkmath.LegacyDec.Mul(call:sdkmath.LegacyNewDec(call:time.Duration.Nanoseconds(field:TrustingPeriod(param#0))), call:sdkmath.LegacyNewDec(call:time.Duration.Nanoseconds(field:UnbondingPeriod(param#4)))), call:sdkmath.LegacyNewDec(call:time.Duration.Nanoseconds(field:UnbondingPeriod(param#0))))))"},
			}},
		)
	}
	_ = interp.New
}

// recoverGate: the keeper hands a recovery to the light client module only for a
// non-Active subject, an Active substitute and a subject whose latest height is
// strictly below the substitute's (so recovery cannot lower the latest height).
func (c *Ctx) recoverGate(which, pfx string) {
	// RecoverClient(k#0, ctx#1, subject#2, substitute#3)
	if rr := c.Run(which, "core/02-client/keeper.Keeper.RecoverClient"); rr != nil {
		c.Check(which, pfx+"/keeper/recover", c.Calls(rr, "iface:core/exported.LightClientModule.RecoverClient"), 1, nil, nil,
			Req{Name: "gates", Args: map[int]string{0: "?lcm", 2: "param#2", 3: "param#3"}, Any: all(
				"ne($LCM.Status(?lcm, _, param#2), core/exported.Active)",
				"eq($LCM.Status(?lcm, _, param#3), core/exported.Active)",
				"F(call:$clientT.Height.GTE($LCM.LatestHeight(?lcm, _, param#2), $LCM.LatestHeight(?lcm, _, param#3)))",
			)})
	}
}

// upgradeGate: the tendermint module upgrades only to a client state whose
// latest height is strictly greater than the stored client state's.
func (c *Ctx) upgradeGate(which, pfx string) {
	e := c.Engine(which)
	if rr := c.Run(which, tm+".LightClientModule.VerifyUpgradeAndUpdateState"); rr != nil {
		stored := "extract:0(call:$clientT.UnmarshalClientState(_, call:iface:*KVStore.Get(call:prefix.NewStore(_, ~key(\"clients/{s}/\", param#2)), conv:bytes(\"clientState\"))))"
		c.CheckRets(which, pfx+"/tm/upgrade-module", rr, NilErr(e), 1, nil,
			Req{Name: "strictly-greater-height", Any: all("T(call:$clientT.Height.GT(field:LatestHeight(esc#*), field:LatestHeight(" + stored + ")))")})
		c.Check(which, pfx+"/tm/upgrade-module/call", c.Calls(rr, tm+".ClientState.VerifyUpgradeAndUpdateState"), 1, nil, nil,
			Req{Name: "compared-state-is-the-one-applied", Args: map[int]string{0: "~or(" + stored + ", deref(" + stored + "))", 4: "ref(?new)"}, Any: all("T(call:$clientT.Height.GT(field:LatestHeight(?new), field:LatestHeight(" + stored + ")))")})
	}
}

func storeEvents(rr *interp.RunResult) []*interp.Event {
	var out []*interp.Event
	for _, ev := range rr.Events {
		if ev.Kind == "store" {
			out = append(out, ev)
		}
	}
	return out
}
