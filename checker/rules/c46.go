package rules

import (
	"fmt"
	"go/types"
	"sort"
	"strings"

	"ibcverif/interp"
	"ibcverif/load"
)

func init() {
	Register(&Prop{ID: "C46", Title: "Privileged and client-scoped operations require the right signer",
		Technique: "exhaustive classification of every Msg service handler of both modules (found through the generated MsgServer interfaces, not from a list) by abstract interpretation of its success returns: which signer check is established on every path that returns without error; comparison with a frozen table; who-may-call of the light-client router lookup and its allowed-client guard",
		LevelText: "Decides, for every Msg handler in ibc-go (main module and 08-wasm), which of these holds on all of its success returns: the configured authority equals the message signer (sdk.ValidateAuthority succeeded); authority-or-client-creator; creator-only with the counterparty not yet registered; signer is on the client's relayer allow list (IsAllowedRelayer true for the client named in the message); or none (open handler) — and that this classification equals the frozen table (privileged: client recovery, software upgrade, all parameter updates, wasm store/remove/migrate, rate-limit add/update/remove/reset; creator: RegisterCounterparty; authority-or-creator: UpdateClientConfig, DeleteClientCreator; relayer: UpdateClient and the v2 packet messages). A handler that is not in the table fails the check. Also decides that a light-client module is only obtained through the client keeper's Route, which succeeds only for a client type on the allowed list. Does not decide the semantics of the allow-list predicates themselves beyond their call.",
		Note:      "go/types + go/ssa; sdk.ValidateAuthority trusted (string equality of addresses)", Design: "§5 C46", Run: runC46})
}

// msgHandlers finds the methods implementing generated MsgServer interfaces.
func msgHandlers(p *load.Program) map[string]string { // handler key -> "<pkg>.MsgServer.<Method>"
	out := map[string]string{}
	for _, pkg := range p.Pkgs {
		if pkg.Types == nil {
			continue
		}
		obj := pkg.Types.Scope().Lookup("MsgServer")
		tn, ok := obj.(*types.TypeName)
		if !ok {
			continue
		}
		it, ok := tn.Type().Underlying().(*types.Interface)
		if !ok {
			continue
		}
		for _, impl := range p.Implementers(it) {
			named := impl
			if pt, ok := impl.(*types.Pointer); ok {
				named = pt.Elem()
			}
			nt, ok := named.(*types.Named)
			if !ok || strings.HasPrefix(nt.Obj().Name(), "Unimplemented") {
				continue
			}
			ms := p.SSA.MethodSets.MethodSet(impl)
			for i := 0; i < it.NumMethods(); i++ {
				m := it.Method(i)
				sel := ms.Lookup(m.Pkg(), m.Name())
				if sel == nil {
					continue
				}
				fn := p.SSA.MethodValue(sel)
				if fn == nil {
					continue
				}
				// promoted through embedding: use the declaring function
				key := load.FuncKey(fn)
				if fn.Synthetic != "" && fn.Object() != nil {
					if f2 := p.SSA.FuncValue(fn.Object().(*types.Func)); f2 != nil {
						key = load.FuncKey(f2)
					}
				}
				if _, ok := p.Funcs[key]; !ok {
					continue
				}
				out[key] = load.ShortPkg(pkg.PkgPath) + ".MsgServer." + m.Name()
			}
		}
	}
	return out
}

// classifyHandler returns the signer discipline established on every success return.
func (c *Ctx) classifyHandler(which string, rr *interp.RunResult) string {
	e := c.Engine(which)
	signer := "field:Signer(param#2)"
	auth := c.pats(which, nil, "ok(call:sdk.ValidateAuthority(_, ~or(call:*.GetAuthority(_), field:authority(_), field:authority(field:Keeper(_))), "+signer+"))")[0]
	creator := c.pats(which, nil, "T(call:sdk.AccAddress.Equals(call:*/02-client/keeper.Keeper.GetClientCreator(_, _, field:ClientId(param#2)), call:sdk.MustAccAddressFromBech32("+signer+")))")[0]
	creator2 := c.pats(which, nil, "T(call:sdk.AccAddress.Equals(~in(call:iface:*KVStore.Get(call:prefix.NewStore(_, ~key(\"clients/{s}/\", field:ClientId(param#2))), conv:bytes(\"creator\"))), call:sdk.MustAccAddressFromBech32("+signer+")))")[0]
	// the allow list consulted is the one of a client named by the message itself
	relayer := c.pats(which, nil, "T(call:*/02-client/v2/types.Config.IsAllowedRelayer(~and(~in(call:*GetConfig), ~in(param#2)), ~or(call:sdk.MustAccAddressFromBech32("+signer+"), extract:0(call:sdk.AccAddressFromBech32("+signer+")))))")[0]
	// core's UpdateClient skips the check on a chain that has no v2 client keeper wired
	noV2 := c.pats(which, nil, "eq(field:ClientV2Keeper(param#0), nil)")[0]
	n := 0
	cls := map[string]int{}
	for _, r := range rr.Rets {
		if !NilErr(e)(r) {
			continue
		}
		n++
		at := successAtoms(e, r)
		a := e.T.Any(auth, at, nil)
		cr := e.T.Any(creator, at, nil) || e.T.Any(creator2, at, nil)
		rl := e.T.Any(relayer, at, nil) || e.T.Any(noV2, at, nil)
		switch {
		case a:
			cls["authority"]++
		case cr:
			cls["creator"]++
		case rl:
			cls["relayer"]++
		default:
			cls["open"]++
		}
	}
	if n == 0 {
		return "no-success-return"
	}
	switch {
	case cls["open"] > 0:
		return "open"
	case cls["authority"] == n:
		return "authority"
	case cls["creator"] == n:
		return "creator"
	case cls["relayer"] == n:
		return "relayer"
	case cls["authority"] > 0 && cls["creator"] > 0 && cls["relayer"] == 0:
		return "authority-or-creator"
	}
	var ks []string
	for k, v := range cls {
		ks = append(ks, fmt.Sprintf("%s×%d", k, v))
	}
	sort.Strings(ks)
	return "mixed(" + strings.Join(ks, ",") + ")"
}

// expected signer discipline per handler (frozen after reading each handler).
var handlerTable = map[string]string{
	// ---- privileged: the configured authority must sign
	"core/keeper.Keeper.RecoverClient":                                  "authority",
	"core/keeper.Keeper.IBCSoftwareUpgrade":                             "authority",
	"core/keeper.Keeper.UpdateClientParams":                             "authority",
	"core/keeper.Keeper.UpdateConnectionParams":                         "authority",
	"apps/transfer/keeper.Keeper.UpdateParams":                          "authority",
	"apps/27-interchain-accounts/controller/keeper.Keeper.UpdateParams": "authority",
	"apps/27-interchain-accounts/host/keeper.msgServer.UpdateParams":    "authority",
	"apps/rate-limiting/keeper.msgServer.AddRateLimit":                  "authority",
	"apps/rate-limiting/keeper.msgServer.UpdateRateLimit":               "authority",
	"apps/rate-limiting/keeper.msgServer.RemoveRateLimit":               "authority",
	"apps/rate-limiting/keeper.msgServer.ResetRateLimit":                "authority",
	"light-clients/08-wasm/keeper.Keeper.StoreCode":                     "authority",
	"light-clients/08-wasm/keeper.Keeper.RemoveChecksum":                "authority",
	"light-clients/08-wasm/keeper.Keeper.MigrateContract":               "authority",
	// ---- client-scoped
	"core/keeper.Keeper.RegisterCounterparty":          "creator",
	"core/keeper.Keeper.UpdateClientConfig":            "authority-or-creator",
	"core/keeper.Keeper.DeleteClientCreator":           "authority-or-creator",
	"core/keeper.Keeper.UpdateClient":                  "relayer",
	"core/04-channel/v2/keeper.Keeper.RecvPacket":      "relayer",
	"core/04-channel/v2/keeper.Keeper.Acknowledgement": "relayer",
	"core/04-channel/v2/keeper.Keeper.Timeout":         "relayer",
	// ---- open to any signer (the signer is bound by other properties: C38, C39, C49)
	"core/keeper.Keeper.CreateClient":       "open",
	"core/keeper.Keeper.UpgradeClient":      "open", // authenticated by proofs under the committed upgrade path (C25)
	"core/keeper.Keeper.ConnectionOpenInit": "open", "core/keeper.Keeper.ConnectionOpenTry": "open",
	"core/keeper.Keeper.ConnectionOpenAck": "open", "core/keeper.Keeper.ConnectionOpenConfirm": "open",
	"core/keeper.Keeper.ChannelOpenInit": "open", "core/keeper.Keeper.ChannelOpenTry": "open",
	"core/keeper.Keeper.ChannelOpenAck": "open", "core/keeper.Keeper.ChannelOpenConfirm": "open",
	"core/keeper.Keeper.ChannelCloseInit": "open", "core/keeper.Keeper.ChannelCloseConfirm": "open",
	"core/keeper.Keeper.RecvPacket": "open", "core/keeper.Keeper.Acknowledgement": "open",
	"core/keeper.Keeper.Timeout": "open", "core/keeper.Keeper.TimeoutOnClose": "open",
	"core/04-channel/v2/keeper.Keeper.SendPacket":                                       "open",
	"apps/transfer/keeper.Keeper.Transfer":                                              "open",
	"apps/27-gmp/keeper.Keeper.SendCall":                                                "open",
	"apps/27-interchain-accounts/controller/keeper.msgServer.RegisterInterchainAccount": "open",
	"apps/27-interchain-accounts/controller/keeper.msgServer.SendTx":                    "open",
	"apps/27-interchain-accounts/host/keeper.msgServer.ModuleQuerySafe":                 "open",
}

func runC46(c *Ctx) {
	defer c.c46Extras()
	for _, which := range []string{"main", "wasm"} {
		e := c.Engine(which)
		if e == nil {
			continue
		}
		hs := msgHandlers(e.P)
		var keys []string
		for k := range hs {
			keys = append(keys, k)
		}
		sort.Strings(keys)
		if which == "main" && len(keys) < 40 {
			c.bad("C46/handlers", "MsgServer implementations", "", fmt.Sprintf("only %d Msg handlers found in the main module (expected at least 40)", len(keys)))
		}
		for _, k := range keys {
			rr := c.Run(which, k)
			if rr == nil {
				continue
			}
			got := c.classifyHandler(which, rr)
			want, known := handlerTable[k]
			switch {
			case !known:
				c.bad("C46/handler-table", k, "", "Msg handler "+hs[k]+" is not in the signer table; analysed discipline: "+got)
			case got != want:
				c.bad("C46/handler", k, "", "signer discipline is '"+got+"', the table requires '"+want+"'")
			default:
				c.ok("C46/handler", k, "", hs[k]+": "+got)
			}
			// a relayer allow list is the one of the client on THIS chain that the message is about
			if cl, ok := relayerClientOf[k]; ok && known && got == want {
				ok1 := "T(call:*/02-client/v2/types.Config.IsAllowedRelayer(call:*GetConfig(_, _, " + cl + "), _))"
				c.CheckRets(which, "C46/relayer-list-of", rr, NilErr(e), 1, nil,
					Req{Name: "this-chains-client", Any: [][]string{{ok1}, {"eq(field:ClientV2Keeper(param#0), nil)"}}})
			}
		}
	}
}

// relayerClientOf: which client's configuration holds the allow list consulted by a relayer-gated handler — the
// client that lives on this chain: the destination client of a received packet, the source client of an
// acknowledged or timed-out packet, the updated client.
var relayerClientOf = map[string]string{
	"core/keeper.Keeper.UpdateClient":                  "field:ClientId(param#2)",
	"core/04-channel/v2/keeper.Keeper.RecvPacket":      "field:DestinationClient(field:Packet(param#2))",
	"core/04-channel/v2/keeper.Keeper.Acknowledgement": "field:SourceClient(field:Packet(param#2))",
	"core/04-channel/v2/keeper.Keeper.Timeout":         "field:SourceClient(field:Packet(param#2))",
}

// c46Extras: counterparty registration happens once; light-client modules are only reachable through the
// allowed-client guard of the client keeper's Route.
func (c *Ctx) c46Extras() {
	const which = "main"
	e := c.Engine(which)
	if e == nil {
		return
	}
	if rr := c.Run(which, "core/keeper.Keeper.RegisterCounterparty"); rr != nil {
		c.CheckRets(which, "C46/register-counterparty", rr, NilErr(e), 1, nil,
			Req{Name: "only-once", Any: all("F(extract:1(call:core/02-client/v2/keeper.Keeper.GetClientCounterparty(_, _, field:ClientId(param#2))))")})
		c.Check(which, "C46/register-counterparty/write", c.Calls(rr, "core/02-client/v2/keeper.Keeper.SetClientCounterparty"), 1, nil, nil,
			Req{Name: "for-the-checked-client", Args: map[int]string{2: "field:ClientId(param#2)"},
				Any: all("F(extract:1(call:core/02-client/v2/keeper.Keeper.GetClientCounterparty(_, _, field:ClientId(param#2))))")})
	}
	// Route(k#0, ctx#1, clientID#2)
	if rr := c.Run(which, "core/02-client/keeper.Keeper.Route"); rr != nil {
		c.CheckRets(which, "C46/route", rr, NilErr(e), 1, nil,
			Req{Name: "client-type-allowed", Any: all(
				"T(call:core/02-client/types.Params.IsAllowedClient(call:core/02-client/keeper.Keeper.GetParams(param#0, param#1), extract:0(call:core/02-client/types.ParseClientIdentifier(param#2))))")})
	}
	c.CallerTable(which, "C46/route-lookup", []CallerRule{
		{Callee: "core/02-client/types.Router.GetRoute", Allowed: []string{"core/02-client/keeper.Keeper.Route"}, Min: 1},
	})
}
