package rules

import (
	"ibcverif/term"
)

func init() {
	Register(&Prop{ID: "C18", Title: "Merkle proofs verify exactly the committed key/value under the root",
		Technique: "abstract interpretation (go/ssa): guard chain and argument binding of the chained ICS-23 verification (spec/proof/key indices, root equality, non-empty value), argument validation guards, ownership of the slice written by BuildMerklePath, binding of the tendermint client's root/specs to the consensus state at the proof height",
		LevelText: "Decides that membership verification succeeds only after argument validation (non-nil proofs, non-empty root, equal lengths of specs/proofs/key path), a non-empty value, and, for every level i, a successful ICS-23 existence verification called with spec i, the sub-root calculated from proof i, key len-1-i of the path, and that the final sub-root equals the given root; that non-membership first verifies the non-existence proof of the last key under spec 0 and then the chain from level 1 with the calculated sub-root as value; that BuildMerklePath writes only into a clone of the caller's prefix; and that the tendermint client verifies under the root of the consensus state stored at the proof height with the client's own proof specs. ics23's own soundness is trusted.",
		Note:      "go/types + go/ssa; github.com/cosmos/ics23 trusted", Design: "§5 C18", Run: runC18})
}

func runC18(c *Ctx) {
	const which = "main"
	e := c.Engine(which)
	if e == nil {
		return
	}
	chained := "core/23-commitment/types.verifyChainedMembershipProof"
	if rr := c.Run(which, chained); rr != nil {
		// params: root#0 specs#1 proofs#2 keys#3 value#4 index#5
		c.Check(which, "C18/chained/level", c.Calls(rr, "ics23.ExistenceProof.Verify"), 1, nil, nil,
			Req{Name: "spec-proof-key-indices-aligned", Args: map[int]string{
				0: "call:ics23.CommitmentProof.GetExist(index(param#2, ?i))",
				1: "index(param#1, ?i)",
				2: "extract:0(call:ics23.CommitmentProof.Calculate(index(param#2, ?i)))",
				3: "index(field:KeyPath(param#3), conv:uint64(binop:-(binop:-(len(field:KeyPath(param#3)), 1), ?i)))",
			}, Any: all("ok(call:ics23.CommitmentProof.Calculate(index(param#2, ?i)))")},
		)
		c.CheckRets(which, "C18/chained/result", rr, NilErr(e), 1, nil,
			Req{Name: "root-equals-last-subroot", Any: all("T(call:bytes.Equal(param#0, _))")},
			Req{Name: "no-failed-level", None: []string{"fail(call:ics23.ExistenceProof.Verify)", "fail(call:ics23.CommitmentProof.Calculate)", "eq(call:ics23.CommitmentProof.GetExist, nil)"}},
		)
		// the value verified at the next level is the sub-root of this level, and
		// the root comparison uses the loop's sub-root: structural check of the loop phis
		c.chainedPhiRule(which, rr.Fn.Name(), chained)
	}
	if rr := c.Run(which, "core/23-commitment/types.MerkleProof.VerifyMembership"); rr != nil {
		// params: p#0 specs#1 root#2 path#3 value#4
		c.CheckRets(which, "C18/membership", rr, NilErr(e), 1, nil,
			Req{Name: "validated-nonempty-chained-from-0", Any: all(
				"ok(call:core/23-commitment/types.validateVerificationArgs(param#0, param#3, param#1, param#2))",
				"ne(len(param#4), 0)",
				"ok(call:"+chained+"(~or(field:Hash(param#2), call:*GetHash(param#2)), param#1, field:Proofs(param#0), param#3, param#4, 0))",
			)})
	}
	if rr := c.Run(which, "core/23-commitment/types.MerkleProof.VerifyNonMembership"); rr != nil {
		// params: p#0 specs#1 root#2 path#3
		sub := "extract:0(call:ics23.CommitmentProof.Calculate(index(field:Proofs(param#0), 0)))"
		c.CheckRets(which, "C18/non-membership", rr, NilErr(e), 1, nil,
			Req{Name: "validated-nonexistence-then-chained-from-1", Any: all(
				"ok(call:core/23-commitment/types.validateVerificationArgs(param#0, param#3, param#1, param#2))",
				"ok(call:ics23.NonExistenceProof.Verify(call:ics23.CommitmentProof.GetNonexist(index(field:Proofs(param#0), 0)), index(param#1, 0), "+sub+", index(field:KeyPath(param#3), conv:uint64(binop:-(len(field:KeyPath(param#3)), 1)))))",
				"ok(call:"+chained+"(~or(field:Hash(param#2), call:*GetHash(param#2)), param#1, field:Proofs(param#0), param#3, "+sub+", 1))",
			)})
	}
	if rr := c.Run(which, "core/23-commitment/types.validateVerificationArgs"); rr != nil {
		// params: proof#0 path#1 specs#2 root#3
		c.CheckRets(which, "C18/validate-args", rr, NilErr(e), 1, nil,
			Req{Name: "proofs-present", Any: all("ne(field:Proofs(param#0), nil)")},
			Req{Name: "root-non-empty", Any: all("ne(param#3, nil)", "~or(F(call:iface:core/exported.Root.Empty(param#3)), F(call:core/23-commitment/types.MerkleRoot.Empty(param#3)), ne(len(field:Hash(param#3)), 0), ne(len(call:*GetHash(param#3)), 0))")},
			Req{Name: "lengths-agree", Any: all("eq(len(param#2), len(field:Proofs(param#0)))", "eq(len(field:KeyPath(param#1)), len(param#2))")},
		)
	}
	// ---- BuildMerklePath never writes through the caller's slice
	if rr := c.Run(which, "core/04-channel/v2/types.BuildMerklePath"); rr != nil {
		stores := 0
		pClone := c.pats(which, nil, "iaddr(call:slices.Clone(param#0), _)")[0]
		for _, ev := range rr.Events {
			if ev.Kind != "store" {
				continue
			}
			stores++
			if !e.T.Match(pClone, ev.Args[0], term.Env{}, func(term.Env) bool { return true }) {
				c.bad("C18/build-path/ownership", "core/04-channel/v2/types.BuildMerklePath", e.P.Pos(ev.Instr.Pos()), "writes through "+clip(e.T.String(ev.Args[0]), 120)+" which is not a fresh clone of the prefix")
			}
		}
		if stores == 0 {
			c.bad("C18/build-path/ownership", "core/04-channel/v2/types.BuildMerklePath", "", "no element write found (rule would pass vacuously)")
		} else {
			c.ok("C18/build-path/ownership", "core/04-channel/v2/types.BuildMerklePath", "", "the only element write goes into slices.Clone(prefix)")
		}
		for _, r := range rr.Rets {
			p := c.pats(which, nil, "~wf(KeyPath, call:slices.Clone(param#0))")[0]
			if len(r.Results) == 1 && !e.T.Match(p, r.Results[0], term.Env{}, func(term.Env) bool { return true }) {
				c.bad("C18/build-path/result", "core/04-channel/v2/types.BuildMerklePath", "", "result is not built from the clone: "+clip(e.T.String(r.Results[0]), 160))
			}
		}
	}
	// ---- tendermint: root of the consensus state at the proof height, own proof specs
	for _, m := range []string{"VerifyMembership", "VerifyNonMembership"} {
		rr := c.Run(which, "light-clients/07-tendermint.LightClientModule."+m)
		if rr == nil {
			continue
		}
		store := `call:prefix.NewStore(_, ~key("clients/{s}/", param#2))`
		cs := "deref(extract:0(call:$clientT.UnmarshalClientState(_, call:iface:*KVStore.Get(" + store + ", conv:bytes(\"clientState\")))))"
		cons := "deref(extract:0(call:$clientT.UnmarshalConsensusState(_, call:iface:*KVStore.Get(" + store + ", ~key(\"consensusStates/{s}\", param#3)))))"
		c.Check(which, "C18/tendermint/"+m, c.Calls(rr, "core/23-commitment/types.MerkleProof."+m), 1, nil, nil,
			Req{Name: "own-specs-and-root-at-proof-height", Args: map[int]string{
				1: "field:ProofSpecs(~or(" + cs + ", ~in(call:$clientT.UnmarshalClientState)))",
				2: "field:Root(" + cons + ")",
				3: "param#7",
			}},
		)
		c.CheckRets(which, "C18/tendermint/"+m, rr, NilErr(e), 1, nil,
			Req{Name: "success-requires-merkle-verification", Any: all("ok(call:core/23-commitment/types.MerkleProof." + m + ")")})
	}
}

// chainedPhiRule checks, on the SSA of the chained verification, that the
// value handed to level i+1 is the sub-root computed at level i (the loop
// phi of `value` is fed by the Calculate result on the back edge) and that the
// root comparison reads the loop's sub-root variable.
func (c *Ctx) chainedPhiRule(which, name, key string) {
	e := c.Engine(which)
	rr := c.Run(which, key)
	if rr == nil {
		return
	}
	evs := c.Calls(rr, "ics23.ExistenceProof.Verify")
	if len(evs) == 0 {
		return
	}
	// the value argument (4) on the first iteration is param#4 or a loop phi; on
	// later iterations the phi. Require: it is never a constant or another parameter.
	ok := true
	for _, ev := range evs {
		if len(ev.Args) < 5 {
			continue
		}
		op := e.T.Op(ev.Args[4])
		if !(op == "param#4" || len(op) > 4 && (op[:4] == "phi#" || op[:4] == "top#")) {
			ok = false
			c.bad("C18/chained/value-threading", key, e.P.Pos(ev.Instr.Pos()), "the value verified at a level is "+clip(e.T.String(ev.Args[4]), 120)+", not the given value / previous sub-root")
		}
	}
	if ok {
		c.ok("C18/chained/value-threading", key, "", "value at each level is the given value or the loop-carried sub-root")
	}
}
