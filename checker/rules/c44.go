package rules

import (
	"fmt"
	"go/constant"
	"go/types"
	"sort"
	"strings"

	"golang.org/x/tools/go/ssa"

	"ibcverif/interp"
	"ibcverif/load"
	"ibcverif/term"
)

func init() {
	Register(&Prop{ID: "C44", Title: "Genesis export/import preserves all protocol-observable IBC state",
		Technique: "byte-layout extraction of every KV write and read key in the main module (go/ssa interpretation), call-graph reachability from every InitGenesis and ExportGenesis function: every key family that the protocol code writes must be written by something InitGenesis reaches and read by something ExportGenesis reaches; field-to-setter maps of the channel genesis imports; frozen list of families that are not genesis state, each with its reason",
		LevelText: "Decides, for every family of store keys (layout with identifiers abstracted) that any production function of the main module writes outside genesis, that some function reachable from an InitGenesis writes that family and some function reachable from an ExportGenesis reads it (exact key or iteration prefix) — the structural necessary condition for export→import to reproduce it — except families in the reasoned exemption list; and that the v1 and v2 channel genesis imports hand each genesis field to the matching setter. Reports families that are written by the protocol but never exported or never imported. Does not decide that export enumerates every instance of a family (e.g. ids without a client state), that values round-trip byte for byte, nor state kept by collections-based keepers (GMP) and by the wasm VM.",
		Note:      "go/types + go/ssa", Design: "§5 C44", Run: runC44})
}

type storeAccess struct {
	Fn     string
	Op     string // set, delete, get, has, iter
	Segs   []term.Seg
	Layout string
	Where  string
	// string constants of the accessing function (filters applied to iterated keys)
	Mentions []string
}

// c44Exempt: families written by protocol code that are deliberately not genesis state.
var c44Exempt = map[string]string{
	"\x02{H}": "legacy denomination-trace entries: written only by a helper kept for the v9->v10 migration tests; current code stores denominations under 0x03",
}

func isKVReadMethod(c *ssa.CallCommon) (string, bool) {
	var name string
	var recv types.Type
	if c.IsInvoke() {
		name = c.Method.Name()
		recv = c.Value.Type()
	} else if f := c.StaticCallee(); f != nil && f.Signature.Recv() != nil {
		name = f.Name()
		recv = f.Signature.Recv().Type()
	} else {
		return "", false
	}
	op := ""
	switch name {
	case "Get":
		op = "get"
	case "Has":
		op = "has"
	case "Iterator", "ReverseIterator":
		op = "iter"
	default:
		return "", false
	}
	ms := types.NewMethodSet(recv)
	need := map[string]bool{"Get": false, "Set": false, "Has": false, "Delete": false}
	for i := 0; i < ms.Len(); i++ {
		if _, ok := need[ms.At(i).Obj().Name()]; ok {
			need[ms.At(i).Obj().Name()] = true
		}
	}
	for _, v := range need {
		if !v {
			return "", false
		}
	}
	sig := c.Signature()
	if sig.Params().Len() < 1 {
		return "", false
	}
	if s, ok := sig.Params().At(0).Type().Underlying().(*types.Slice); !ok || !isByte(s.Elem()) {
		return "", false
	}
	return op, true
}

// storeReads extracts the key layouts of every KV read (Get/Has/Iterator and the SDK prefix-iterator helpers).
func (c *Ctx) storeReads(which string) []storeAccess {
	e := c.Engine(which)
	P := e.P
	holders := map[*ssa.Function]bool{}
	isIterHelper := func(cm *ssa.CallCommon) bool {
		q := calleeQName(cm.StaticCallee())
		return strings.HasSuffix(q, ".KVStorePrefixIterator") || strings.HasSuffix(q, ".KVStoreReversePrefixIterator") || strings.HasSuffix(q, ".KVStorePrefixIteratorPaginated")
	}
	var scan func(fn *ssa.Function)
	scan = func(fn *ssa.Function) {
		for _, b := range fn.Blocks {
			for _, ins := range b.Instrs {
				if ci, ok := ins.(ssa.CallInstruction); ok {
					if _, ok := isKVReadMethod(ci.Common()); ok || isIterHelper(ci.Common()) {
						holders[topFn(fn)] = true
					}
				}
			}
		}
		for _, an := range fn.AnonFuncs {
			scan(an)
		}
	}
	for _, fn := range P.Funcs {
		if f := P.Fset.Position(fn.Pos()).Filename; load.IsGenerated(f) {
			continue
		}
		scan(fn)
	}
	var hk []string
	byKey := map[string]*ssa.Function{}
	for fn := range holders {
		hk = append(hk, load.FuncKey(fn))
		byKey[load.FuncKey(fn)] = fn
	}
	sort.Strings(hk)
	var out []storeAccess
	for _, k := range hk {
		fn := byKey[k]
		rr := c.Run(which, k)
		if rr == nil {
			continue
		}
		out = append(out, c.readsIn(which, rr, k, fn, isIterHelper)...)
	}
	return out
}

// readsIn extracts the read accesses among the events of a run; with only != nil the events of inlined callees
// are skipped (per-function view), otherwise all frames count (view from an entry point, arguments resolved).
func (c *Ctx) readsIn(which string, rr *interp.RunResult, key string, only *ssa.Function, isIterHelper func(*ssa.CallCommon) bool) []storeAccess {
	e := c.Engine(which)
	var out []storeAccess
	seen := map[string]bool{}
	for _, ev := range rr.Events {
		if ev.Kind != "call" || (only != nil && topFn(ev.Fn) != only) {
			continue
		}
		ci, ok := ev.Instr.(ssa.CallInstruction)
		if !ok {
			continue
		}
		op, isRead := isKVReadMethod(ci.Common())
		helper := isIterHelper(ci.Common())
		if !isRead && !helper {
			continue
		}
		var store, k term.ID
		switch {
		case helper && len(ev.Args) >= 2:
			op, store, k = "iter", ev.Args[0], ev.Args[1]
		case isRead && len(ev.Args) >= 2:
			store, k = ev.Args[0], ev.Args[1]
		default:
			continue
		}
		segs := e.T.Layout(k)
		if st := e.T.Get(store); st.Op == "call:prefix.NewStore" && len(st.Args) == 2 {
			segs = append(append([]term.Seg(nil), e.T.Layout(st.Args[1])...), segs...)
		}
		lay := e.T.LayoutString(segs)
		fnKey := load.FuncKey(topFn(ev.Fn))
		id := op + "|" + lay + "|" + fnKey
		if seen[id] {
			continue
		}
		seen[id] = true
		out = append(out, storeAccess{Fn: fnKey, Op: op, Segs: segs, Layout: lay, Where: e.P.Pos(ev.Instr.Pos()), Mentions: stringConsts(topFn(ev.Fn))})
	}
	return out
}

// stringConsts: the string constants (length >= 3) used in a function and its closures: a reader that iterates
// a shared root and filters keys names the families it keeps by such a constant.
func stringConsts(fn *ssa.Function) []string {
	set := map[string]bool{}
	var walk func(f *ssa.Function)
	walk = func(f *ssa.Function) {
		for _, b := range f.Blocks {
			for _, ins := range b.Instrs {
				for _, op := range ins.Operands(nil) {
					if op == nil || *op == nil {
						continue
					}
					if k, ok := (*op).(*ssa.Const); ok && k.Value != nil && k.Value.Kind() == constant.String {
						if sv := constant.StringVal(k.Value); len(sv) >= 3 {
							set[sv] = true
						}
					}
				}
			}
		}
		for _, an := range f.AnonFuncs {
			walk(an)
		}
	}
	walk(fn)
	var out []string
	for k := range set {
		out = append(out, k)
	}
	sort.Strings(out)
	return out
}

// StoreReadsDump lists the read sites (for inspection).
func (c *Ctx) StoreReadsDump(which string) []string {
	var out []string
	for _, r := range c.storeReads(which) {
		out = append(out, fmt.Sprintf("%-5s %-60q %-70s %s", r.Op, familyOf(r.Segs), r.Fn, r.Where))
	}
	return out
}

// reachableFrom: functions of ibc-go reachable from the roots through static calls, closures and ibc-go
// implementers of ibc-go interfaces.
func reachableFrom(p *load.Program, roots []*ssa.Function) map[*ssa.Function]bool {
	reach := map[*ssa.Function]bool{}
	var work []*ssa.Function
	add := func(g *ssa.Function) {
		if g == nil || g.Blocks == nil || reach[g] {
			return
		}
		reach[g] = true
		work = append(work, g)
	}
	for _, r := range roots {
		add(r)
	}
	for len(work) > 0 {
		fn := work[len(work)-1]
		work = work[:len(work)-1]
		for _, an := range fn.AnonFuncs {
			add(an)
		}
		for _, b := range fn.Blocks {
			for _, ins := range b.Instrs {
				// function values passed around (callbacks of Iterate* helpers)
				for _, op := range ins.Operands(nil) {
					if op == nil || *op == nil {
						continue
					}
					switch v := (*op).(type) {
					case *ssa.Function:
						add(v)
					case *ssa.MakeClosure:
						if f, ok := v.Fn.(*ssa.Function); ok {
							add(f)
						}
					}
				}
				ci, ok := ins.(ssa.CallInstruction)
				if !ok {
					continue
				}
				cm := ci.Common()
				if g := cm.StaticCallee(); g != nil {
					add(g)
					continue
				}
				if cm.IsInvoke() && cm.Method.Pkg() != nil && strings.HasPrefix(cm.Method.Pkg().Path(), "github.com/cosmos/ibc-go/") {
					if it, ok := cm.Value.Type().Underlying().(*types.Interface); ok {
						for _, impl := range p.Implementers(it) {
							if sel := p.SSA.MethodSets.MethodSet(impl).Lookup(cm.Method.Pkg(), cm.Method.Name()); sel != nil {
								add(p.SSA.MethodValue(sel))
							}
						}
					}
				}
			}
		}
	}
	return reach
}

// family: the layout with variable parts abstracted, truncated after the last literal (what identifies a key family).
func familyOf(segs []term.Seg) string {
	var sb strings.Builder
	for _, s := range segs {
		switch s.Kind {
		case 'L':
			sb.WriteString(s.Lit)
		case 'D':
			sb.WriteString("{d}")
		case '8':
			sb.WriteString("{8}")
		case 'H':
			sb.WriteString("{H}")
		default:
			sb.WriteString("{s}")
		}
	}
	return sb.String()
}

// readCovers: a read with this layout (exact key or iteration prefix) observes keys of the written family.
func readCovers(read, write []term.Seg, mentions []string) bool {
	// compare as strings over an alphabet where variables are wildcards; the read must be a prefix pattern of the write
	r, w := familyOf(read), familyOf(write)
	// the read must name the literal that tells this family from its siblings (a broad iteration over a
	// shared root such as "clients/" that filters by suffix only observes the families it filters for)
	if d := discriminator(w); d != "" && !strings.Contains(r, d) {
		named := false
		for _, m := range mentions {
			if m == d || strings.Trim(m, "/") == d {
				named = true
			}
		}
		if !named {
			return false
		}
	}
	i, j := 0, 0
	for i < len(r) && j < len(w) {
		if strings.HasPrefix(r[i:], "{") && strings.HasPrefix(w[j:], "{") {
			i += 3
			j += 3
			continue
		}
		if strings.HasPrefix(r[i:], "{") {
			// a variable in the read can stand for literal text of the write up to the next literal of the read: accept
			return true
		}
		if strings.HasPrefix(w[j:], "{") {
			return false
		}
		if r[i] != w[j] {
			return false
		}
		i++
		j++
	}
	return i >= len(r)
}

// discriminator: the literal text that distinguishes a family from others under the same root.
func discriminator(fam string) string {
	var chunks []string
	cur := ""
	for i := 0; i < len(fam); {
		if fam[i] == '{' && i+2 < len(fam) && fam[i+2] == '}' {
			chunks = append(chunks, cur)
			cur = ""
			i += 3
			continue
		}
		cur += string(fam[i])
		i++
	}
	chunks = append(chunks, cur)
	var lits []string
	for _, ch := range chunks {
		if t := strings.Trim(ch, "/"); t != "" {
			lits = append(lits, t)
		}
	}
	if len(lits) == 0 {
		return ""
	}
	first := lits[0]
	if i := strings.Index(first, "/"); i > 0 {
		first = first[:i]
	}
	shared := map[string]bool{"clients": true, "consensusStates": true}
	if chunks[0] == "" || shared[first] {
		// leading variable or shared root: the most specific (last) literal
		last := lits[len(lits)-1]
		if i := strings.LastIndex(last, "/"); i >= 0 && i+1 < len(last) {
			last = last[i+1:]
		}
		return last
	}
	return first
}

func runC44(c *Ctx) {
	const which = "main"
	e := c.Engine(which)
	if e == nil {
		return
	}
	p := e.P
	var inits, exports []*ssa.Function
	for key, fn := range p.Funcs {
		if f := p.Fset.Position(fn.Pos()).Filename; load.IsGenerated(f) || strings.Contains(f, "/module.go") {
			continue
		}
		switch {
		case strings.HasSuffix(key, ".InitGenesis") || strings.HasSuffix(key, "InitGenesis") && fn.Signature.Recv() == nil:
			inits = append(inits, fn)
		case strings.HasSuffix(key, ".ExportGenesis") || strings.HasSuffix(key, "ExportGenesis") && fn.Signature.Recv() == nil:
			exports = append(exports, fn)
		}
	}
	if len(inits) < 9 || len(exports) < 9 {
		c.bad("C44/genesis-functions", "InitGenesis/ExportGenesis", "", fmt.Sprintf("found %d InitGenesis and %d ExportGenesis functions (expected at least 9 each)", len(inits), len(exports)))
	}
	fromInit := reachableFrom(p, inits)
	fromExport := reachableFrom(p, exports)
	inReach := func(m map[*ssa.Function]bool, key string) bool {
		fn := p.Funcs[key]
		return fn != nil && m[fn]
	}
	writes := c.StoreOps(which)
	reads := c.storeReads(which)
	c.Stats["store_read_sites"] = len(reads)
	type fam struct {
		segs      []term.Seg
		writers   map[string]bool
		imported  bool
		exported  bool
		protoUse  bool // written by something not reachable only from genesis / migrations
		where     string
	}
	fams := map[string]*fam{}
	var order []string
	for _, w := range writes {
		if w.Op != "set" {
			continue
		}
		segs := append(append([]term.Seg(nil), w.Prefix...), w.Segs...)
		if strings.HasPrefix(w.Fn, "light-clients/") && !strings.HasPrefix(familyOf(segs), "clients/") {
			// written through the client store handed to the light client: lives under clients/<id>/
			segs = append([]term.Seg{{Kind: 'L', Lit: "clients/"}, {Kind: 'S'}, {Kind: 'L', Lit: "/"}}, segs...)
		}
		f := familyOf(segs)
		if sites, ok := c.CallersOf(which, w.Fn); ok && len(sites) == 0 && !strings.HasSuffix(w.Fn, "Genesis") {
			continue // a setter nobody calls
		}
		if _, ok := fams[f]; !ok {
			fams[f] = &fam{segs: segs, writers: map[string]bool{}, where: w.Where}
			order = append(order, f)
		}
		fm := fams[f]
		fm.writers[w.Fn] = true
		if inReach(fromInit, w.Fn) {
			fm.imported = true
		}
		if !strings.Contains(w.Fn, "migrations") && !strings.Contains(w.Fn, "Migrator") && !strings.HasSuffix(w.Fn, "InitGenesis") {
			fm.protoUse = true
		}
	}
	// light-client functions write through the client store they are handed (no "clients/<id>/" prefix in
	// their layouts); 02-client's genesis imports such entries generically (key bytes taken from the genesis
	// metadata) under clients/<id>/
	genericClientImport := false
	for _, w := range writes {
		if w.Op == "set" && inReach(fromInit, w.Fn) && familyOf(append(append([]term.Seg(nil), w.Prefix...), w.Segs...)) == "clients/{s}/{s}" {
			genericClientImport = true
		}
	}
	// 02-client exports every key under clients/<id>/ other than the client and consensus states as opaque
	// metadata (iterateMetadata) and imports it back key by key (SetAllClientMetadata) — for the ids that have a client state
	genericClientExport := false
	for _, r := range reads {
		if inReach(fromExport, r.Fn) && strings.HasSuffix(r.Fn, ".iterateMetadata") && familyOf(r.Segs) == "clients" {
			genericClientExport = true
		}
	}
	genericPFMImport := false
	for _, w := range writes {
		if w.Op == "set" && inReach(fromInit, w.Fn) && strings.HasPrefix(w.Fn, "apps/packet-forward-middleware/") && familyOf(w.Segs) == "{s}" {
			genericPFMImport = true
		}
	}
	for _, f := range order {
		fm := fams[f]
		if strings.HasPrefix(f, "clients/{s}/") {
			if genericClientImport {
				fm.imported = true
			}
			if genericClientExport && f != "clients/{s}/clientState" && !strings.HasPrefix(f, "clients/{s}/consensusStates/{s}") {
				fm.exported = true
			}
			if genericClientExport && strings.HasPrefix(f, "clients/{s}/consensusStates/{s}/") {
				fm.exported = true // consensus-state metadata (five path elements) is not skipped by the filter
			}
		}
		for w := range fm.writers {
			if strings.HasPrefix(w, "apps/packet-forward-middleware/") && genericPFMImport {
				fm.imported = true
			}
		}
	}
	// the view from each ExportGenesis itself: prefixes passed down as arguments are resolved by inlining
	helper := func(cm *ssa.CallCommon) bool {
		q := calleeQName(cm.StaticCallee())
		return strings.HasSuffix(q, ".KVStorePrefixIterator") || strings.HasSuffix(q, ".KVStoreReversePrefixIterator")
	}
	for _, ex := range exports {
		if rr := c.Run(which, load.FuncKey(ex)); rr != nil {
			reads = append(reads, c.readsIn(which, rr, load.FuncKey(ex), nil, helper)...)
		}
	}
	for _, r := range reads {
		if !inReach(fromExport, r.Fn) {
			continue
		}
		for _, f := range order {
			if readCovers(r.Segs, fams[f].segs, r.Mentions) {
				fams[f].exported = true
			}
		}
	}
	sort.Strings(order)
	nFam := 0
	for _, f := range order {
		fm := fams[f]
		if !fm.protoUse {
			continue
		}
		nFam++
		var ws []string
		for w := range fm.writers {
			ws = append(ws, w)
		}
		sort.Strings(ws)
		construct := "key family " + f
		if why, ok := c44Exempt[f]; ok {
			c.ok("C44/family", construct, fm.where, "exempt: "+why)
			continue
		}
		switch {
		case fm.imported && fm.exported:
			c.ok("C44/family", construct, fm.where, "written by InitGenesis and read by ExportGenesis (writers: "+clip(strings.Join(ws, ", "), 160)+")")
		case !fm.imported && !fm.exported:
			c.bad("C44/family", construct, fm.where, "written by "+clip(strings.Join(ws, ", "), 200)+" but neither read by any ExportGenesis nor written by any InitGenesis: lost on export/import")
		case !fm.imported:
			c.bad("C44/family", construct, fm.where, "written by "+clip(strings.Join(ws, ", "), 200)+" and exported, but no InitGenesis writes it")
		default:
			c.bad("C44/family", construct, fm.where, "written by "+clip(strings.Join(ws, ", "), 200)+" and imported, but no ExportGenesis reads it")
		}
	}
	if nFam < 25 {
		c.bad("C44/families", "store key families", "", fmt.Sprintf("only %d key families found (expected at least 25)", nFam))
	}
	// field-to-setter maps of the channel genesis imports
	c.GenesisImportMap(which, "C44/channel-import", "core/04-channel.InitGenesis", "param#2", channelGenesisFields)
	c.GenesisImportMap(which, "C44/channel-v2-import", "core/04-channel/v2.InitGenesis", "param#2", channelV2GenesisFields)
}
