package rules

import (
	"fmt"
	"os"
	"path/filepath"
	"regexp"
	"sort"
	"strings"

	"ibcverif/term"
)

func init() {
	Register(&Prop{ID: "C49", Title: "Tokens move out of an account only with that account's authorization",
		Technique: "signer-annotation table read from the protobuf sources; abstract interpretation (go/ssa) of the debit paths (the debited account is the annotated signer field; the v2 send handler hands the message signer to every application callback; the ICS-20 v2 callback requires payload sender == signer) and of the credit paths (bank effect tables: credits go to the packet's receiver, refunds to the packet's sender; the relayer argument reaches no bank call)",
		LevelText: "Decides that MsgTransfer is signed by its sender field and that the account debited by the v1 path is that field's address; that on the v2 path the transfer module builds MsgSendPacket with the signer set to the packet data's sender, the v2 send handler passes the address of the message signer to every OnSendPacket callback, and ICS-20's callback returns without error only if the payload's sender equals that signer and debits exactly that signer; that on receive the only credited account is the packet's receiver and on refund the packet's sender (bank effect tables shared with C30/C32); and that the relayer argument of the v1 and v2 callbacks never occurs in an argument of a bank call. Transfer authorizations are C36 (its rules are re-run by this check: a grant that can be exceeded moves tokens without authorization); interchain accounts and GMP are C37–C39; forwarding is C43.",
		Note:      "proto sources + go/types + go/ssa", Design: "§5 C49", Run: runC49, Deps: []string{"C36"}})
}

var (
	protoMsgRE    = regexp.MustCompile(`^\s*message\s+(\w+)\s*\{`)
	protoSignerRE = regexp.MustCompile(`option\s*\(\s*cosmos\.msg\.v1\.signer\s*\)\s*=\s*"(\w+)"`)
	protoPkgRE    = regexp.MustCompile(`^\s*package\s+([\w.]+)\s*;`)
)

// protoSigners reads the cosmos.msg.v1.signer annotation of every message in the repository's proto files:
// "<proto package>.<Message>" -> field name.
func (c *Ctx) protoSigners() map[string]string {
	out := map[string]string{}
	root := filepath.Join(c.RepoDir, "proto")
	_ = filepath.Walk(root, func(p string, info os.FileInfo, err error) error {
		if err != nil || info.IsDir() || !strings.HasSuffix(p, ".proto") {
			return nil
		}
		bz, err := os.ReadFile(p)
		if err != nil {
			return nil
		}
		pkg, cur, depth := "", "", 0
		for _, line := range strings.Split(string(bz), "\n") {
			if i := strings.Index(line, "//"); i >= 0 {
				line = line[:i]
			}
			if m := protoPkgRE.FindStringSubmatch(line); m != nil {
				pkg = m[1]
			}
			if m := protoMsgRE.FindStringSubmatch(line); m != nil && depth == 0 {
				cur = m[1]
			}
			if m := protoSignerRE.FindStringSubmatch(line); m != nil && cur != "" && depth == 1 {
				out[pkg+"."+cur] = m[1]
			}
			depth += strings.Count(line, "{") - strings.Count(line, "}")
			if depth == 0 {
				cur = ""
			}
		}
		return nil
	})
	return out
}

func runC49(c *Ctx) {
	const which = "main"
	e := ics20Engine(c, which)
	if e == nil {
		return
	}
	// ---- (1) who signs what
	sig := c.protoSigners()
	if len(sig) < 40 {
		c.bad("C49/signers/table", "proto", "", fmt.Sprintf("only %d signer annotations found in the proto sources", len(sig)))
	}
	for msg, want := range map[string]string{
		"ibc.applications.transfer.v1.MsgTransfer":                                      "sender",
		"ibc.core.channel.v2.MsgSendPacket":                                             "signer",
		"ibc.applications.gmp.v1.MsgSendCall":                                           "sender",
		"ibc.applications.interchain_accounts.controller.v1.MsgSendTx":                  "owner",
		"ibc.applications.interchain_accounts.controller.v1.MsgRegisterInterchainAccount": "owner",
	} {
		if got := sig[msg]; got == want {
			c.ok("C49/signers", msg, "", "signed by its "+want+" field")
		} else {
			c.bad("C49/signers", msg, "", fmt.Sprintf("signer annotation is %q, expected %q", got, want))
		}
	}
	// every other annotated message is signed by a field called signer (the field the handler rules of C46 read)
	var odd []string
	for msg, f := range sig {
		if f != "signer" && f != "sender" && f != "owner" {
			odd = append(odd, msg+"="+f)
		}
	}
	sort.Strings(odd)
	if len(odd) > 0 {
		c.bad("C49/signers/other", "proto", "", "unexpected signer fields: "+strings.Join(odd, ", "))
	} else {
		c.ok("C49/signers/other", "proto", "", fmt.Sprintf("%d annotated messages; signer fields are signer/sender/owner only", len(sig)))
	}
	// ---- (2) v1: the debited account is the sender field
	if rr := c.Run(which, xfer+".Transfer"); rr != nil {
		snd := "extract:0(call:iface:*Codec.StringToBytes(field:addressCodec(param#0), field:Sender(param#2)))"
		c.Check(which, "C49/v1/debit", c.Calls(rr, xfer+".transferV1Packet"), 1, nil, nil,
			Req{Name: "debits-the-message-sender", Args: map[int]string{6: snd}})
		c.Check(which, "C49/v2/msg", c.Calls(rr, xfer+".transferV2Packet"), 1, nil, nil,
			Req{Name: "packet-data-sender-is-the-message-sender", Args: map[int]string{5: "~wf(Sender, field:Sender(param#2))"}})
	}
	if rr := c.Run(which, xfer+".transferV1Packet"); rr != nil {
		c.Check(which, "C49/v1/debit", c.Calls(rr, xfer+".SendTransfer"), 1, nil, nil,
			Req{Name: "send-transfer-gets-that-account", Args: map[int]string{5: "param#6"}})
	}
	// ---- (3) v2: MsgSendPacket built by the transfer module is signed by the packet data's sender
	if rr := c.Run(which, xfer+".transferV2Packet"); rr != nil {
		c.Check(which, "C49/v2/msg", c.Calls(rr, "core/04-channel/v2/types.NewMsgSendPacket"), 1, nil, nil,
			Req{Name: "signer-is-the-packet-data-sender", Args: map[int]string{2: "field:Sender(param#5)"}})
	}
	// the v2 send handler hands the signer's address to every application callback
	if rr := c.Run(which, "core/04-channel/v2/keeper.Keeper.SendPacket"); rr != nil {
		c.Check(which, "C49/v2/handler", c.Calls(rr, "iface:core/api.IBCModule.OnSendPacket"), 1, nil, nil,
			Req{Name: "callback-gets-the-message-signer", Args: map[int]string{2: "field:SourceClient(param#2)", 5: "index(field:Payloads(param#2), _)", 6: "extract:0(call:sdk.AccAddressFromBech32(field:Signer(param#2)))"}})
	}
	// ICS-20's callback: sender == signer, and the signer is debited
	c.ics20Callbacks(which, "C49")
	// ---- (4) credits and refunds
	c.ics20SendRecvTables(which, "C49")
	c.ics20RefundTable(which, "C49")
	// ---- (5) the relayer never reaches a bank call
	bankAny := "call:iface:" + xferT + ".BankKeeper.*"
	for _, x := range []struct {
		entry   string
		relayer int
	}{
		{"apps/transfer.IBCModule.OnRecvPacket", 4}, {"apps/transfer.IBCModule.OnAcknowledgementPacket", 5}, {"apps/transfer.IBCModule.OnTimeoutPacket", 4},
		{"apps/transfer/v2.IBCModule.OnRecvPacket", 6}, {"apps/transfer/v2.IBCModule.OnAcknowledgementPacket", 7}, {"apps/transfer/v2.IBCModule.OnTimeoutPacket", 6},
	} {
		rr := c.Run(which, x.entry)
		if rr == nil {
			continue
		}
		if x.relayer >= len(rr.Fn.Params) || !strings.Contains(strings.ToLower(rr.Fn.Params[x.relayer].Name()), "relayer") {
			c.undecided("C49/relayer", x.entry, "", fmt.Sprintf("parameter %d is not the relayer (signature changed)", x.relayer))
			continue
		}
		rel := c.pats(which, nil, fmt.Sprintf("~in(param#%d)", x.relayer))[0]
		n, bad := 0, false
		for _, ev := range rr.Events {
			if ev.Kind != "call" || !globMatch(strings.TrimPrefix(bankAny, "call:"), ev.Key) {
				continue
			}
			n++
			for _, a := range ev.Args {
				if e.T.Match(rel, a, term.Env{}, func(term.Env) bool { return true }) {
					bad = true
					c.bad("C49/relayer", x.entry, e.P.Pos(ev.Instr.Pos()), "the relayer address reaches "+ev.Key+": "+clip(e.T.String(a), 120))
				}
			}
		}
		if !bad {
			c.ok("C49/relayer", x.entry, "", fmt.Sprintf("%d bank calls reachable, none takes the relayer argument", n))
		}
	}
}
