package rules

import (
	"fmt"
	"strings"

	"ibcverif/term"
)

// GenField maps one repeated field of a genesis state to the keeper setter
// that must import it.
type GenField struct {
	Field  string // e.g. AckSequences
	Setter string // callee key of the setter
}

// GenesisImportMap checks, inside an InitGenesis function, that every call
// of a listed setter takes its data arguments from the matching genesis field
// (and from no other), and that every listed field reaches its setter. gs is
// the term of the genesis state (e.g. param#2).
func (c *Ctx) GenesisImportMap(which, rule, entry, gs string, fields []GenField) {
	e := c.Engine(which)
	rr := c.Run(which, entry)
	if e == nil || rr == nil {
		return
	}
	bySetter := map[string][]string{}
	for _, f := range fields {
		bySetter[f.Setter] = append(bySetter[f.Setter], f.Field)
	}
	allFields := map[string]bool{}
	for _, f := range fields {
		allFields[f.Field] = true
	}
	reached := map[string]bool{}
	for setter, fs := range bySetter {
		evs := c.Calls(rr, setter)
		for _, s := range c.Sites(evs) {
			ev := s.Events[0]
			// which genesis fields do the arguments mention?
			mentioned := map[string]bool{}
			for _, a := range ev.Args {
				e.T.Contains(a, func(tm *term.Term) bool {
					if strings.HasPrefix(tm.Op, "field:") && allFields[tm.Op[6:]] && len(tm.Args) == 1 && e.T.String(tm.Args[0]) == gs {
						mentioned[tm.Op[6:]] = true
					}
					return false
				})
			}
			ok := len(mentioned) == 1
			for m := range mentioned {
				found := false
				for _, f := range fs {
					if f == m {
						found = true
						reached[m] = true
					}
				}
				if !found {
					ok = false
				}
			}
			where := e.P.Pos(ev.Instr.Pos())
			if ok {
				c.ok(rule, s.Key, where, fmt.Sprintf("imports genesis field %v", keys(mentioned)))
			} else {
				c.bad(rule, s.Key, where, fmt.Sprintf("this setter must be fed from genesis field(s) %v but its arguments come from %v", fs, keys(mentioned)))
			}
		}
	}
	for _, f := range fields {
		if !reached[f.Field] {
			c.bad(rule, entry+" field "+f.Field, "", "genesis field "+f.Field+" is never imported through "+f.Setter)
		}
	}
}

var channelGenesisFields = []GenField{
	{"Channels", "core/04-channel/keeper.Keeper.SetChannel"},
	{"Acknowledgements", "core/04-channel/keeper.Keeper.SetPacketAcknowledgement"},
	{"Commitments", "core/04-channel/keeper.Keeper.SetPacketCommitment"},
	{"Receipts", "core/04-channel/keeper.Keeper.SetPacketReceipt"},
	{"SendSequences", "core/04-channel/keeper.Keeper.SetNextSequenceSend"},
	{"RecvSequences", "core/04-channel/keeper.Keeper.SetNextSequenceRecv"},
	{"AckSequences", "core/04-channel/keeper.Keeper.SetNextSequenceAck"},
	{"NextChannelSequence", "core/04-channel/keeper.Keeper.SetNextChannelSequence"},
}

var channelV2GenesisFields = []GenField{
	{"Acknowledgements", "core/04-channel/v2/keeper.Keeper.SetPacketAcknowledgement"},
	{"Commitments", "core/04-channel/v2/keeper.Keeper.SetPacketCommitment"},
	{"Receipts", "core/04-channel/v2/keeper.Keeper.SetPacketReceipt"},
	{"AsyncPackets", "core/04-channel/v2/keeper.Keeper.SetAsyncPacket"},
	{"SendSequences", "core/04-channel/v2/keeper.Keeper.SetNextSequenceSend"},
}

func keys(m map[string]bool) []string {
	var out []string
	for k := range m {
		out = append(out, k)
	}
	return out
}
