package rules

import (
	"fmt"
	"go/types"
	"sort"
	"strings"

	"golang.org/x/tools/go/ssa"

	"ibcverif/interp"
	"ibcverif/load"
	"ibcverif/term"
)

// ---------------------------------------------------------------- store writers (E4)

// StoreOp is one KV write site found in production code.
type StoreOp struct {
	Fn     string // enclosing top-level function key
	Op     string // set / delete
	Layout string // layout string of the key ({s} if unknown)
	Where  string
	Segs   []term.Seg // key segments
	Prefix []term.Seg // prefix of the prefix store the key is written through, if any
	Store  term.ID
}

func isKVWriteMethod(c *ssa.CallCommon) (string, bool) {
	var name string
	var recv types.Type
	if c.IsInvoke() {
		name = c.Method.Name()
		recv = c.Value.Type()
	} else if f := c.StaticCallee(); f != nil && f.Signature.Recv() != nil {
		name = f.Name()
		recv = f.Signature.Recv().Type()
	} else {
		return "", false
	}
	if name != "Set" && name != "Delete" {
		return "", false
	}
	// the receiver must look like a KV store: has Get, Set, Has, Delete
	ms := types.NewMethodSet(recv)
	need := map[string]bool{"Get": false, "Set": false, "Has": false, "Delete": false}
	for i := 0; i < ms.Len(); i++ {
		if _, ok := need[ms.At(i).Obj().Name()]; ok {
			need[ms.At(i).Obj().Name()] = true
		}
	}
	if p, ok := recv.(*types.Pointer); ok {
		ms2 := types.NewMethodSet(p.Elem())
		for i := 0; i < ms2.Len(); i++ {
			if _, ok := need[ms2.At(i).Obj().Name()]; ok {
				need[ms2.At(i).Obj().Name()] = true
			}
		}
	}
	for _, v := range need {
		if !v {
			return "", false
		}
	}
	// KV stores take []byte keys; collections / maps with Set(ctx, k, v) are handled elsewhere
	sig := c.Signature()
	if sig.Params().Len() < 1 {
		return "", false
	}
	if s, ok := sig.Params().At(0).Type().Underlying().(*types.Slice); !ok || !isByte(s.Elem()) {
		return "", false
	}
	return strings.ToLower(name), true
}

func isByte(t types.Type) bool {
	b, ok := t.Underlying().(*types.Basic)
	return ok && b.Kind() == types.Byte
}

func topFn(fn *ssa.Function) *ssa.Function {
	for fn.Parent() != nil {
		fn = fn.Parent()
	}
	return fn
}

// StoreOps finds every direct KV Set/Delete in production code and computes
// the byte layout of its key by interpreting the enclosing function.
func (c *Ctx) StoreOps(which string) []StoreOp {
	e := c.Engine(which)
	if e == nil {
		return nil
	}
	P := e.P
	holders := map[*ssa.Function]bool{}
	var scan func(fn *ssa.Function)
	scan = func(fn *ssa.Function) {
		for _, b := range fn.Blocks {
			for _, ins := range b.Instrs {
				if ci, ok := ins.(ssa.CallInstruction); ok {
					if _, ok := isKVWriteMethod(ci.Common()); ok {
						holders[topFn(fn)] = true
					}
				}
			}
		}
		for _, an := range fn.AnonFuncs {
			scan(an)
		}
	}
	keys := make([]string, 0, len(P.Funcs))
	for k := range P.Funcs {
		keys = append(keys, k)
	}
	sort.Strings(keys)
	for _, k := range keys {
		fn := P.Funcs[k]
		if f := P.Fset.Position(fn.Pos()).Filename; load.IsGenerated(f) {
			continue
		}
		scan(fn)
	}
	var out []StoreOp
	hk := make([]string, 0, len(holders))
	byKey := map[string]*ssa.Function{}
	for fn := range holders {
		hk = append(hk, load.FuncKey(fn))
		byKey[load.FuncKey(fn)] = fn
	}
	sort.Strings(hk)
	for _, k := range hk {
		fn := byKey[k]
		rr := c.Run(which, k)
		if rr == nil {
			continue
		}
		seen := map[string]bool{}
		for _, ev := range rr.Events {
			if ev.Kind != "call" || topFn(ev.Fn) != fn {
				continue
			}
			ci, ok := ev.Instr.(ssa.CallInstruction)
			if !ok {
				continue
			}
			op, ok := isKVWriteMethod(ci.Common())
			if !ok {
				continue
			}
			// the key is the first non-receiver argument
			ki := 1
			if len(ev.Args) <= ki {
				continue
			}
			segs := e.T.Layout(ev.Args[ki])
			// a prefix store contributes its prefix to the absolute key
			var pre []term.Seg
			if st := e.T.Get(ev.Args[0]); st.Op == "call:prefix.NewStore" && len(st.Args) == 2 {
				pre = e.T.Layout(st.Args[1])
			}
			lay := e.T.LayoutString(segs)
			id := op + "|" + e.T.LayoutString(pre) + lay + "|" + P.Pos(ev.Instr.Pos())
			if seen[id] {
				continue
			}
			seen[id] = true
			out = append(out, StoreOp{Fn: k, Op: op, Layout: lay, Where: P.Pos(ev.Instr.Pos()), Segs: segs, Prefix: pre, Store: ev.Args[0]})
		}
	}
	c.Stats["store_write_sites"] = len(out)
	c.Stats["store_writer_functions"] = len(hk)
	return out
}

type FamilyRule struct {
	Family  string   // literal prefix of the key layout, or an exact layout when it contains '{'
	Ops     string   // set / delete
	Allowed []string // functions that may contain such a write
	Min     int      // minimum number of sites expected (0 for expected-zero rules)
}

func familyMatch(fam, layout string) bool {
	if strings.HasPrefix(fam, "{") {
		return layout == fam
	}
	return strings.HasPrefix(layout, fam)
}

// WriterTable checks who may write each key family.
func (c *Ctx) WriterTable(which, rule string, frs []FamilyRule) {
	ops := c.StoreOps(which)
	if c.Engine(which) == nil {
		return
	}
	if len(ops) < 40 {
		c.bad(rule+"/scan", "store-write-sites", "", fmt.Sprintf("only %d KV write sites found in production code; the scan is broken", len(ops)))
	}
	for _, fr := range frs {
		n := 0
		construct := fr.Ops + "(" + fr.Family + ")"
		okAll := true
		for _, op := range ops {
			if op.Op != fr.Ops || !familyMatch(fr.Family, op.Layout) {
				continue
			}
			n++
			allowed := false
			for _, a := range fr.Allowed {
				if a == op.Fn {
					allowed = true
				}
			}
			if !allowed {
				okAll = false
				c.bad(rule, construct+" in "+op.Fn, op.Where, "this function writes the key family but is not one of its listed writers "+fmt.Sprint(fr.Allowed))
			}
		}
		if n < fr.Min {
			c.bad(rule, construct, "", fmt.Sprintf("expected at least %d write sites of this family, found %d (role resolution failed)", fr.Min, n))
		} else if okAll {
			c.ok(rule, construct, "", fmt.Sprintf("%d site(s), all in listed writers %v", n, fr.Allowed))
		}
	}
}

// ---------------------------------------------------------------- who may call

type CallerRule struct {
	Callee  string
	Allowed []string
	Min     int
}

type callSite struct {
	Caller string
	Where  string
	AsVal  bool
}

// CallersOf finds static call sites and value uses of fn in in-scope code.
func (c *Ctx) CallersOf(which string, key string) ([]callSite, bool) {
	e := c.Engine(which)
	if e == nil {
		return nil, false
	}
	P := e.P
	target := P.Funcs[key]
	if target == nil {
		c.undecided(c.Prop.ID+"/role", key, "", "function named by a who-may-call rule does not exist: "+key)
		return nil, false
	}
	var out []callSite
	var scan func(fn *ssa.Function)
	scan = func(fn *ssa.Function) {
		for _, b := range fn.Blocks {
			for _, ins := range b.Instrs {
				if ci, ok := ins.(ssa.CallInstruction); ok {
					if ci.Common().StaticCallee() == target {
						out = append(out, callSite{Caller: load.FuncKey(topFn(fn)), Where: P.Pos(ins.Pos())})
						continue
					}
				}
				for _, op := range ins.Operands(nil) {
					if *op == nil {
						continue
					}
					if f, ok := (*op).(*ssa.Function); ok && (f == target || boundOf(f) == target) {
						if ci, ok := ins.(ssa.CallInstruction); ok && ci.Common().Value == *op {
							continue
						}
						out = append(out, callSite{Caller: load.FuncKey(topFn(fn)), Where: P.Pos(ins.Pos()), AsVal: true})
					}
				}
			}
		}
		for _, an := range fn.AnonFuncs {
			scan(an)
		}
	}
	keys := make([]string, 0, len(P.Funcs))
	for k := range P.Funcs {
		keys = append(keys, k)
	}
	sort.Strings(keys)
	for _, k := range keys {
		scan(P.Funcs[k])
	}
	// interface dispatch: if target is a method, callers through interfaces
	// are found by name+signature over invoke sites whose receiver interface
	// the target's receiver type implements
	if recv := target.Signature.Recv(); recv != nil {
		for _, k := range keys {
			var scan2 func(fn *ssa.Function)
			scan2 = func(fn *ssa.Function) {
				for _, b := range fn.Blocks {
					for _, ins := range b.Instrs {
						ci, ok := ins.(ssa.CallInstruction)
						if !ok || !ci.Common().IsInvoke() || ci.Common().Method.Name() != target.Name() {
							continue
						}
						it, ok := ci.Common().Value.Type().Underlying().(*types.Interface)
						if !ok {
							continue
						}
						if types.Implements(recv.Type(), it) || types.Implements(types.NewPointer(recv.Type()), it) {
							out = append(out, callSite{Caller: load.FuncKey(topFn(fn)), Where: P.Pos(ins.Pos())})
						}
					}
				}
				for _, an := range fn.AnonFuncs {
					scan2(an)
				}
			}
			scan2(P.Funcs[k])
		}
	}
	return out, true
}

func boundOf(f *ssa.Function) *ssa.Function {
	// $bound and $thunk wrappers call exactly one method
	if f.Synthetic == "" || f.Blocks == nil {
		return nil
	}
	for _, b := range f.Blocks {
		for _, ins := range b.Instrs {
			if ci, ok := ins.(ssa.CallInstruction); ok {
				if sc := ci.Common().StaticCallee(); sc != nil {
					return sc
				}
			}
		}
	}
	return nil
}

// CallerTable checks that a function is called only from its listed callers.
func (c *Ctx) CallerTable(which, rule string, crs []CallerRule) {
	for _, cr := range crs {
		sites, ok := c.CallersOf(which, cr.Callee)
		if !ok {
			continue
		}
		okAll := true
		callers := map[string]bool{}
		for _, s := range sites {
			allowed := false
			for _, a := range cr.Allowed {
				if a == s.Caller {
					allowed = true
					callers[s.Caller] = true
				}
			}
			if !allowed && !s.AsVal {
				// an unexported helper that is itself called only by listed callers (a block of a listed caller
				// extracted into a function) is the listed caller's code
				if roots := c.privateHelperRoots(which, s.Caller, cr.Allowed, 3); len(roots) > 0 {
					allowed = true
					for _, r := range roots {
						callers[r] = true
					}
				}
			}
			if !allowed {
				callers[s.Caller] = true
				okAll = false
				how := "calls"
				if s.AsVal {
					how = "takes the value of"
				}
				c.bad(rule, s.Caller+" → "+cr.Callee, s.Where, "this function "+how+" "+cr.Callee+" but is not one of its listed callers "+fmt.Sprint(cr.Allowed))
			}
		}
		if len(callers) < cr.Min {
			c.bad(rule, "callers of "+cr.Callee, "", fmt.Sprintf("expected at least %d distinct callers, found %d", cr.Min, len(callers)))
		} else if okAll {
			c.ok(rule, "callers of "+cr.Callee, "", fmt.Sprintf("%d call site(s) in %d listed caller(s)", len(sites), len(callers)))
		}
	}
}

// privateHelperRoots: fn (by key) is an unexported function or method, never used as a value, with at least one
// call site, and every one of its callers is a listed caller or again such a helper (bounded depth). Returns the
// listed callers it is reached from, or nil when fn is not such a helper.
func (c *Ctx) privateHelperRoots(which, key string, allowed []string, depth int) []string {
	if depth == 0 {
		return nil
	}
	name := key
	if i := strings.LastIndexAny(name, "./"); i >= 0 {
		name = name[i+1:]
	}
	if name == "" || !(name[0] >= 'a' && name[0] <= 'z') || name == "init" {
		return nil
	}
	e := c.Engine(which)
	if e == nil || e.P.Funcs[key] == nil {
		return nil
	}
	sites, ok := c.CallersOf(which, key)
	if !ok || len(sites) == 0 {
		return nil
	}
	roots := map[string]bool{}
	for _, s := range sites {
		if s.AsVal {
			return nil
		}
		if s.Caller == key {
			continue // recursion
		}
		listed := false
		for _, a := range allowed {
			if a == s.Caller {
				listed = true
			}
		}
		if listed {
			roots[s.Caller] = true
			continue
		}
		sub := c.privateHelperRoots(which, s.Caller, allowed, depth-1)
		if len(sub) == 0 {
			return nil
		}
		for _, r := range sub {
			roots[r] = true
		}
	}
	var out []string
	for r := range roots {
		out = append(out, r)
	}
	sort.Strings(out)
	return out
}

var _ = interp.New
