package rules

import (
	"encoding/json"
	"fmt"
	"os"
	"os/exec"
	"path/filepath"
	"runtime"
	"runtime/debug"
	"sort"
	"strings"
)

// AuditVariants is the thorough tier's extra work: every stored seeded change (a realistic property-breaking
// edit produced independently of the checker, see DESIGN.md §0a) that targets this property is applied to an
// in-memory overlay of /repo's current sources — /repo itself is not touched — and the same rules are run on
// that variant. A variant that is not reported shows a blind spot of the rules; a variant whose patch no longer
// applies is skipped. The outcome is recorded in the evidence; it never changes the verdict on the real tree.
func (c *Ctx) AuditVariants(verifDir string) {
	seeds := seedsFor(verifDir, c.Prop.ID)
	for _, s := range seeds {
		rec := map[string]any{"seed": s}
		overlay, touched, err := overlayFromPatch(c.RepoDir, filepath.Join(verifDir, "seeded", s, "patch.diff"))
		if err != nil {
			rec["status"] = "skipped"
			rec["reason"] = err.Error()
			c.Variants = append(c.Variants, rec)
			continue
		}
		rec["files"] = touched
		c2 := NewCtx(c.Prop, "quick")
		c2.RepoDir = c.RepoDir
		c2.Overlay = overlay
		func() {
			defer func() {
				if r := recover(); r != nil {
					c2.Add(&Obligation{Rule: c.Prop.ID + "/analyser", Construct: "panic", Status: Undecided, Detail: fmt.Sprintf("analyser panic on variant: %v\n%s", r, debug.Stack())})
				}
			}()
			c.Prop.Run(c2)
			c2.RunDeps(verifDir)
		}()
		var hits []string
		for _, o := range c2.unlisted(verifDir) {
			hits = append(hits, o.Rule+" @ "+o.Construct)
		}
		sort.Strings(hits)
		if len(hits) > 0 {
			rec["status"] = "detected"
			if len(hits) > 4 {
				hits = hits[:4]
			}
			rec["reported_as"] = hits
		} else {
			rec["status"] = "NOT detected"
		}
		c.Variants = append(c.Variants, rec)
		c2 = nil
		runtime.GC()
		debug.FreeOSMemory()
	}
}

// RunDeps re-runs, on the same loaded program, the rules of the properties this one rests on (Prop.Deps).
// An obligation of such a property that fails (and is not one of that property's known findings, which its
// own check reports) is a violation of this property too: it is added under "<id>/rests-on/<rule>".
func (c *Ctx) RunDeps(verifDir string) {
	for _, d := range c.Prop.Deps {
		p := Registry[d]
		if p == nil {
			c.Add(&Obligation{Rule: c.Prop.ID + "/rests-on", Construct: d, Status: Undecided, Detail: "unknown property " + d})
			continue
		}
		c2 := NewCtx(p, "quick")
		c2.RepoDir = c.RepoDir
		c2.Overlay = c.Overlay
		c2.progs = c.progs // the loaded, type-checked program is shared; engines are not (options differ)
		func() {
			defer func() {
				if r := recover(); r != nil {
					c2.Add(&Obligation{Rule: d + "/analyser", Construct: "panic", Status: Undecided, Detail: fmt.Sprintf("analyser panic: %v\n%s", r, debug.Stack())})
				}
			}()
			p.Run(c2)
		}()
		bad := c2.unlisted(verifDir)
		for _, o := range bad {
			c.Add(&Obligation{Rule: c.Prop.ID + "/rests-on/" + o.Rule, Construct: o.Construct, Status: o.Status, Where: o.Where, Detail: o.Detail})
		}
		if len(bad) == 0 {
			c.ok(c.Prop.ID+"/rests-on", d, "", fmt.Sprintf("the %d obligations of %s (%s) hold or are findings reported by its own check", len(c2.Obls), d, p.Title))
		}
		c.Stats["entries_interpreted"] += c2.Stats["entries_interpreted"]
		c.Stats["events"] += c2.Stats["events"]
	}
}

// unlisted: refuted or undecided obligations that are not known findings.
func (c *Ctx) unlisted(verifDir string) []*Obligation {
	var kf struct {
		Findings []struct{ Property, Rule, Construct, What string }
	}
	if b, err := os.ReadFile(filepath.Join(verifDir, "known_findings.json")); err == nil {
		_ = json.Unmarshal(b, &kf)
	}
	var out []*Obligation
	for _, o := range c.Obls {
		if o.Status != Refuted && o.Status != Undecided {
			continue
		}
		known := false
		for _, k := range kf.Findings {
			if o.Status == Refuted && k.Property == c.Prop.ID && k.Rule == o.Rule && k.Construct == o.Construct {
				known = true
			}
		}
		if !known {
			out = append(out, o)
		}
	}
	return out
}

// seedsFor: stored seeds named after the property, plus those listed for it in seeded/also.json.
func seedsFor(verifDir, id string) []string {
	var out []string
	ents, _ := os.ReadDir(filepath.Join(verifDir, "seeded"))
	for _, e := range ents {
		if e.IsDir() && strings.HasPrefix(e.Name(), id+"_") {
			out = append(out, e.Name())
		}
	}
	var also map[string][]string
	if b, err := os.ReadFile(filepath.Join(verifDir, "seeded", "also.json")); err == nil && json.Unmarshal(b, &also) == nil {
		out = append(out, also[id]...)
	}
	sort.Strings(out)
	return out
}

// overlayFromPatch applies a stored patch to copies of the files it touches (in a scratch directory that is
// removed again) and returns the patched contents keyed by their path in the repository.
func OverlayFromPatch(repo, patch string) (map[string][]byte, []string, error) {
	return overlayFromPatch(repo, patch)
}

func overlayFromPatch(repo, patch string) (map[string][]byte, []string, error) {
	bz, err := os.ReadFile(patch)
	if err != nil {
		return nil, nil, err
	}
	var files []string
	for _, line := range strings.Split(string(bz), "\n") {
		if strings.HasPrefix(line, "+++ b/") {
			name, _, _ := strings.Cut(strings.TrimPrefix(line, "+++ b/"), "\t") // plain diff -u appends a timestamp
			files = append(files, strings.TrimSpace(name))
		}
	}
	if len(files) == 0 {
		return nil, nil, fmt.Errorf("no files in patch")
	}
	tmp, err := os.MkdirTemp("", "ibcverif-variant-")
	if err != nil {
		return nil, nil, err
	}
	defer os.RemoveAll(tmp)
	for _, f := range files {
		src, err := os.ReadFile(filepath.Join(repo, f))
		if err != nil {
			return nil, nil, fmt.Errorf("file of the patch not in the tree: %s", f)
		}
		dst := filepath.Join(tmp, f)
		if err := os.MkdirAll(filepath.Dir(dst), 0o755); err != nil {
			return nil, nil, err
		}
		if err := os.WriteFile(dst, src, 0o644); err != nil {
			return nil, nil, err
		}
	}
	cmd := exec.Command("patch", "-p1", "-s", "-f", "-i", patch)
	cmd.Dir = tmp
	if out, err := cmd.CombinedOutput(); err != nil {
		return nil, nil, fmt.Errorf("patch does not apply to the current tree: %s", strings.TrimSpace(string(out)))
	}
	overlay := map[string][]byte{}
	for _, f := range files {
		b, err := os.ReadFile(filepath.Join(tmp, f))
		if err != nil {
			return nil, nil, err
		}
		overlay[filepath.Join(repo, f)] = b
	}
	return overlay, files, nil
}
