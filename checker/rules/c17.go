package rules

import (
	"fmt"
	"go/types"

	"golang.org/x/tools/go/ssa"

	"ibcverif/ordeval"
)

func init() {
	Register(&Prop{ID: "C17", Title: "Heights are totally ordered and elapsed timeouts stay elapsed",
		Technique: "finite order-type interpretation: the comparison functions' go/ssa bodies are evaluated by the checker's own interpreter on one representative of every weak ordering of their integer inputs (comparison-only use of inputs is checked, so the enumeration is exhaustive for all 64-bit values); relational obligations are checked over the resulting tables",
		LevelText: "Decides, for all 64-bit values, that Height.Compare is reflexive-zero, antisymmetric, transitive and lexicographic on (revision number, revision height), that LT/LTE/GT/GTE/EQ agree with it, that Timeout.Elapsed is monotone in (height, timestamp), that a zero timeout height and zero timestamp never elapse, and that a timeout with both components set elapses iff one of them is reached. Does not decide the String/ParseHeight round trip (a property over strings).",
		Note:      "go/ssa semantics as implemented by the checker's evaluator; math/big.Int SetUint64/Cmp modelled", Design: "§5 C17", Run: runC17})
}

func runC17(c *Ctx) {
	const which = "main"
	e := c.Engine(which)
	if e == nil {
		return
	}
	P := e.P
	get := func(k string) *ssa.Function {
		fn := P.Funcs[k]
		if fn == nil {
			c.undecided("C17/role", k, "", "function not found")
		}
		return fn
	}
	cmp := get("core/02-client/types.Height.Compare")
	elapsed := get("core/04-channel/types.Timeout.Elapsed")
	isZero := get("core/02-client/types.Height.IsZero")
	if cmp == nil || elapsed == nil || isZero == nil {
		return
	}
	hT := cmp.Signature.Recv().Type()
	tT := elapsed.Signature.Recv().Type()
	ev := &ordeval.Evaluator{InScope: func(fn *ssa.Function) bool { return fn.Pkg != nil && P.InScope[fn.Pkg] }}
	height := func(r, h uint64) *ordeval.Struct {
		return &ordeval.Struct{T: hT, Fields: []ordeval.Value{ordeval.Uint(r), ordeval.Uint(h)}}
	}
	// field order check (RevisionNumber, RevisionHeight) and (Height, Timestamp)
	if st, ok := hT.Underlying().(*types.Struct); !ok || st.NumFields() != 2 || st.Field(0).Name() != "RevisionNumber" || st.Field(1).Name() != "RevisionHeight" {
		c.undecided("C17/role", "Height fields", "", "unexpected layout of clienttypes.Height")
		return
	}
	if st, ok := tT.Underlying().(*types.Struct); !ok || st.NumFields() != 2 || st.Field(0).Name() != "Height" || st.Field(1).Name() != "Timestamp" {
		c.undecided("C17/role", "Timeout fields", "", "unexpected layout of channeltypes.Timeout")
		return
	}
	evals := 0
	call := func(fn *ssa.Function, args ...ordeval.Value) (ordeval.Value, error) {
		evals++
		r, err := ev.Call(fn, args)
		if err != nil {
			return nil, err
		}
		return r[0], nil
	}
	fail := func(rule, construct, msg string) { c.bad(rule, construct, "", msg) }
	und := func(rule, construct string, err error) { c.undecided(rule, construct, "", err.Error()) }

	// ---- Compare: lexicographic, antisymmetric, reflexive
	L := []uint64{0, 1, 2}
	sign := func(a, b uint64) int64 {
		if a < b {
			return -1
		} else if a > b {
			return 1
		}
		return 0
	}
	okCmp := true
	for _, r1 := range L {
		for _, h1 := range L {
			for _, r2 := range L {
				for _, h2 := range L {
					v, err := call(cmp, height(r1, h1), height(r2, h2))
					if err != nil {
						und("C17/compare", "core/02-client/types.Height.Compare", err)
						return
					}
					want := sign(r1, r2)
					if want == 0 {
						want = sign(h1, h2)
					}
					if ordeval.AsInt(v) != want {
						fail("C17/compare/lexicographic", "core/02-client/types.Height.Compare", fmt.Sprintf("Compare(%d-%d, %d-%d) = %d, lexicographic order gives %d", r1, h1, r2, h2, ordeval.AsInt(v), want))
						okCmp = false
					}
					w, _ := call(cmp, height(r2, h2), height(r1, h1))
					if w != nil && ordeval.AsInt(w) != -ordeval.AsInt(v) {
						fail("C17/compare/antisymmetric", "core/02-client/types.Height.Compare", fmt.Sprintf("Compare(%d-%d, %d-%d) and its converse are not opposite", r1, h1, r2, h2))
						okCmp = false
					}
				}
			}
		}
	}
	if okCmp {
		c.ok("C17/compare/lexicographic", "core/02-client/types.Height.Compare", "", "all 81 order types of (rev,height)×(rev,height): lexicographic, antisymmetric, zero on equal")
	}
	// transitivity over three heights
	okT := true
	for _, a := range allHeights(L) {
		for _, b := range allHeights(L) {
			for _, d := range allHeights(L) {
				ab, _ := call(cmp, height(a[0], a[1]), height(b[0], b[1]))
				bd, _ := call(cmp, height(b[0], b[1]), height(d[0], d[1]))
				ad, _ := call(cmp, height(a[0], a[1]), height(d[0], d[1]))
				if ab == nil || bd == nil || ad == nil {
					continue
				}
				if ordeval.AsInt(ab) <= 0 && ordeval.AsInt(bd) <= 0 && ordeval.AsInt(ad) > 0 {
					fail("C17/compare/transitive", "core/02-client/types.Height.Compare", fmt.Sprintf("%v<=%v<=%v but not %v<=%v", a, b, d, a, d))
					okT = false
				}
			}
		}
	}
	if okT {
		c.ok("C17/compare/transitive", "core/02-client/types.Height.Compare", "", "729 triples")
	}
	// derived predicates agree with Compare
	for _, x := range []struct {
		name string
		want func(int64) bool
	}{{"LT", func(s int64) bool { return s < 0 }}, {"LTE", func(s int64) bool { return s <= 0 }}, {"GT", func(s int64) bool { return s > 0 }},
		{"GTE", func(s int64) bool { return s >= 0 }}, {"EQ", func(s int64) bool { return s == 0 }}} {
		fn := get("core/02-client/types.Height." + x.name)
		if fn == nil {
			continue
		}
		good := true
		for _, a := range allHeights(L) {
			for _, b := range allHeights(L) {
				v, err := call(fn, height(a[0], a[1]), height(b[0], b[1]))
				if err != nil {
					und("C17/predicates", "Height."+x.name, err)
					good = false
					break
				}
				s := sign(a[0], b[0])
				if s == 0 {
					s = sign(a[1], b[1])
				}
				if v.(bool) != x.want(s) {
					fail("C17/predicates", "core/02-client/types.Height."+x.name, fmt.Sprintf("%s(%v,%v)=%v disagrees with the lexicographic order", x.name, a, b, v))
					good = false
				}
			}
		}
		if good {
			c.ok("C17/predicates", "core/02-client/types.Height."+x.name, "", "agrees with Compare on all 81 order types")
		}
	}
	// ---- Elapsed: monotone, zero never elapses, exact definition
	timeout := func(r, h, ts uint64) *ordeval.Struct {
		return &ordeval.Struct{T: tT, Fields: []ordeval.Value{height(r, h), ordeval.Uint(ts)}}
	}
	L4 := []uint64{0, 1, 2, 3}
	okE, okZ, okD := true, true, true
	for _, tr := range L {
		for _, th := range L4 {
			for _, tt := range L4 {
				tm := timeout(tr, th, tt)
				for _, a := range allHeights(L4[:3]) {
					for _, ts1 := range L4 {
						v1, err := call(elapsed, tm, height(a[0], a[1]), ordeval.Uint(ts1))
						if err != nil {
							und("C17/elapsed", "core/04-channel/types.Timeout.Elapsed", err)
							return
						}
						// exact definition
						hz := tr == 0 && th == 0
						ge := sign(a[0], tr) > 0 || (sign(a[0], tr) == 0 && a[1] >= th)
						want := (!hz && ge) || (tt != 0 && ts1 >= tt)
						if v1.(bool) != want {
							fail("C17/elapsed/definition", "core/04-channel/types.Timeout.Elapsed", fmt.Sprintf("timeout(%d-%d,%d).Elapsed(%v,%d)=%v, expected %v", tr, th, tt, a, ts1, v1, want))
							okD = false
						}
						if hz && tt == 0 && v1.(bool) {
							fail("C17/elapsed/zero-never", "core/04-channel/types.Timeout.Elapsed", "a zero timeout elapsed")
							okZ = false
						}
						if !v1.(bool) {
							continue
						}
						// monotone: any componentwise larger (height, time) is elapsed too
						for _, b := range allHeights(L4[:3]) {
							s := sign(a[0], b[0])
							if s == 0 {
								s = sign(a[1], b[1])
							}
							if s > 0 {
								continue
							}
							for _, ts2 := range L4 {
								if ts2 < ts1 {
									continue
								}
								v2, _ := call(elapsed, tm, height(b[0], b[1]), ordeval.Uint(ts2))
								if v2 != nil && !v2.(bool) {
									fail("C17/elapsed/monotone", "core/04-channel/types.Timeout.Elapsed", fmt.Sprintf("elapsed at (%v,%d) but not at the later (%v,%d) for timeout (%d-%d,%d)", a, ts1, b, ts2, tr, th, tt))
									okE = false
								}
							}
						}
					}
				}
			}
		}
	}
	if okD {
		c.ok("C17/elapsed/definition", "core/04-channel/types.Timeout.Elapsed", "", "elapsed iff (height set and reached) or (timestamp set and reached)")
	}
	if okZ {
		c.ok("C17/elapsed/zero-never", "core/04-channel/types.Timeout.Elapsed", "", "zero height and zero timestamp never elapse")
	}
	if okE {
		c.ok("C17/elapsed/monotone", "core/04-channel/types.Timeout.Elapsed", "", "monotone in (height, timestamp)")
	}
	// IsZero
	okI := true
	for _, a := range allHeights(L) {
		v, err := call(isZero, height(a[0], a[1]))
		if err != nil {
			und("C17/iszero", "Height.IsZero", err)
			okI = false
			break
		}
		if v.(bool) != (a[0] == 0 && a[1] == 0) {
			fail("C17/iszero", "core/02-client/types.Height.IsZero", fmt.Sprintf("IsZero(%v)=%v", a, v))
			okI = false
		}
	}
	if okI {
		c.ok("C17/iszero", "core/02-client/types.Height.IsZero", "", "zero iff both components are zero")
	}
	c.Stats["order_type_evaluations"] = evals
	c.Stats["evaluator_steps"] = ev.Steps
	c.Assume = append(c.Assume, "the functions use their integer inputs only in comparisons (the evaluator refuses arithmetic on inputs), so one representative per weak ordering is exhaustive")
}

func allHeights(L []uint64) [][2]uint64 {
	var out [][2]uint64
	for _, r := range L {
		for _, h := range L {
			out = append(out, [2]uint64{r, h})
		}
	}
	return out
}
