package rules

import (
	"fmt"

	"ibcverif/interp"
	"ibcverif/term"
)

func init() {
	Register(&Prop{ID: "C48", Title: "Port routing is unambiguous and order-independent",
		Technique: "abstract interpretation (go/ssa) with loop back-edge invariants and loop-exhaustion facts: every registration into the v2 router happens only after its scans over the existing routes/prefixes ran to the end with the non-overlap test false at every element; lookup order (direct route before prefixes); v1 routing over the sorted key list",
		LevelText: "Decides that the IBC v2 router adds a direct route only if the name is alphanumeric, not yet a direct route, and no registered prefix is a prefix of it (the scan over all registered prefixes ran to exhaustion with the test false for each); adds a prefix route only if no direct route starts with it and no registered prefix is a prefix of it or has it as a prefix (both scans exhausted); that lookup returns the direct route when there is one and otherwise a prefix route whose prefix matches — which, given the registration guard, is unique, so map iteration order cannot change the result; that the v1 router refuses duplicate and non-alphanumeric names and registrations after sealing, and that v1 lookup tries the exact name first and then the sorted key list (first key contained in the name). Does not decide that applications register the routes they intend.",
		Note:      "go/types + go/ssa", Design: "§5 C48", Run: runC48})
}

func runC48(c *Ctx) {
	const which = "main"
	e := c.Engine(which)
	if e == nil {
		return
	}
	any := func(src string, set term.Set) bool { return e.T.Any(c.pats(which, nil, src)[0], set, nil) }
	rng := func(m string) string { return "range(field:" + m + "(param#0))" }
	key := func(m string) string { return "next:key(" + rng(m) + ")" }
	exhausted := func(m string) string { return "F(next:ok(" + rng(m) + "))" }
	type scan struct {
		m      string
		guards []string
	}
	check := func(fnKey, target string, pre []string, scans []scan) {
		rr := c.Run(which, fnKey)
		if rr == nil {
			return
		}
		// normal returns: registered after all scans were exhausted
		nRet := 0
		for _, ev := range rr.Events {
			if ev.Kind != "return" {
				continue
			}
			nRet++
			good := any("mapset(field:"+target+"(param#0), param#1, param#2)", ev.Atoms)
			miss := ""
			for _, s := range scans {
				if !any(exhausted(s.m), ev.Atoms) {
					good = false
					miss = "scan over " + s.m + " not run to the end"
				}
			}
			for _, p := range pre {
				if !any(p, ev.Atoms) {
					good = false
					miss = "missing " + p
				}
			}
			if good {
				c.ok("C48/"+shortEntry(fnKey)+"/registers-after-scans", fnKey+"@"+c.retOrdinal(rr, ev), e.P.Pos(ev.Instr.Pos()), "registration after exhaustive non-overlap scans")
			} else {
				c.bad("C48/"+shortEntry(fnKey)+"/registers-after-scans", fnKey+"@"+c.retOrdinal(rr, ev), e.P.Pos(ev.Instr.Pos()), "returns normally without a guarded registration: "+miss)
			}
		}
		if nRet == 0 {
			c.bad("C48/"+shortEntry(fnKey)+"/registers-after-scans", fnKey, "", "no normal return")
		}
		// every iteration that continues found no overlap; nothing is registered inside a scan
		seen := map[string]int{}
		for _, ev := range rr.Events {
			if ev.Kind != "backedge" {
				continue
			}
			if any("mapset(_, _, _)", ev.Atoms) {
				c.bad("C48/"+shortEntry(fnKey)+"/scan", fnKey, "", "a route is registered inside a scan loop")
			}
			for _, s := range scans {
				if !any("T(next:ok("+rng(s.m)+"))", ev.Atoms) {
					continue
				}
				seen[s.m]++
				for _, g := range s.guards {
					if !any(g, ev.Atoms) {
						c.bad("C48/"+shortEntry(fnKey)+"/scan", fnKey+" over "+s.m, "", "the scan continues to the next element without "+g)
					}
				}
			}
		}
		for _, s := range scans {
			if seen[s.m] == 0 {
				c.bad("C48/"+shortEntry(fnKey)+"/scan", fnKey+" over "+s.m, "", "scan loop not found")
			} else {
				c.ok("C48/"+shortEntry(fnKey)+"/scan", fnKey+" over "+s.m, "", fmt.Sprintf("%d path classes round the loop, all with the non-overlap test false", seen[s.m]))
			}
		}
	}
	alnum := "T(call:dyn(gv:sdk.IsAlphaNumeric, param#1))"
	check("core/api.Router.AddRoute", "routes",
		[]string{alnum, "F(haskey(field:routes(param#0), param#1))"},
		[]scan{{"prefixRoutes", []string{"F(call:strings.HasPrefix(param#1, " + key("prefixRoutes") + "))"}}})
	check("core/api.Router.AddPrefixRoute", "prefixRoutes",
		[]string{alnum},
		[]scan{
			{"routes", []string{"F(call:strings.HasPrefix(" + key("routes") + ", param#1))"}},
			{"prefixRoutes", []string{"F(call:strings.HasPrefix(param#1, " + key("prefixRoutes") + "))", "F(call:strings.HasPrefix(" + key("prefixRoutes") + ", param#1))"}},
		})
	// ---- v2 lookup: direct first, then a matching prefix
	if rr := c.Run(which, "core/api.Router.getRoute"); rr != nil {
		fk := "core/api.Router.getRoute"
		nD, nP, nN := 0, 0, 0
		for _, ev := range rr.Events {
			if ev.Kind != "return" || len(ev.Args) != 2 {
				continue
			}
			pos := e.P.Pos(ev.Instr.Pos())
			switch e.T.String(ev.Args[1]) {
			case "true":
				switch {
				case any("T(haskey(field:routes(param#0), param#1))", ev.Atoms) && any("lookup(field:routes(param#0), param#1)", setOf(ev.Args[0])):
					nD++
				case any("F(haskey(field:routes(param#0), param#1))", ev.Atoms) && any("T(call:strings.HasPrefix(param#1, "+key("prefixRoutes")+"))", ev.Atoms) && any("next:val("+rng("prefixRoutes")+")", setOf(ev.Args[0])):
					nP++
				default:
					c.bad("C48/lookup", fk, pos, "returns a route that is neither the direct route nor the module of a matching prefix: "+clip(e.T.String(ev.Args[0]), 100))
				}
			case "false":
				nN++
				if !any(exhausted("prefixRoutes"), ev.Atoms) || !any("F(haskey(field:routes(param#0), param#1))", ev.Atoms) {
					c.bad("C48/lookup", fk, pos, "reports no route without having tried the direct route and every prefix")
				}
			}
		}
		if nD > 0 && nP > 0 && nN > 0 {
			c.ok("C48/lookup", fk, "", "direct route first, then the module of a matching prefix, else none after all prefixes were tried")
		} else {
			c.bad("C48/lookup", fk, "", fmt.Sprintf("expected direct/prefix/none returns, got %d/%d/%d", nD, nP, nN))
		}
	}
	// ---- v1 router
	if rr := c.Run(which, "core/05-port/types.Router.AddRoute"); rr != nil {
		fk := "core/05-port/types.Router.AddRoute"
		n := 0
		for _, ev := range rr.Events {
			if ev.Kind != "return" {
				continue
			}
			n++
			if any("mapset(field:routes(param#0), param#1, param#2)", ev.Atoms) && any(alnum, ev.Atoms) && any("F(field:sealed(param#0))", ev.Atoms) &&
				(any("F(haskey(field:routes(param#0), param#1))", ev.Atoms) || any("F(call:core/05-port/types.Router.HasRoute(param#0, param#1))", ev.Atoms)) {
				c.ok("C48/v1/add", fk+"@"+c.retOrdinal(rr, ev), e.P.Pos(ev.Instr.Pos()), "not sealed, alphanumeric, not yet registered")
			} else {
				c.bad("C48/v1/add", fk+"@"+c.retOrdinal(rr, ev), e.P.Pos(ev.Instr.Pos()), "registers without the sealed/alphanumeric/duplicate guards")
			}
		}
		if n == 0 {
			c.bad("C48/v1/add", fk, "", "no normal return")
		}
	}
	// Route(k#0, module#1): exact, then first sorted key contained in the name
	if rr := c.Run(which, "core/05-port/keeper.Keeper.Route"); rr != nil {
		fk := "core/05-port/keeper.Keeper.Route"
		c.Check(which, "C48/v1/route", c.Calls(rr, "strings.Contains"), 1, nil, nil,
			Req{Name: "candidates-from-the-sorted-key-list-after-exact-miss", Args: map[int]string{0: "param#1", 1: "~in(call:core/05-port/types.Router.Keys(field:Router(param#0)))"},
				Any: all("F(extract:1(call:core/05-port/types.Router.Route(field:Router(param#0), param#1)))")})
		_ = fk
	}
	if rr := c.Run(which, "core/05-port/types.Router.Keys"); rr != nil {
		c.sortedKeys(which, rr)
	}
}

// sortedKeys: Router.Keys sorts what it returns.
func (c *Ctx) sortedKeys(which string, rr *interp.RunResult) {
	e := c.Engine(which)
	fk := "core/05-port/types.Router.Keys"
	n := 0
	for _, ev := range rr.Events {
		if ev.Kind == "call" && (ev.Key == "slices.Sort" || ev.Key == "sort.Strings") {
			n++
		}
	}
	sorted := false
	for _, r := range rr.Rets {
		if e.T.Any(c.pats(which, nil, "call:slices.Sort(_)")[0], r.Atoms, nil) || e.T.Any(c.pats(which, nil, "call:sort.Strings(_)")[0], r.Atoms, nil) {
			sorted = true
		}
	}
	if n > 0 && sorted {
		c.ok("C48/v1/keys-sorted", fk, "", "the key list is sorted before it is returned")
	} else {
		c.bad("C48/v1/keys-sorted", fk, "", "the key list is returned without being sorted (lookup would depend on map iteration order)")
	}
}
