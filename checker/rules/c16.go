package rules

import (
	"fmt"
	"go/constant"
	"go/types"
	"regexp/syntax"
	"sort"
	"strings"

	"golang.org/x/tools/go/ssa"

	"ibcverif/automata"
	"ibcverif/interp"
	"ibcverif/load"
	"ibcverif/term"
)

func init() {
	Register(&Prop{ID: "C16", Title: "Store key spaces never collide and clients stay in their namespace",
		Technique: "byte-layout extraction of every KV write key in the IBC core store (go/ssa interpretation) + exact regular-language decisions (product automata): pairwise disjointness, unique decodability, for all identifier and sequence values; store-lineage check that light-client writes go through the prefix store of their own client id",
		LevelText: "Decides, for every pair of distinct key families written to the IBC core store (found by scanning all KV Set/Delete sites, not from a hand list), that no byte string belongs to both, and for every family that it is uniquely decodable into its identifiers and sequence, with identifier segments ranging over the alphabet admitted by the identifier validator (read from its regular expression; must exclude '/' and bytes 0x01-0x03); and that every write performed by a light-client module goes through the prefix store clients/<its own client id parameter>/, with recovery writing only the subject's store. Identifier segments are assumed validated on entry (stateless validation of messages); keys written by a wasm contract inside its own prefix store are not decided.",
		Note:      "go/types + go/ssa; KVStore and prefix.Store semantics", Design: "§5 C16", Run: runC16})
}

// idClass reads the identifier alphabet from host.IsValidID's regular expression.
func (c *Ctx) idClass(which string) ([256]bool, string, bool) {
	var cls [256]bool
	lit, _ := c.regexLiteral(which, "core/24-host", "IsValidID")
	if lit == "" {
		return cls, "", false
	}
	re, err := syntax.Parse(lit, syntax.Perl)
	if err != nil {
		return cls, lit, false
	}
	found := false
	var walk func(r *syntax.Regexp)
	walk = func(r *syntax.Regexp) {
		if (r.Op == syntax.OpPlus || r.Op == syntax.OpStar) && len(r.Sub) == 1 && r.Sub[0].Op == syntax.OpCharClass {
			rs := r.Sub[0].Rune
			for i := 0; i+1 < len(rs); i += 2 {
				for x := rs[i]; x <= rs[i+1] && x < 256; x++ {
					cls[x] = true
				}
				if rs[i+1] >= 256 {
					for x := 128; x < 256; x++ {
						cls[x] = true
					}
				}
			}
			found = true
		}
		for _, s := range r.Sub {
			walk(s)
		}
	}
	walk(re)
	return cls, lit, found
}

type keyFamily struct {
	abs     string // printable layout
	segs    []automata.Seg
	writers []string
}

func runC16(c *Ctx) {
	const which = "main"
	e := c.Engine(which)
	if e == nil {
		return
	}
	cls, lit, ok := c.idClass(which)
	if !ok {
		c.undecided("C16/alphabet", "core/24-host.IsValidID", "", "cannot derive the identifier alphabet from the validator's regular expression "+lit)
		return
	}
	for _, b := range []byte{'/', 0x01, 0x02, 0x03, 0x00} {
		if cls[b] {
			c.bad("C16/alphabet", "core/24-host.IsValidID", "", fmt.Sprintf("identifier alphabet %s admits byte 0x%02x, which is a key delimiter", lit, b))
		}
	}
	c.ok("C16/alphabet/read", "core/24-host.IsValidID", "", "alphabet "+lit)

	conv := func(ts []term.Seg) ([]automata.Seg, bool) {
		var out []automata.Seg
		known := true
		for _, s := range ts {
			switch s.Kind {
			case 'L':
				out = append(out, automata.Seg{Kind: 'L', Lit: []byte(s.Lit)})
			case 'S':
				out = append(out, automata.Seg{Kind: 'C', Class: cls})
			case 'D':
				out = append(out, automata.Seg{Kind: 'D'})
			case '8':
				out = append(out, automata.Seg{Kind: 'F', N: 8})
			case 'H':
				out = append(out, automata.Seg{Kind: 'F', N: 32})
			default:
				known = false
			}
		}
		return out, known
	}
	// generated identifiers: "<registered client type>-<decimal>" or "channel-<decimal>"
	types := c.lightClientTypes(which)
	if len(types) < 4 {
		c.undecided("C16/generated-ids", "light client types", "", fmt.Sprintf("found only %v", types))
	}
	generated := automata.Seg{Kind: 'U'}
	for _, t := range append(types, "channel") {
		generated.Alts = append(generated.Alts, []automata.Seg{{Kind: 'L', Lit: []byte(t + "-")}, {Kind: 'D'}})
	}
	c.Explain = append(c.Explain, fmt.Sprintf("IBC v2 key families are decided over generated identifiers (%v + channel-N): their writers are reached only after a counterparty/alias lookup for an id created by GenerateClientIdentifier or the channel handshake (assumed, observation O2)", types))
	// ---- collect the families of the IBC core store
	fams := map[string]*keyFamily{}
	opaque := map[string]string{}
	for _, op := range c.StoreOps(which) {
		core := strings.HasPrefix(op.Fn, "core/")
		lc := strings.HasPrefix(op.Fn, "light-clients/")
		if !core && !lc {
			continue
		}
		if strings.Contains(op.Fn, "/migrations/") || strings.Contains(op.Fn, ".Migrator.") {
			continue // one-off store migrations delete legacy families
		}
		pre := op.Prefix
		if lc && len(pre) == 0 {
			// light clients write relative keys into the client prefix store handed to them
			pre = []term.Seg{{Kind: 'L', Lit: "clients/"}, {Kind: 'S'}, {Kind: 'L', Lit: "/"}}
		}
		all := append(append([]term.Seg(nil), pre...), op.Segs...)
		v2 := strings.HasPrefix(op.Fn, "core/04-channel/v2/keeper")
		// merge adjacent literals for printing
		abs := e.T.LayoutString(all)
		// a key that is a bare parameter cannot be classified
		if len(op.Segs) == 1 && op.Segs[0].Kind == 'S' {
			opaque[op.Fn] = abs
			continue
		}
		sg, _ := conv(all)
		if v2 && len(sg) > 0 && sg[0].Kind == 'C' {
			// IBC v2 keys start with an identifier the chain generated itself
			// (a light-client id or an aliased channel id): domain D2
			sg[0] = generated
			abs = "‹generated id›" + strings.TrimPrefix(abs, "{s}")
		}
		f, ok := fams[abs]
		if !ok {
			f = &keyFamily{abs: abs, segs: sg}
			fams[abs] = f
		}
		f.writers = append(f.writers, op.Fn)
	}
	// opaque-key writers must be listed, each with a reason
	allowedOpaque := map[string]string{
		"core/02-client/keeper.Keeper.SetAllClientMetadata": "genesis import of client metadata: the key comes from the exported genesis and is written inside the client's own prefix store",
	}
	for fn, abs := range opaque {
		if r, ok := allowedOpaque[fn]; ok {
			c.ok("C16/opaque-writer", fn, "", "listed: "+r)
		} else {
			c.undecided("C16/opaque-writer", fn, "", "writes a key whose layout cannot be determined ("+fmt.Sprintf("%q", abs)+") and is not a listed exception")
		}
	}
	names := make([]string, 0, len(fams))
	for k := range fams {
		names = append(names, k)
	}
	sort.Strings(names)
	if len(names) < 25 {
		c.bad("C16/scan", "families", "", fmt.Sprintf("only %d key families found in the IBC core store; expected at least 25", len(names)))
	}
	c.Stats["key_families"] = len(names)
	nfas := map[string]*automata.NFA{}
	for _, k := range names {
		nfas[k] = automata.Build(fams[k].segs)
	}
	// ---- one family, one protocol object: all writers of a layout are the
	// setter/deleter of the same object (two objects sharing a layout collide
	// on every key)
	sharedOK := map[string][]string{
		"clients/{s}/clientState":         {"clientstate", "updatestateonmisbehaviour"},
		"clients/{s}/consensusStates/{s}": {"consensusstate", "clientconsensusstate"},
	}
	for _, k := range names {
		stems := map[string]bool{}
		for _, w := range fams[k].writers {
			stems[objectStem(w)] = true
		}
		for _, s := range sharedOK[k] {
			if stems[s] {
				delete(stems, s)
				stems["*"] = true
			}
		}
		if len(stems) > 1 {
			c.bad("C16/one-object-per-family", fmt.Sprintf("%q", k), "", fmt.Sprintf("distinct protocol objects share this key layout and therefore collide: writers %v", uniq(fams[k].writers)))
		} else {
			c.ok("C16/one-object-per-family", fmt.Sprintf("%q", k), "", fmt.Sprintf("writers %v", uniq(fams[k].writers)))
		}
	}
	// ---- unique decodability
	for _, k := range names {
		if amb, w := automata.Ambiguous(nfas[k]); amb {
			c.bad("C16/unique-decodability", fmt.Sprintf("%q", k), "", fmt.Sprintf("the byte string %q has two parses with different segment boundaries (writers %v)", w, uniq(fams[k].writers)))
		} else {
			c.ok("C16/unique-decodability", fmt.Sprintf("%q", k), "", "no byte string has two parses")
		}
	}
	// ---- pairwise disjointness
	pairs, bad := 0, 0
	for i := 0; i < len(names); i++ {
		for j := i + 1; j < len(names); j++ {
			pairs++
			if hit, w := automata.Intersects(nfas[names[i]], nfas[names[j]]); hit {
				bad++
				c.bad("C16/disjoint", fmt.Sprintf("%q ∩ %q", names[i], names[j]), "", fmt.Sprintf("both families contain the key %q (writers %v and %v)", w, uniq(fams[names[i]].writers), uniq(fams[names[j]].writers)))
			}
		}
	}
	c.Stats["family_pairs_decided"] = pairs
	if bad == 0 {
		c.ok("C16/disjoint", fmt.Sprintf("%d families, %d pairs", len(names), pairs), "", "all pairwise intersections are empty")
	}
	c.Samples = append(c.Samples, map[string]any{"families": names})

	// ---- prefix iteration never spills into a neighbour: an iteration prefix
	// must end in a literal (delimiter); one that ends in an identifier would
	// also match every longer identifier (channel-1 / channel-10)
	c.iterationPrefixes(which)
	// ---- namespace confinement of light-client writes
	c.lightClientNamespace(which)
}

// lightClientTypes reads the client-type strings from the source: the string
// constants named ModuleName in light-client packages and the client-type
// constants of core/exported; 08-wasm lives in another module.
func (c *Ctx) lightClientTypes(which string) []string {
	P := c.Prog(which)
	set := map[string]bool{"08-wasm": true}
	for _, p := range P.Pkgs {
		sp := strings.TrimPrefix(p.PkgPath, "github.com/cosmos/ibc-go/v11/modules/")
		sc := p.Types.Scope()
		for _, n := range sc.Names() {
			k, ok := sc.Lookup(n).(*types.Const)
			if !ok || k.Val().Kind() != constant.String {
				continue
			}
			v := constant.StringVal(k.Val())
			lcPkg := strings.HasPrefix(sp, "light-clients/") && strings.Count(sp, "/") == 1 && n == "ModuleName"
			exp := sp == "core/exported" && (n == "Solomachine" || n == "Tendermint" || n == "Localhost")
			if (lcPkg || exp) && v != "" {
				set[v] = true
			}
		}
	}
	var out []string
	for k := range set {
		out = append(out, k)
	}
	sort.Strings(out)
	return out
}

func (c *Ctx) iterationPrefixes(which string) {
	e := c.Engine(which)
	P := e.P
	// functions containing a prefix-iterator construction
	holders := map[string]bool{}
	var scan func(fn *ssa.Function)
	scan = func(fn *ssa.Function) {
		for _, b := range fn.Blocks {
			for _, ins := range b.Instrs {
				if ci, ok := ins.(ssa.CallInstruction); ok {
					if sc := ci.Common().StaticCallee(); sc != nil && (sc.Name() == "KVStorePrefixIterator" || sc.Name() == "KVStoreReversePrefixIterator") {
						holders[loadKey(topFn(fn))] = true
					}
				}
			}
		}
		for _, an := range fn.AnonFuncs {
			scan(an)
		}
	}
	for k, fn := range P.Funcs {
		if (strings.HasPrefix(k, "core/") || strings.HasPrefix(k, "light-clients/")) && !strings.Contains(k, "/migrations/") {
			scan(fn)
		}
	}
	allowed := map[string]string{
		"core/04-channel/keeper.Keeper.IterateChannelsWithPrefix": "filters channels by a caller-given port *prefix* on purpose",
		"core/04-channel/keeper.Keeper.GetAllChannelsWithPortPrefix": "filters channels by a caller-given port *prefix* on purpose",
		"core/02-client/keeper.Keeper.IterateClientStates":         "filters clients by a caller-given client-type prefix on purpose",
	}
	// a holder that receives the prefix constructor as a function parameter is
	// analysed through its callers, where the constructor is known
	for k := range holders {
		fn := P.Funcs[k]
		hasFuncParam := false
		for _, p := range fn.Params {
			if _, ok := p.Type().Underlying().(*types.Signature); ok {
				hasFuncParam = true
			}
		}
		if hasFuncParam {
			delete(holders, k)
			sites, _ := c.CallersOf(which, k)
			for _, s := range sites {
				holders[s.Caller] = true
			}
		}
	}
	n := 0
	for k := range holders {
		rr := c.Run(which, k)
		if rr == nil {
			continue
		}
		for _, s := range c.Sites(c.Calls(rr, "storetypes.KVStore*PrefixIterator")) {
			ev := s.Events[0]
			if len(ev.Args) < 2 {
				continue
			}
			n++
			segs := e.T.Layout(ev.Args[1])
			lay := e.T.LayoutString(segs)
			where := P.Pos(ev.Instr.Pos())
			construct := loadKey(topFn(ev.Fn)) + " prefix " + fmt.Sprintf("%q", lay)
			if len(segs) > 0 && segs[len(segs)-1].Kind != 'L' {
				if r, ok := allowed[loadKey(topFn(ev.Fn))]; ok {
					c.ok("C16/iteration-prefix", construct, where, "listed: "+r)
				} else {
					c.bad("C16/iteration-prefix", construct, where, "the iteration prefix ends in an identifier/variable segment without a delimiter: iterating one object's entries also returns those of every object whose identifier extends it")
				}
			} else {
				c.ok("C16/iteration-prefix", construct, where, "prefix ends in a literal delimiter")
			}
		}
	}
	if n < 10 {
		c.bad("C16/iteration-prefix/instances", "prefix iterators", "", fmt.Sprintf("only %d prefix-iterator sites found", n))
	}
}

func loadKey(fn *ssa.Function) string { return load.FuncKey(fn) }

// objectStem names the protocol object a writer function stores: the function
// name without its Set/Delete/Remove prefix, lower-cased.
func objectStem(fn string) string {
	n := fn
	if i := strings.LastIndex(n, "."); i >= 0 {
		n = n[i+1:]
	}
	l := strings.ToLower(n)
	for _, p := range []string{"set", "delete", "remove", "store"} {
		if strings.HasPrefix(l, p) && len(l) > len(p) {
			return strings.TrimPrefix(l, p)
		}
	}
	return l
}

func uniq(xs []string) []string {
	m := map[string]bool{}
	var out []string
	for _, x := range xs {
		if !m[x] {
			m[x] = true
			out = append(out, x)
		}
	}
	sort.Strings(out)
	return out
}

// lightClientNamespace: every KV write reached from a LightClientModule entry
// goes through prefix.NewStore(ibc store, "clients/" ‖ clientID ‖ "/") where
// clientID is that entry's own client-id parameter (param#2).
func (c *Ctx) lightClientNamespace(which string) {
	e := c.Engine(which)
	mods := []string{"light-clients/07-tendermint.LightClientModule", "light-clients/06-solomachine.LightClientModule", "light-clients/attestations.LightClientModule", "light-clients/09-localhost.LightClientModule"}
	methods := []string{"Initialize", "VerifyClientMessage", "CheckForMisbehaviour", "UpdateStateOnMisbehaviour", "UpdateState", "VerifyMembership", "VerifyNonMembership", "RecoverClient", "VerifyUpgradeAndUpdateState", "Status", "TimestampAtHeight", "LatestHeight"}
	own := c.pats(which, nil, `call:prefix.NewStore(_, ~key("clients/{s}/", param#2))`)[0]
	total := 0
	for _, m := range mods {
		for _, meth := range methods {
			key := m + "." + meth
			if e.P.Funcs[key] == nil {
				c.undecided("C16/namespace/role", key, "", "light-client method not found")
				continue
			}
			rr := c.Run(which, key)
			if rr == nil {
				continue
			}
			n, badSite := 0, ""
			for _, ev := range rr.Events {
				if ev.Kind != "call" {
					continue
				}
				ci, ok := ev.Instr.(ssa.CallInstruction)
				if !ok {
					continue
				}
				if _, ok := isKVWriteMethod(ci.Common()); !ok {
					continue
				}
				n++
				if !e.T.Match(own, ev.Args[0], term.Env{}, func(term.Env) bool { return true }) {
					badSite = e.P.Pos(ev.Instr.Pos()) + " store=" + clip(e.T.String(ev.Args[0]), 200)
				}
			}
			total += n
			if badSite != "" {
				c.bad("C16/namespace", key, badSite, "a store write does not go through the prefix store of the client id this method was called for")
			} else {
				c.ok("C16/namespace", key, "", fmt.Sprintf("%d write site(s), all through clients/<own client id>/", n))
			}
		}
	}
	if total < 10 {
		c.bad("C16/namespace/instances", "light-client writes", "", fmt.Sprintf("only %d light-client write sites found", total))
	}
	_ = interp.New
}
