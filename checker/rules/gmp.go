package rules

import (
	"fmt"

	"ibcverif/term"
)

const (
	gmpK = "apps/27-gmp/keeper.Keeper"
	gmpT = "apps/27-gmp/types"
)

func init() {
	Register(&Prop{ID: "C39", Title: "GMP accounts are uniquely derived and only act for themselves",
		Technique: "abstract interpretation (go/ssa): shape of the address pre-image (three length-prefixed fields copied at consecutive offsets into a buffer of exactly their total size), get-or-create discipline of the account table keyed by the same triple, loop back-edge invariant of authenticateTx (exactly one signer, equal to the account), guard and context binding of message execution, sender == signer on send; who-may-write table of the account collections",
		LevelText: "Decides that the account address is the first 32 bytes of address.Module(\"gmp-accounts\", key) where key is exactly len64(clientId)‖clientId‖len64(sender)‖sender‖len64(salt)‖salt (each field prefixed by its 8-byte big-endian length, copied at consecutive offsets into a buffer whose size is the sum) — a prefix-free encoding, so distinct triples have distinct pre-images; that getOrCreateICS27Account returns the stored entry for the triple when there is one and writes the table (under the same triple, with the derived address) only when the lookup reported not-found; that the two account collections are written nowhere else except genesis import; that authenticateTx returns nil only for a non-empty message list after going over every message, each with exactly one extracted signer that is byte-equal to the account's address; that messages execute only after that authentication, after their own ValidateBasic, on a branched context that is written only when all succeeded; that OnRecvPacket derives the account from (destination client, packet sender, packet salt); and that OnSendPacket succeeds only if the payload's sender equals the signer. Collision resistance of the SDK's address hash is trusted.",
		Note:      "go/types + go/ssa; cosmos-sdk address.Module and collections trusted", Design: "§5 C39", Run: runC39})
}

func runC39(c *Ctx) {
	const which = "main"
	e := c.Engine(which)
	if e == nil {
		return
	}
	any := func(src string, set term.Set) bool { return e.T.Any(c.pats(which, nil, src)[0], set, nil) }
	// ---- BuildAddressPredictable(accountID#0)
	if rr := c.Run(which, gmpT+".BuildAddressPredictable"); rr != nil {
		fk := gmpT + ".BuildAddressPredictable"
		lp := func(x string) string {
			return "append(call:sdk.Uint64ToBigEndian(conv:uint64(len(" + x + "))), " + x + ")"
		}
		A, B, C := lp("conv:bytes(field:ClientId(param#0))"), lp("conv:bytes(field:Sender(param#0))"), lp("field:Salt(param#0)")
		buf := "make:slice(binop:+(binop:+(len(" + A + "), len(" + B + ")), len(" + C + ")))"
		n := 0
		for _, ev := range rr.Events {
			if ev.Kind != "return" || len(ev.Args) != 2 || e.T.String(ev.Args[1]) != "nil" {
				continue
			}
			n++
			good := any("slice(call:address.Module(\"gmp-accounts\", "+buf+"), 0, 32)", setOf(ev.Args[0])) &&
				any("copy(slice("+buf+", 0, nil), "+A+")", ev.Atoms) &&
				any("copy(slice("+buf+", len("+A+"), nil), "+B+")", ev.Atoms) &&
				any("copy(slice("+buf+", binop:+(len("+A+"), len("+B+")), nil), "+C+")", ev.Atoms) &&
				any("ok(call:core/24-host.ClientIdentifierValidator(field:ClientId(param#0)))", ev.Atoms)
			if good {
				c.ok("C39/derivation", fk, e.P.Pos(ev.Instr.Pos()), "address = Module(\"gmp-accounts\", len‖clientId‖len‖sender‖len‖salt)[:32]")
			} else {
				c.bad("C39/derivation", fk, e.P.Pos(ev.Instr.Pos()), "the address pre-image is not the three length-prefixed fields at consecutive offsets of a buffer of their total size")
			}
		}
		if n == 0 {
			c.bad("C39/derivation", fk, "", "no success return")
		}
	}
	// ---- getOrCreateICS27Account(k#0, ctx#1, accountID#2)
	if rr := c.Run(which, gmpK+".getOrCreateICS27Account"); rr != nil {
		fk := gmpK + ".getOrCreateICS27Account"
		triple := "call:collections.Join3(field:ClientId(param#2), field:Sender(param#2), field:Salt(param#2))"
		get := "call:collections.Map.Get(field:Accounts(param#0), param#1, " + triple + ")"
		derived := "extract:0(call:" + gmpT + ".BuildAddressPredictable(param#2))"
		sets := c.Calls(rr, "collections.Map.Set")
		c.Check(which, "C39/table/write", sets, 2, nil, nil,
			Req{Name: "only-after-not-found-under-the-same-triple-or-derived-address", Any: all("fail("+get+")", "ok(call:"+gmpT+".BuildAddressPredictable(param#2))"),
				Args: map[int]string{2: "~or(" + triple + ", " + derived + ", slice(call:address.Module(\"gmp-accounts\", ~in(field:ClientId(param#2))), 0, 32))"}})
		// existing entry: returned without any write
		n := 0
		for _, ev := range rr.Events {
			if ev.Kind != "return" || len(ev.Args) != 2 || e.T.String(ev.Args[1]) != "nil" {
				continue
			}
			if any("ok("+get+")", ev.Atoms) {
				n++
				if any("call:collections.Map.Set", ev.Atoms) || any("call:iface:*AccountKeeper.SetAccount", ev.Atoms) {
					c.bad("C39/table/stable", fk, e.P.Pos(ev.Instr.Pos()), "an existing entry is rewritten")
				}
			} else if !any("call:collections.Map.Set(field:Accounts(param#0), param#1, "+triple+", ~wf(Address, _))", ev.Atoms) {
				c.bad("C39/table/stable", fk, e.P.Pos(ev.Instr.Pos()), "a new account is returned without being recorded under its triple")
			}
		}
		if n > 0 {
			c.ok("C39/table/stable", fk, "", "an existing entry is returned unchanged; a new one is recorded under its triple")
		} else {
			c.bad("C39/table/stable", fk, "", "no return for an existing entry")
		}
	}
	c.CallerTable(which, "C39/table/writers", []CallerRule{
		{Callee: gmpK + ".getOrCreateICS27Account", Allowed: []string{gmpK + ".OnRecvPacket"}, Min: 1},
	})
	c.collectionWriters(which, "C39/table/writers", "apps/27-gmp/keeper", []string{"Accounts", "AccountsByAddress"},
		[]string{gmpK + ".getOrCreateICS27Account", gmpK + ".InitGenesis"})
	// ---- authenticateTx(k#0, ctx#1, account#2, msgs#3)
	if rr := c.Run(which, gmpK+".authenticateTx"); rr != nil {
		fk := gmpK + ".authenticateTx"
		n := 0
		for _, ev := range rr.Events {
			if ev.Kind == "return" && len(ev.Args) == 1 && e.T.String(ev.Args[0]) == "nil" {
				n++
				if !any("ne(len(param#3), 0)", ev.Atoms) || !any("le(len(param#3), _)", ev.Atoms) {
					c.bad("C39/authenticate/return", fk, e.P.Pos(ev.Instr.Pos()), "returns nil for an empty list or before every message was visited")
				}
			}
		}
		signers := "extract:0(call:iface:codec.Codec.GetMsgV1Signers(field:cdc(param#0), index(param#3, ?i)))"
		inv := []string{
			"ok(call:iface:codec.Codec.GetMsgV1Signers(field:cdc(param#0), index(param#3, ?i)))",
			"eq(len(" + signers + "), 1)",
			"T(call:bytes.Equal(index(" + signers + ", 0), call:sdk.AccAddress.Bytes(call:iface:sdk.AccountI.GetAddress(param#2))))",
		}
		nb := 0
		for _, ev := range rr.Events {
			if ev.Kind != "backedge" {
				continue
			}
			nb++
			if ok, miss, _ := c.Holds(e, ev.Atoms, term.Env{}, c.pats(which, nil, inv...)); !ok {
				c.bad("C39/authenticate/message", fk, "", "the loop goes on to the next message without "+clip(miss, 160))
			}
		}
		if n > 0 && nb > 0 {
			c.ok("C39/authenticate/return", fk, "", "nil only for a non-empty list with every message visited")
			c.ok("C39/authenticate/message", fk, "", fmt.Sprintf("%d path class(es) round the loop: exactly one signer, byte-equal to the account address", nb))
		} else {
			c.bad("C39/authenticate", fk, "", "success return or loop not found")
		}
	}
	// ---- executeTx(k#0, ctx#1, account#2, payload#3)
	if rr := c.Run(which, gmpK+".executeTx"); rr != nil {
		fk := gmpK + ".executeTx"
		msgs := "extract:0(call:" + gmpT + ".DeserializeCosmosTx(field:cdc(param#0), param#3))"
		auth := "ok(call:" + gmpK + ".authenticateTx(param#0, param#1, param#2, " + msgs + "))"
		branch := "call:sdk.Context.CacheContext(param#1)"
		c.Check(which, "C39/execute", c.Calls(rr, gmpK+".executeMsg"), 1, nil, nil,
			Req{Name: "authenticated-validated-on-the-branch", Args: map[int]string{1: "extract:0(" + branch + ")", 2: "index(" + msgs + ", ?i)"}, Any: [][]string{
				{auth, "ok(call:iface:sdk.HasValidateBasic.ValidateBasic(index(" + msgs + ", ?i)))"},
				{auth, "F(istype:sdk.HasValidateBasic(index(" + msgs + ", ?i)))"},
			}})
		commit := "call:dyn(extract:1(" + branch + "))"
		nOK := 0
		for _, ev := range rr.Events {
			if ev.Kind != "return" || len(ev.Args) != 2 {
				continue
			}
			if e.T.String(ev.Args[1]) == "nil" {
				nOK++
				if !any(commit, ev.Atoms) || !any(auth, ev.Atoms) {
					c.bad("C39/atomic", fk, e.P.Pos(ev.Instr.Pos()), "success return without the branch written after authentication")
				}
			} else if any(commit, ev.Atoms) && !any("fail(call:proto.Marshal(_))", ev.Atoms) {
				c.bad("C39/atomic", fk, e.P.Pos(ev.Instr.Pos()), "an error return after the branched state was written although not all messages had succeeded")
			}
		}
		for _, ev := range rr.Events {
			if ev.Kind == "backedge" && any(commit, ev.Atoms) {
				c.bad("C39/atomic", fk, "", "the branch is written inside the message loop")
			}
		}
		if nOK > 0 {
			c.ok("C39/atomic", fk, "", "branch written only after all messages succeeded")
		} else {
			c.bad("C39/atomic", fk, "", "no success return")
		}
	}
	// ---- OnRecvPacket(k#0, ctx#1, data#2, destClient#3)
	if rr := c.Run(which, gmpK+".OnRecvPacket"); rr != nil {
		id := "ref(~and(~wf(ClientId, param#3), ~wf(Sender, field:Sender(param#2)), ~wf(Salt, field:Salt(param#2))))"
		c.Check(which, "C39/recv/account", c.Calls(rr, gmpK+".getOrCreateICS27Account"), 1, nil, nil,
			Req{Name: "triple-from-destination-client-and-packet", Args: map[int]string{2: "~or(" + id + ", addr#*)"}})
		c.Check(which, "C39/recv/execute", c.Calls(rr, gmpK+".executeTx"), 1, nil, nil,
			Req{Name: "as-the-derived-account-with-the-packet-payload", Args: map[int]string{
				2: "call:iface:*AccountKeeper.GetAccount(_, _, extract:0(call:sdk.AccAddressFromBech32(field:Address(extract:0(call:" + gmpK + ".getOrCreateICS27Account(param#0, param#1, _))))))",
				3: "field:Payload(param#2)"}})
	}
	// ---- module OnRecvPacket(im#0, ctx#1, sourceClient#2, destinationClient#3, seq#4, payload#5, relayer#6):
	// the keeper gets this chain's own (destination) client id and the data decoded from this payload
	if rr := c.Run(which, "apps/27-gmp.IBCModule.OnRecvPacket"); rr != nil {
		c.Check(which, "C39/recv/module", c.Calls(rr, gmpK+".OnRecvPacket"), 1, nil, nil,
			Req{Name: "destination-client-and-decoded-payload", Args: map[int]string{1: "param#1", 3: "param#3",
				2: "~or(ref(extract:0(call:" + gmpT + ".UnmarshalPacketData(field:Value(param#5), field:Version(param#5), field:Encoding(param#5)))), extract:0(call:" + gmpT + ".UnmarshalPacketData(field:Value(param#5), field:Version(param#5), field:Encoding(param#5))))"},
				Any: all("eq(field:SourcePort(param#5), \"gmpport\")", "eq(field:DestinationPort(param#5), \"gmpport\")")})
	}
	// ---- OnSendPacket(im#0, ctx#1, src#2, dst#3, seq#4, payload#5, signer#6)
	if rr := c.Run(which, "apps/27-gmp.IBCModule.OnSendPacket"); rr != nil {
		c.CheckRets(which, "C39/send", rr, NilErr(e), 1, nil,
			Req{Name: "sender-equals-signer", Any: all("T(call:sdk.AccAddress.Equals(param#6, extract:0(call:sdk.AccAddressFromBech32(field:Sender(extract:0(call:" + gmpT + ".UnmarshalPacketData(field:Value(param#5), field:Version(param#5), field:Encoding(param#5))))))))")})
	}
}

// collectionWriters: the named collection fields of a keeper package are written (Set/Remove/Clear) only by the allowed functions.
func (c *Ctx) collectionWriters(which, rule, pkgShort string, fields []string, allowed []string) {
	e := c.Engine(which)
	okFn := map[string]bool{}
	for _, a := range allowed {
		okFn[a] = true
	}
	isField := map[string]bool{}
	for _, f := range fields {
		isField[f] = true
	}
	n := 0
	for key, fn := range e.P.Funcs {
		if len(key) < len(pkgShort) || key[:len(pkgShort)] != pkgShort || fn.Blocks == nil {
			continue
		}
		for _, w := range collectionWrites(fn) {
			if !isField[w.field] {
				continue
			}
			n++
			if !okFn[topKey(fn)] {
				c.bad(rule, topKey(fn), e.P.Pos(w.pos), "writes the "+w.field+" collection ("+w.method+") outside the allowed functions")
			}
		}
	}
	if n >= len(fields) {
		c.ok(rule, pkgShort+" collections", "", fmt.Sprintf("%d collection writes, all in the allowed functions", n))
	} else {
		c.bad(rule, pkgShort+" collections", "", fmt.Sprintf("only %d collection writes found for %v", n, fields))
	}
}
