package rules

func init() {
	Register(&Prop{ID: "C13", Title: "Connection handshake safety and version negotiation",
		Technique: "abstract interpretation (go/ssa) with struct-field memory model: transition extraction at SetConnection sites, field-by-field binding of the expected counterparty connection end proven through the light-client seam, version guards, who-may-call table",
		LevelText: "Decides that a connection end is stored as OPEN only from INIT (Ack) or TRYOPEN (Confirm) and only after a successful membership proof, at the message's proof height under the connection's own client, of the counterparty end stored under the counterparty's connection id with exactly {matching state, swapped client pair, this chain's prefix, same delay period, the negotiated version(s)}; that Ack requires the chosen version to be among the versions offered; that no production write has a pre-state that may be OPEN; that handshake messages naming the localhost client are refused by stateless validation; and that channels open only over a connection with exactly one negotiated version supporting the ordering. Does not decide PickVersion's intersection contract for every version list.",
		Note:      "go/types + go/ssa", Design: "§5 C13", Run: runC13})
}

func runC13(c *Ctx) {
	const which = "main"
	e := c.Engine(which)
	if e == nil {
		return
	}
	m := Macros{"MSG": "param#2", "CID": "field:ConnectionId(param#2)"}
	own := "extract:0(call:$connK.GetConnection(_, _, $CID))"
	setConn := "$connK.SetConnection"
	marshal := func(expected string) string {
		return "extract:0(call:iface:codec.BinaryCodec.Marshal(_, ref(" + expected + ")))"
	}
	ownPrefix := `~wf(Prefix, ~wf(KeyPrefix, conv:bytes("ibc")))`
	expected := func(state, cpClient, ownClient, ownConnID, delay, versions string) string {
		return "~and(~wf(State, " + state + "), ~wf(ClientId, " + cpClient + "), ~wf(Counterparty, ~and(~wf(ClientId, " + ownClient + "), ~wf(ConnectionId, " + ownConnID + "), " + ownPrefix + ")), ~wf(DelayPeriod, " + delay + "), ~wf(Versions, " + versions + "))"
	}
	verify := func(client, cpPrefixOf, cpConnID, proof, exp string) string {
		return "ok($LCM.VerifyMembership(_, _, " + client + ", field:ProofHeight($MSG), 0, 0, field:" + proof + "($MSG), " +
			"~and(~in(" + cpPrefixOf + "), ~in(call:dyn(gv:core/23-commitment/types.NewMerklePath, " + key(`"connections/{s}"`, cpConnID) + "))), " + marshal(exp) + "))"
	}
	// ---- Init
	if rr := c.Run(which, "core/keeper.Keeper.ConnectionOpenInit"); rr != nil {
		c.Check(which, "C13/init", c.Calls(rr, setConn), 1, m, nil,
			Req{Name: "stores-INIT-under-generated-id", Args: map[int]string{2: `~key("connection-{d}", _)`, 3: "~and(~wf(State, $connT.INIT), ~wf(ClientId, field:ClientId($MSG)), ~wf(DelayPeriod, field:DelayPeriod($MSG)))"}})
	}
	// ---- Try
	if rr := c.Run(which, "core/keeper.Keeper.ConnectionOpenTry"); rr != nil {
		exp := expected("$connT.INIT", "field:ClientId(field:Counterparty($MSG))", "field:ClientId($MSG)", `""`, "field:DelayPeriod($MSG)", "field:CounterpartyVersions($MSG)")
		c.Check(which, "C13/try", c.Calls(rr, setConn), 1, m, nil,
			Req{Name: "stores-TRYOPEN-under-generated-id", Args: map[int]string{2: `~key("connection-{d}", _)`,
				3: "~and(~wf(State, $connT.TRYOPEN), ~wf(ClientId, field:ClientId($MSG)), ~wf(Counterparty, field:Counterparty($MSG)), ~wf(DelayPeriod, field:DelayPeriod($MSG)), ~wf(Versions, arr(~or(extract:0(call:$connT.PickVersion(_, field:CounterpartyVersions($MSG))), addr#*, ref(_)))))"}},
			Req{Name: "after-proof-of-counterparty-INIT", Any: all(
				verify("field:ClientId($MSG)", "field:Prefix(field:Counterparty($MSG))", "field:ConnectionId(field:Counterparty($MSG))", "ProofInit", exp),
				"ok(call:$connT.PickVersion(_, field:CounterpartyVersions($MSG)))",
			)},
		)
	}
	// ---- Ack
	if rr := c.Run(which, "core/keeper.Keeper.ConnectionOpenAck"); rr != nil {
		exp := expected("$connT.TRYOPEN", "field:ClientId(field:Counterparty("+own+"))", "field:ClientId("+own+")", "$CID", "field:DelayPeriod("+own+")", "arr(field:Version($MSG))")
		c.Check(which, "C13/ack", c.Calls(rr, setConn), 1, m, nil,
			Req{Name: "INIT-to-OPEN", Args: map[int]string{2: "$CID",
				3: "~and(~wf(State, $connT.OPEN), ~wf(Versions, arr(field:Version($MSG))), ~wf(Counterparty, ~wf(ConnectionId, field:CounterpartyConnectionId($MSG))), ~in(" + own + "))"},
				Any: all("eq(field:State(" + own + "), $connT.INIT)")},
			Req{Name: "version-was-offered", Any: all("T(call:$connT.IsSupportedVersion(field:Versions(" + own + "), field:Version($MSG)))")},
			Req{Name: "after-proof-of-counterparty-TRYOPEN", Any: all(
				verify("field:ClientId("+own+")", "field:Prefix(field:Counterparty("+own+"))", "field:CounterpartyConnectionId($MSG)", "ProofTry", exp),
			)},
		)
	}
	// ---- Confirm
	if rr := c.Run(which, "core/keeper.Keeper.ConnectionOpenConfirm"); rr != nil {
		exp := expected("$connT.OPEN", "field:ClientId(field:Counterparty("+own+"))", "field:ClientId("+own+")", "$CID", "field:DelayPeriod("+own+")", "field:Versions("+own+")")
		c.Check(which, "C13/confirm", c.Calls(rr, setConn), 1, m, nil,
			Req{Name: "TRYOPEN-to-OPEN", Args: map[int]string{2: "$CID", 3: "~and(~wf(State, $connT.OPEN), ~in(" + own + "))"},
				Any: all("eq(field:State(" + own + "), $connT.TRYOPEN)")},
			Req{Name: "after-proof-of-counterparty-OPEN", Any: all(
				verify("field:ClientId("+own+")", "field:Prefix(field:Counterparty("+own+"))", "field:ConnectionId(field:Counterparty("+own+"))", "ProofAck", exp),
			)},
		)
	}
	// ---- nobody else writes connection ends (so OPEN is never left)
	c.CallerTable(which, "C13/writers", []CallerRule{
		{Callee: "core/03-connection/keeper.Keeper.SetConnection", Allowed: []string{
			"core/03-connection/keeper.Keeper.ConnOpenInit", "core/03-connection/keeper.Keeper.ConnOpenTry",
			"core/03-connection/keeper.Keeper.ConnOpenAck", "core/03-connection/keeper.Keeper.ConnOpenConfirm",
			"core/03-connection.InitGenesis", "core/03-connection/keeper.Keeper.CreateSentinelLocalhostConnection",
		}, Min: 5},
	})
	c.WriterTable(which, "C13/store-writers", []FamilyRule{
		{Family: "connections/", Ops: "set", Allowed: []string{"core/03-connection/keeper.Keeper.SetConnection"}, Min: 1},
		{Family: "connections/", Ops: "delete", Min: 0},
	})
	// ---- localhost refused by stateless validation of Init and Try
	for _, t := range []string{"MsgConnectionOpenInit", "MsgConnectionOpenTry"} {
		if rr := c.Run(which, "core/03-connection/types."+t+".ValidateBasic"); rr != nil {
			c.CheckRets(which, "C13/localhost/"+t, rr, NilErr(e), 1, nil,
				Req{Name: "client-is-not-localhost", Any: all(`ne(field:ClientId(param#0), "09-localhost")`)})
		}
	}
	// ---- channels open only over a connection with exactly one version supporting the ordering
	for _, x := range []struct{ entry, ord, hops string }{
		{"core/04-channel/keeper.Keeper.ChanOpenInit", "param#2", "param#3"},
		{"core/04-channel/keeper.Keeper.ChanOpenTry", "param#2", "param#3"},
	} {
		if rr := c.Run(which, x.entry); rr != nil {
			cn := "extract:0(call:$connK.GetConnection(_, _, index(" + x.hops + ", 0)))"
			c.CheckRets(which, "C13/channel-version/"+shortEntry(x.entry), rr, NilErr(e), 1, nil,
				Req{Name: "single-version-supporting-ordering", Any: all(
					"eq(len(field:Versions("+cn+")), 1)",
					"T(call:$connT.VerifySupportedFeature(index(field:Versions("+cn+"), 0), ~in("+x.ord+")))",
				)})
		}
	}
}
