package term

import (
	"strconv"
	"strings"
)

// Seg is one segment of the byte layout of a string / []byte valued term.
//
//	'L' literal bytes        'S' variable-length value of term T
//	'D' decimal rendering of unsigned integer term T
//	'8' 8-byte big-endian encoding of term T
//	'H' 32-byte SHA-256 of the layout of T (T is the hashed term)
type Seg struct {
	Kind byte
	Lit  string
	T    ID
}

// Layout flattens formatting and concatenation operators into segments. The
// result is nil when the term is not byte-string shaped at all.
func (t *Table) Layout(id ID) []Seg {
	var out []Seg
	t.layout(id, &out, 0)
	// merge adjacent literals
	var m []Seg
	for _, s := range out {
		if s.Kind == 'L' && len(m) > 0 && m[len(m)-1].Kind == 'L' {
			m[len(m)-1].Lit += s.Lit
			continue
		}
		if s.Kind == 'L' && s.Lit == "" {
			continue
		}
		m = append(m, s)
	}
	return m
}

func (t *Table) layout(id ID, out *[]Seg, depth int) {
	tm := &t.terms[id]
	op := tm.Op
	if depth > 30 {
		*out = append(*out, Seg{Kind: 'S', T: id})
		return
	}
	switch {
	case len(op) > 0 && op[0] == '"':
		s, err := strconv.Unquote(op)
		if err != nil {
			s = op
		}
		*out = append(*out, Seg{Kind: 'L', Lit: s})
	case op == "nil" || op == `""`:
	case strings.HasPrefix(op, "make:slice") && len(tm.Args) == 1 && t.terms[tm.Args[0]].Op == "0":
		// make([]T, 0, cap): an empty slice with room to append — contributes no bytes
	case op == "concat" || op == "append":
		for _, a := range tm.Args {
			t.layout(a, out, depth+1)
		}
	case op == "arr":
		// a byte array/variadic literal: constant elements are literal bytes
		for _, a := range tm.Args {
			if n, err := strconv.Atoi(t.terms[a].Op); err == nil && n >= 0 && n < 256 {
				*out = append(*out, Seg{Kind: 'L', Lit: string([]byte{byte(n)})})
			} else {
				*out = append(*out, Seg{Kind: 'S', T: a})
			}
		}
	case op == "conv:bytes" || op == "conv:string":
		t.layout(tm.Args[0], out, depth+1)
	case op == "call:fmt.Sprintf" || op == "call:fmt.Appendf" || op == "call:fmt.Sprint":
		args := tm.Args
		if op == "call:fmt.Appendf" {
			if len(args) < 2 {
				*out = append(*out, Seg{Kind: 'S', T: id})
				return
			}
			t.layout(args[0], out, depth+1)
			args = args[1:]
		}
		if op == "call:fmt.Sprint" || len(args) == 0 {
			*out = append(*out, Seg{Kind: 'S', T: id})
			return
		}
		f := t.terms[args[0]].Op
		fs, err := strconv.Unquote(f)
		if err != nil {
			*out = append(*out, Seg{Kind: 'S', T: id})
			return
		}
		rest := args[1:]
		ai := 0
		for i := 0; i < len(fs); i++ {
			if fs[i] != '%' {
				j := strings.IndexByte(fs[i:], '%')
				if j < 0 {
					j = len(fs) - i
				}
				*out = append(*out, Seg{Kind: 'L', Lit: fs[i : i+j]})
				i += j - 1
				continue
			}
			if i+1 >= len(fs) {
				break
			}
			v := fs[i+1]
			i++
			if v == '%' {
				*out = append(*out, Seg{Kind: 'L', Lit: "%"})
				continue
			}
			if ai >= len(rest) {
				*out = append(*out, Seg{Kind: 'S', T: id})
				return
			}
			a := rest[ai]
			ai++
			switch v {
			case 's', 'v':
				t.layout(a, out, depth+1)
			case 'd':
				*out = append(*out, Seg{Kind: 'D', T: a})
			default:
				*out = append(*out, Seg{Kind: 'S', T: a})
			}
		}
	case op == "call:sdk.Uint64ToBigEndian":
		*out = append(*out, Seg{Kind: '8', T: tm.Args[0]})
	case op == "call:strconv.FormatUint" || op == "call:strconv.Itoa" || op == "call:strconv.FormatInt":
		*out = append(*out, Seg{Kind: 'D', T: tm.Args[0]})
	case op == "call:crypto/sha256.Sum256" || op == "call:github.com/cometbft/cometbft/crypto/tmhash.Sum":
		*out = append(*out, Seg{Kind: 'H', T: tm.Args[0]})
	case op == "call:core/24-host.MustParseClientStatePath":
		*out = append(*out, Seg{Kind: 'S', T: id})
	default:
		*out = append(*out, Seg{Kind: 'S', T: id})
	}
}

// LayoutString renders a layout with {s} {d} {8} {H} placeholders.
func (t *Table) LayoutString(segs []Seg) string {
	var sb strings.Builder
	for _, s := range segs {
		switch s.Kind {
		case 'L':
			sb.WriteString(s.Lit)
		case 'S':
			sb.WriteString("{s}")
		case 'D':
			sb.WriteString("{d}")
		case '8':
			sb.WriteString("{8}")
		case 'H':
			sb.WriteString("{H}")
		}
	}
	return sb.String()
}

// matchKey implements ~key(TEMPLATE, p1, p2, ...): the term's layout rendered
// with placeholders equals TEMPLATE and the placeholder terms match p1.. in order.
func (t *Table) matchKey(p *Pat, id ID, env Env, yield func(Env) bool) bool {
	if len(p.Args) == 0 {
		return false
	}
	tmpl, err := strconv.Unquote(p.Args[0].Name)
	if err != nil {
		return false
	}
	segs := t.Layout(id)
	if t.LayoutString(segs) != tmpl {
		return false
	}
	var vars []ID
	for _, s := range segs {
		if s.Kind != 'L' {
			vars = append(vars, s.T)
		}
	}
	ps := p.Args[1:]
	if len(ps) != len(vars) {
		if p.RestTail && len(ps) <= len(vars) {
			vars = vars[:len(ps)]
		} else {
			return false
		}
	}
	return t.matchArgs(ps, vars, env, yield)
}
