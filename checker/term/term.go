// Package term implements hash-consed symbolic terms and a small pattern
// language over them. Terms are the vocabulary in which the abstract
// interpreter (package interp) states facts and effects.
package term

import (
	"fmt"
	"sort"
	"strings"
)

// ID identifies an interned term. 0 is never a valid term.
type ID int32

// Term is an operator applied to arguments. Site distinguishes two executions
// of an impure operation (a call whose result may differ between sites); it is
// part of the identity of the term but is ignored by pattern matching.
type Term struct {
	Op   string
	Args []ID
	Site int32
	dep  int16 // depth
	opq  bool  // contains an activation-local opaque leaf
}

type Table struct {
	terms []Term
	index map[string]ID
	strs  map[ID]string
	// Alias: equalities valid on the path class being matched (set by the rule evaluator from "is" atoms,
	// nil otherwise): a term that fails to match a pattern is retried as its alias.
	Alias map[ID]ID
}

// AliasesOf collects the is(x, y) atoms of a set as a map x -> y (nil when there is none).
func (t *Table) AliasesOf(set Set) map[ID]ID {
	var m map[ID]ID
	for _, id := range set {
		tm := &t.terms[id]
		if tm.Op == "is" && len(tm.Args) == 2 {
			if m == nil {
				m = map[ID]ID{}
			}
			m[tm.Args[0]] = tm.Args[1]
		}
	}
	return m
}

func NewTable() *Table {
	return &Table{terms: make([]Term, 1), index: map[string]ID{}, strs: map[ID]string{}}
}

const MaxDepth = 60

func (t *Table) key(op string, site int32, args []ID) string {
	var sb strings.Builder
	sb.WriteString(op)
	sb.WriteByte(0)
	fmt.Fprintf(&sb, "%d", site)
	for _, a := range args {
		fmt.Fprintf(&sb, ",%d", a)
	}
	return sb.String()
}

// Mk interns op(args...) at site 0.
func (t *Table) Mk(op string, args ...ID) ID { return t.MkSite(op, 0, args...) }

func (t *Table) MkSite(op string, site int32, args ...ID) ID {
	k := t.key(op, site, args)
	if id, ok := t.index[k]; ok {
		return id
	}
	d := 0
	opq := IsOpaqueOp(op)
	for _, a := range args {
		if int(t.terms[a].dep) > d {
			d = int(t.terms[a].dep)
		}
		if t.terms[a].opq {
			opq = true
		}
	}
	if d+1 > MaxDepth {
		return t.MkSite("top#deep", site)
	}
	id := ID(len(t.terms))
	t.terms = append(t.terms, Term{Op: op, Args: append([]ID(nil), args...), Site: site, dep: int16(d + 1), opq: opq})
	t.index[k] = id
	return id
}

// IsOpaqueOp reports ops that denote activation-local unknowns.
func IsOpaqueOp(op string) bool {
	return strings.HasPrefix(op, "top#") || strings.HasPrefix(op, "phi#") || strings.HasPrefix(op, "addr#") || strings.HasPrefix(op, "esc#")
}

func (t *Table) Get(id ID) *Term { return &t.terms[id] }
func (t *Table) Op(id ID) string { return t.terms[id].Op }
func (t *Table) Args(id ID) []ID { return t.terms[id].Args }

// Opaque reports whether the term mentions an activation-local unknown.
func (t *Table) Opaque(id ID) bool { return t.terms[id].opq }

func (t *Table) String(id ID) string {
	if id == 0 {
		return "<none>"
	}
	if s, ok := t.strs[id]; ok {
		return s
	}
	tm := &t.terms[id]
	var sb strings.Builder
	sb.WriteString(tm.Op)
	if tm.Site != 0 {
		fmt.Fprintf(&sb, "@%d", tm.Site)
	}
	if len(tm.Args) > 0 {
		sb.WriteByte('(')
		for i, a := range tm.Args {
			if i > 0 {
				sb.WriteString(", ")
			}
			sb.WriteString(t.String(a))
		}
		sb.WriteByte(')')
	}
	s := sb.String()
	t.strs[id] = s
	return s
}

// Subst replaces leaves according to m (applied bottom-up).
func (t *Table) Contains(id ID, pred func(*Term) bool) bool {
	tm := &t.terms[id]
	if pred(tm) {
		return true
	}
	for _, a := range tm.Args {
		if t.Contains(a, pred) {
			return true
		}
	}
	return false
}

// ---------------------------------------------------------------- sets

// Set is an immutable sorted set of term IDs.
type Set []ID

func (s Set) Has(id ID) bool {
	i := sort.Search(len(s), func(i int) bool { return s[i] >= id })
	return i < len(s) && s[i] == id
}

func (s Set) Add(id ID) Set {
	i := sort.Search(len(s), func(i int) bool { return s[i] >= id })
	if i < len(s) && s[i] == id {
		return s
	}
	n := make(Set, len(s)+1)
	copy(n, s[:i])
	n[i] = id
	copy(n[i+1:], s[i:])
	return n
}

func (s Set) Union(o Set) Set {
	if len(o) == 0 {
		return s
	}
	if len(s) == 0 {
		return o
	}
	n := make(Set, 0, len(s)+len(o))
	i, j := 0, 0
	for i < len(s) && j < len(o) {
		switch {
		case s[i] < o[j]:
			n = append(n, s[i])
			i++
		case s[i] > o[j]:
			n = append(n, o[j])
			j++
		default:
			n = append(n, s[i])
			i++
			j++
		}
	}
	n = append(n, s[i:]...)
	n = append(n, o[j:]...)
	return n
}

func (s Set) Intersect(o Set) Set {
	n := make(Set, 0, min(len(s), len(o)))
	i, j := 0, 0
	for i < len(s) && j < len(o) {
		switch {
		case s[i] < o[j]:
			i++
		case s[i] > o[j]:
			j++
		default:
			n = append(n, s[i])
			i++
			j++
		}
	}
	return n
}

// IntersectLen is len(s.Intersect(o)) without allocating.
func (s Set) IntersectLen(o Set) int {
	n, i, j := 0, 0, 0
	for i < len(s) && j < len(o) {
		switch {
		case s[i] < o[j]:
			i++
		case s[i] > o[j]:
			j++
		default:
			n++
			i++
			j++
		}
	}
	return n
}

func (s Set) Equal(o Set) bool {
	if len(s) != len(o) {
		return false
	}
	for i := range s {
		if s[i] != o[i] {
			return false
		}
	}
	return true
}
