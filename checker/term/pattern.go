package term

import (
	"fmt"
	"path"
	"strings"
)

// Pat is a parsed pattern.
//
//	_            any term
//	?x           variable (consistent binding)
//	OP           a term whose operator matches the glob OP, any arguments
//	OP(p1,p2)    operator glob with argument patterns; a trailing "..." accepts
//	             any further arguments, a leading "..." any preceding ones
//	"text" 12    constants (operator is the literal itself)
//	~in(p)       any term with a sub-term matching p (including itself)
//	~or(p,q,..)  alternatives
//	~wf(F,p)     a struct value whose field F was last set to a value matching p
//	~not(p)      succeeds iff p does not match (binds nothing)
type Pat struct {
	Kind     byte // '_', '?', 'o'
	Name     string
	Args     []*Pat
	HasArgs  bool
	RestTail bool
	RestHead bool
	Src      string
}

type Env map[string]ID

func (e Env) clone() Env {
	n := make(Env, len(e)+2)
	for k, v := range e {
		n[k] = v
	}
	return n
}

type parser struct {
	s string
	i int
}

func ParsePat(s string) (*Pat, error) {
	p := &parser{s: s}
	pt, err := p.parse()
	if err != nil {
		return nil, fmt.Errorf("pattern %q: %v", s, err)
	}
	p.ws()
	if p.i != len(p.s) {
		return nil, fmt.Errorf("pattern %q: trailing text at %d", s, p.i)
	}
	pt.Src = s
	return pt, nil
}

func MustPat(s string) *Pat {
	p, err := ParsePat(s)
	if err != nil {
		panic(err)
	}
	return p
}

func (p *parser) ws() {
	for p.i < len(p.s) && (p.s[p.i] == ' ' || p.s[p.i] == '\n' || p.s[p.i] == '\t') {
		p.i++
	}
}

func (p *parser) parse() (*Pat, error) {
	p.ws()
	if p.i >= len(p.s) {
		return nil, fmt.Errorf("unexpected end")
	}
	c := p.s[p.i]
	if c == '"' {
		j := p.i + 1
		for j < len(p.s) && p.s[j] != '"' {
			if p.s[j] == '\\' {
				j++
			}
			j++
		}
		if j >= len(p.s) {
			return nil, fmt.Errorf("unterminated string")
		}
		op := p.s[p.i : j+1]
		p.i = j + 1
		return &Pat{Kind: 'o', Name: op, HasArgs: true}, nil
	}
	start := p.i
	for p.i < len(p.s) && !strings.ContainsRune("(), \n\t", rune(p.s[p.i])) {
		p.i++
	}
	tok := p.s[start:p.i]
	if tok == "" {
		return nil, fmt.Errorf("empty token at %d", start)
	}
	if tok == "_" {
		return &Pat{Kind: '_'}, nil
	}
	if tok[0] == '?' {
		return &Pat{Kind: '?', Name: tok[1:]}, nil
	}
	pt := &Pat{Kind: 'o', Name: tok}
	p.ws()
	if p.i < len(p.s) && p.s[p.i] == '(' {
		p.i++
		pt.HasArgs = true
		for {
			p.ws()
			if p.i < len(p.s) && p.s[p.i] == ')' {
				p.i++
				break
			}
			if strings.HasPrefix(p.s[p.i:], "...") {
				p.i += 3
				if len(pt.Args) == 0 {
					pt.RestHead = true
				} else {
					pt.RestTail = true
				}
			} else {
				a, err := p.parse()
				if err != nil {
					return nil, err
				}
				pt.Args = append(pt.Args, a)
			}
			p.ws()
			if p.i < len(p.s) && p.s[p.i] == ',' {
				p.i++
				continue
			}
			if p.i < len(p.s) && p.s[p.i] == ')' {
				p.i++
				break
			}
			return nil, fmt.Errorf("expected , or ) at %d", p.i)
		}
		if pt.RestHead && len(pt.Args) == 0 {
			pt.RestHead = false
			pt.RestTail = true
		}
	}
	// field paths do not distinguish a pointer from its pointee
	if strings.HasPrefix(pt.Name, "field:") && len(pt.Args) == 1 && pt.Args[0].Kind == 'o' && pt.Args[0].Name == "deref" && len(pt.Args[0].Args) == 1 {
		pt.Args[0] = pt.Args[0].Args[0]
	}
	return pt, nil
}

var commutative = map[string]bool{"eq": true, "ne": true, "binop:+": true, "binop:*": true, "binop:&": true, "binop:|": true}

var globCache = map[[2]string]bool{}

func globMatch(glob, s string) bool {
	if glob == s {
		return true
	}
	if !strings.ContainsAny(glob, "*?[") {
		return false
	}
	k := [2]string{glob, s}
	if v, ok := globCache[k]; ok {
		return v
	}
	v := globMatchSlow(glob, s)
	globCache[k] = v
	return v
}

func globMatchSlow(glob, s string) bool {
	// path.Match treats '/' specially; replace it.
	g := strings.ReplaceAll(glob, "/", "\x01")
	x := strings.ReplaceAll(s, "/", "\x01")
	ok, err := path.Match(g, x)
	return err == nil && ok
}

// Match matches pattern p against term id, extending env. It calls yield for
// every way the pattern matches; yield returns true to stop.
func (t *Table) Match(p *Pat, id ID, env Env, yield func(Env) bool) bool {
	switch p.Kind {
	case '_':
		return yield(env)
	case '?':
		if b, ok := env[p.Name]; ok {
			if b == id || (t.Alias != nil && (t.Alias[b] == id || t.Alias[id] == b)) {
				return yield(env)
			}
			return false
		}
		n := env.clone()
		n[p.Name] = id
		return yield(n)
	}
	// matching modulo the equalities known on the current path class (Alias: name of a call result -> the
	// value the inlined callee returned on this class)
	if t.Alias != nil {
		if to, ok := t.Alias[id]; ok && to != id {
			if t.matchBody(p, id, env, yield) {
				return true
			}
			return t.Match(p, to, env, yield)
		}
	}
	return t.matchBody(p, id, env, yield)
}

func (t *Table) matchBody(p *Pat, id ID, env Env, yield func(Env) bool) bool {
	tm := &t.terms[id]
	switch p.Name {
	case "~in":
		if t.Match(p.Args[0], id, env, yield) {
			return true
		}
		for _, a := range tm.Args {
			if t.Match(p, a, env, yield) {
				return true
			}
		}
		return false
	case "~or":
		for _, a := range p.Args {
			if t.Match(a, id, env, yield) {
				return true
			}
		}
		return false
	case "~key":
		return t.matchKey(p, id, env, yield)
	case "~and":
		return t.matchAnd(p.Args, id, env, yield)
	case "~not":
		if t.Match(p.Args[0], id, env, func(Env) bool { return true }) {
			return false
		}
		return yield(env)
	case "~wf":
		f := p.Args[0].Name
		cur := id
		for {
			c := &t.terms[cur]
			if !strings.HasPrefix(c.Op, "with:") {
				// fall through to field of base: not set explicitly
				return false
			}
			if c.Op == "with:"+f {
				return t.Match(p.Args[1], c.Args[1], env, yield)
			}
			cur = c.Args[0]
		}
	}
	if !globMatch(p.Name, tm.Op) {
		return false
	}
	if !p.HasArgs {
		return yield(env)
	}
	args := tm.Args
	n := len(p.Args)
	switch {
	case p.RestTail:
		if len(args) < n {
			return false
		}
		args = args[:n]
	case p.RestHead:
		if len(args) < n {
			return false
		}
		args = args[len(args)-n:]
	default:
		if len(args) != n {
			return false
		}
	}
	if t.matchArgs(p.Args, args, env, yield) {
		return true
	}
	if n == 2 && commutative[tm.Op] && !p.RestTail && !p.RestHead {
		return t.matchArgs(p.Args, []ID{args[1], args[0]}, env, yield)
	}
	return false
}

func (t *Table) matchArgs(ps []*Pat, args []ID, env Env, yield func(Env) bool) bool {
	if len(ps) == 0 {
		return yield(env)
	}
	return t.Match(ps[0], args[0], env, func(e Env) bool {
		return t.matchArgs(ps[1:], args[1:], e, yield)
	})
}

// MatchSet finds an assignment such that every pattern matches some member of
// set (conjunctive query with shared variables).
func (t *Table) MatchSet(ps []*Pat, set Set, env Env, yield func(Env) bool) bool {
	if len(ps) == 0 {
		return yield(env)
	}
	if t.Alias == nil {
		if al := t.AliasesOf(set); al != nil {
			t.Alias = al
			defer func() { t.Alias = nil }()
		}
	}
	// ~is(?v, p): the value bound to ?v (by the environment or an earlier
	// pattern) matches p; not matched against the set
	if ps[0].Kind == 'o' && ps[0].Name == "~is" && len(ps[0].Args) == 2 {
		v, ok := env[ps[0].Args[0].Name]
		if !ok {
			return false
		}
		return t.Match(ps[0].Args[1], v, env, func(e Env) bool { return t.MatchSet(ps[1:], set, e, yield) })
	}
	for _, id := range set {
		if t.Match(ps[0], id, env, func(e Env) bool {
			return t.MatchSet(ps[1:], set, e, yield)
		}) {
			return true
		}
	}
	return false
}

func (t *Table) matchAnd(ps []*Pat, id ID, env Env, yield func(Env) bool) bool {
	if len(ps) == 0 {
		return yield(env)
	}
	return t.Match(ps[0], id, env, func(e Env) bool { return t.matchAnd(ps[1:], id, e, yield) })
}

// Any reports whether some member of set matches p under env.
func (t *Table) Any(p *Pat, set Set, env Env) bool {
	if t.Alias == nil {
		// facts of one path class: match modulo the equalities it contains
		if al := t.AliasesOf(set); al != nil {
			t.Alias = al
			defer func() { t.Alias = nil }()
		}
	}
	for _, id := range set {
		if t.Match(p, id, env, func(Env) bool { return true }) {
			return true
		}
	}
	return false
}
