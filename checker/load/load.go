// Package load type-checks /repo's production packages from the current
// working tree and builds SSA for them.
package load

import (
	"fmt"
	"go/ast"
	"go/constant"
	"go/token"
	"go/types"
	"os"
	"sort"
	"strings"

	"golang.org/x/tools/go/packages"
	"golang.org/x/tools/go/ssa"
	"golang.org/x/tools/go/ssa/ssautil"
)

type Program struct {
	Dir      string
	Fset     *token.FileSet
	Pkgs     []*packages.Package // root packages
	All      map[string]*packages.Package
	SSA      *ssa.Program
	SSAPkgs  []*ssa.Package
	Funcs    map[string]*ssa.Function // by Key
	InScope  map[*ssa.Package]bool
	consts   map[string]string // "<type string>|<value>" -> qualified const name
	impls    map[*types.Interface][]types.Type
	named    []*types.Named
	NumFuncs int
	Overlay  map[string][]byte
}

// ShortPkg strips the ibc-go module prefixes from an import path.
func ShortPkg(p string) string {
	for _, pre := range []string{
		"github.com/cosmos/ibc-go/v11/modules/",
		"github.com/cosmos/ibc-go/modules/light-clients/08-wasm/v11",
		"github.com/cosmos/ibc-go/v11/",
	} {
		if strings.HasPrefix(p, pre) {
			r := strings.TrimPrefix(p, pre)
			if pre == "github.com/cosmos/ibc-go/modules/light-clients/08-wasm/v11" {
				return "light-clients/08-wasm" + r
			}
			return r
		}
	}
	if a, ok := extAlias[p]; ok {
		return a
	}
	return p
}

var extAlias = map[string]string{
	"github.com/cosmos/cosmos-sdk/types":                "sdk",
	"cosmossdk.io/errors":                               "errorsmod",
	"cosmossdk.io/math":                                 "sdkmath",
	"cosmossdk.io/core/store":                           "corestore",
	"github.com/cosmos/cosmos-sdk/store/v2/types":       "storetypes",
	"github.com/cosmos/cosmos-sdk/store/v2/prefix":      "prefix",
	"github.com/cosmos/cosmos-sdk/codec":                "codec",
	"github.com/cosmos/cosmos-sdk/x/bank/types":         "banktypes",
	"github.com/cosmos/cosmos-sdk/x/auth/types":         "authtypes",
	"github.com/cosmos/cosmos-sdk/telemetry":            "telemetry",
	"github.com/cosmos/gogoproto/proto":                 "proto",
	"github.com/cometbft/cometbft/light":                "light",
	"github.com/cometbft/cometbft/types":                "cmttypes",
	"github.com/cosmos/ics23/go":                        "ics23",
	"cosmossdk.io/collections":                          "collections",
	"github.com/cosmos/cosmos-sdk/types/errors":         "sdkerrors",
	"github.com/cosmos/cosmos-sdk/types/address":        "address",
	"github.com/cosmos/cosmos-sdk/x/authz":              "authz",
	"github.com/cosmos/cosmos-sdk/codec/unknownproto":   "unknownproto",
	"github.com/cosmos/cosmos-sdk/codec/types":          "codectypes",
	"github.com/ethereum/go-ethereum/accounts/abi":      "abi",
	"github.com/ethereum/go-ethereum/crypto":            "ethcrypto",
	"github.com/ethereum/go-ethereum/common":            "ethcommon",
}

func IsIBCPath(p string) bool {
	return strings.HasPrefix(p, "github.com/cosmos/ibc-go/")
}

// nonProd reports packages that are loaded but outside rule scope.
func nonProd(p string) bool {
	s := ShortPkg(p)
	return strings.HasPrefix(s, "testing") || strings.Contains(s, "/testing") || strings.HasSuffix(s, "/simulation") ||
		strings.Contains(s, "/simulation/") || strings.Contains(s, "/client/cli") || strings.HasSuffix(s, "/mock") || strings.Contains(s, "/mock/")
}

type Config struct {
	Dir      string   // module directory
	Patterns []string // e.g. ./modules/...
	Tags     string
	Overlay  map[string][]byte
}

func Load(cfg Config) (*Program, error) {
	fset := token.NewFileSet()
	pc := &packages.Config{
		Mode:    packages.LoadSyntax | packages.NeedModule,
		Dir:     cfg.Dir,
		Fset:    fset,
		Tests:   false,
		Overlay: cfg.Overlay,
		Env:     append(os.Environ(), "GOFLAGS=-mod=mod", "GOPROXY=off", "GOSUMDB=off", "GOTOOLCHAIN=local", "GOWORK=off", "PATH=/opt/veriftools/go1.26.8/bin:"+os.Getenv("PATH")),
	}
	if cfg.Tags != "" {
		pc.BuildFlags = []string{"-tags=" + cfg.Tags}
	}
	pkgs, err := packages.Load(pc, cfg.Patterns...)
	if err != nil {
		return nil, err
	}
	if len(pkgs) == 0 {
		return nil, fmt.Errorf("no packages loaded from %s %v", cfg.Dir, cfg.Patterns)
	}
	var errs []string
	packages.Visit(pkgs, nil, func(p *packages.Package) {
		for _, e := range p.Errors {
			if IsIBCPath(p.PkgPath) {
				errs = append(errs, e.Error())
			}
		}
	})
	if len(errs) > 0 {
		sort.Strings(errs)
		if len(errs) > 10 {
			errs = errs[:10]
		}
		return nil, fmt.Errorf("type-check errors: %s", strings.Join(errs, "; "))
	}
	prog, spkgs := ssautil.Packages(pkgs, ssa.InstantiateGenerics)
	for _, sp := range spkgs {
		if sp != nil {
			sp.Build()
		}
	}
	P := &Program{Dir: cfg.Dir, Fset: fset, Pkgs: pkgs, SSA: prog, All: map[string]*packages.Package{},
		Funcs: map[string]*ssa.Function{}, InScope: map[*ssa.Package]bool{}, consts: map[string]string{},
		impls: map[*types.Interface][]types.Type{}, Overlay: cfg.Overlay}
	packages.Visit(pkgs, nil, func(p *packages.Package) { P.All[p.PkgPath] = p })
	for i, sp := range spkgs {
		if sp == nil {
			continue
		}
		P.SSAPkgs = append(P.SSAPkgs, sp)
		if !nonProd(pkgs[i].PkgPath) {
			P.InScope[sp] = true
		}
	}
	// function index
	for fn := range ssautil.AllFunctions(prog) {
		if fn.Pkg == nil || !P.InScope[fn.Pkg] || fn.Blocks == nil {
			continue
		}
		if fn.Parent() != nil || fn.Synthetic != "" {
			continue
		}
		P.Funcs[FuncKey(fn)] = fn
		P.NumFuncs++
	}
	// const and named-type index
	for _, p := range pkgs {
		sc := p.Types.Scope()
		for _, n := range sc.Names() {
			switch o := sc.Lookup(n).(type) {
			case *types.Const:
				if _, ok := o.Type().(*types.Named); ok && (o.Val().Kind() == constant.Int || o.Val().Kind() == constant.String) {
					k := types.TypeString(o.Type(), nil) + "|" + o.Val().ExactString()
					name := ShortPkg(p.PkgPath) + "." + n
					if old, ok := P.consts[k]; !ok || name < old {
						P.consts[k] = name
					}
				}
			case *types.TypeName:
				if nt, ok := o.Type().(*types.Named); ok && !o.IsAlias() {
					if !nonProd(p.PkgPath) {
						P.named = append(P.named, nt)
					}
				}
			}
		}
	}
	return P, nil
}

// FuncKey is the stable name of a function: shortpkg.[Recv.]Name
func FuncKey(fn *ssa.Function) string {
	if fn == nil {
		return "<nil>"
	}
	if fn.Parent() != nil {
		return FuncKey(fn.Parent()) + "$" + strings.TrimPrefix(fn.Name(), fn.Parent().Name()+"$")
	}
	pkg := ""
	if fn.Pkg != nil {
		pkg = ShortPkg(fn.Pkg.Pkg.Path())
	} else if o := fn.Object(); o != nil && o.Pkg() != nil {
		pkg = ShortPkg(o.Pkg().Path())
	}
	if recv := fn.Signature.Recv(); recv != nil {
		return pkg + "." + recvName(recv.Type()) + "." + fn.Name()
	}
	return pkg + "." + fn.Name()
}

func recvName(t types.Type) string {
	if p, ok := t.(*types.Pointer); ok {
		t = p.Elem()
	}
	if n, ok := t.(*types.Named); ok {
		return n.Obj().Name()
	}
	return t.String()
}

// ObjKey names a *types.Func (possibly abstract interface method).
func ObjKey(f *types.Func) string {
	pkg := ""
	if f.Pkg() != nil {
		pkg = ShortPkg(f.Pkg().Path())
	}
	sig := f.Type().(*types.Signature)
	if recv := sig.Recv(); recv != nil {
		return pkg + "." + recvName(recv.Type()) + "." + f.Name()
	}
	return pkg + "." + f.Name()
}

// ConstName returns the declared name of an integer constant of a named type.
func (P *Program) ConstName(t types.Type, v constant.Value) (string, bool) {
	if _, ok := t.(*types.Named); !ok || v == nil || (v.Kind() != constant.Int && v.Kind() != constant.String) {
		return "", false
	}
	n, ok := P.consts[types.TypeString(t, nil)+"|"+v.ExactString()]
	return n, ok
}

// Implementers returns the in-scope concrete types whose method set satisfies iface.
func (P *Program) Implementers(iface *types.Interface) []types.Type {
	if r, ok := P.impls[iface]; ok {
		return r
	}
	var out []types.Type
	for _, nt := range P.named {
		if types.IsInterface(nt) {
			continue
		}
		if nt.TypeParams().Len() > 0 {
			continue
		}
		if types.Implements(nt, iface) {
			out = append(out, nt)
		} else if pt := types.NewPointer(nt); types.Implements(pt, iface) {
			out = append(out, pt)
		}
	}
	P.impls[iface] = out
	return out
}

// Pos renders a position relative to the module dir.
func (P *Program) Pos(p token.Pos) string {
	if !p.IsValid() {
		return "-"
	}
	ps := P.Fset.Position(p)
	f := ps.Filename
	if i := strings.Index(f, "/modules/"); i >= 0 {
		f = f[i+1:]
	}
	return fmt.Sprintf("%s:%d", f, ps.Line)
}

// FileOf returns the syntax file containing pos.
func (P *Program) FileOf(pos token.Pos) *ast.File {
	for _, p := range P.Pkgs {
		for _, f := range p.Syntax {
			if f.FileStart <= pos && pos <= f.FileEnd {
				return f
			}
		}
	}
	return nil
}

// IsGenerated reports files outside rule scope (protobuf output).
func IsGenerated(filename string) bool {
	return strings.HasSuffix(filename, ".pb.go") || strings.HasSuffix(filename, ".pb.gw.go")
}
