// Package ordeval evaluates small pure go/ssa functions over representatives
// of order types. A function that touches its unsigned integer inputs only
// through comparisons (checked: any arithmetic on an input-derived value
// aborts the evaluation as "not comparison-only") behaves identically on all
// inputs with the same weak ordering relative to each other and to the
// constants it mentions; enumerating one representative per ordering is
// therefore exhaustive. The evaluator is this checker's own interpreter of the
// SSA form; ibc-go code is not compiled or run.
package ordeval

import (
	"fmt"
	"go/constant"
	"go/token"
	"go/types"

	"golang.org/x/tools/go/ssa"
)

// Value is a runtime value of the evaluator.
type Value interface{}

type Struct struct {
	Fields []Value
	T      types.Type
}

type ptr struct {
	cell *Value
}

type bigInt struct{ v uint64 }

// ErrUndecided is returned when the function leaves the supported fragment.
type ErrUndecided struct{ Why string }

func (e *ErrUndecided) Error() string { return "undecided: " + e.Why }

// ErrPanic is returned when the evaluated path panics.
type ErrPanic struct{}

func (e *ErrPanic) Error() string { return "panic" }

type Evaluator struct {
	InScope func(fn *ssa.Function) bool
	Steps   int
}

// tainted integers: values derived from inputs. Arithmetic on them is refused.
type num struct {
	v     uint64
	input bool
}

func (ev *Evaluator) Call(fn *ssa.Function, args []Value) ([]Value, error) {
	if fn.Blocks == nil {
		return nil, &ErrUndecided{"no body: " + fn.String()}
	}
	env := map[ssa.Value]Value{}
	for i, p := range fn.Params {
		env[p] = args[i]
	}
	b := fn.Blocks[0]
	var prev *ssa.BasicBlock
	for {
		for _, ins := range b.Instrs {
			ev.Steps++
			if ev.Steps > 200000000 {
				return nil, &ErrUndecided{"step limit"}
			}
			switch ins := ins.(type) {
			case *ssa.Phi:
				for i, p := range b.Preds {
					if p == prev {
						v, err := ev.val(env, ins.Edges[i])
						if err != nil {
							return nil, err
						}
						env[ins] = v
					}
				}
			case *ssa.DebugRef:
			case *ssa.If:
				c, err := ev.val(env, ins.Cond)
				if err != nil {
					return nil, err
				}
				prev = b
				if c.(bool) {
					b = b.Succs[0]
				} else {
					b = b.Succs[1]
				}
				goto next
			case *ssa.Jump:
				prev = b
				b = b.Succs[0]
				goto next
			case *ssa.Return:
				out := make([]Value, len(ins.Results))
				for i, r := range ins.Results {
					v, err := ev.val(env, r)
					if err != nil {
						return nil, err
					}
					out[i] = v
				}
				return out, nil
			case *ssa.Panic:
				return nil, &ErrPanic{}
			default:
				if err := ev.exec(env, ins); err != nil {
					return nil, err
				}
			}
		}
		return nil, &ErrUndecided{"fell off block"}
	next:
	}
}

func zero(t types.Type) Value {
	switch u := t.Underlying().(type) {
	case *types.Struct:
		if n, ok := t.(*types.Named); ok && n.Obj().Pkg() != nil && n.Obj().Pkg().Path() == "math/big" && n.Obj().Name() == "Int" {
			return &bigInt{}
		}
		s := &Struct{T: t}
		for i := 0; i < u.NumFields(); i++ {
			s.Fields = append(s.Fields, zero(u.Field(i).Type()))
		}
		return s
	case *types.Basic:
		switch {
		case u.Info()&types.IsBoolean != 0:
			return false
		case u.Info()&types.IsString != 0:
			return ""
		default:
			return num{}
		}
	}
	return nil
}

func copyVal(v Value) Value {
	if s, ok := v.(*Struct); ok {
		n := &Struct{T: s.T, Fields: make([]Value, len(s.Fields))}
		for i, f := range s.Fields {
			n.Fields[i] = copyVal(f)
		}
		return n
	}
	if b, ok := v.(*bigInt); ok {
		return &bigInt{b.v}
	}
	return v
}

func (ev *Evaluator) val(env map[ssa.Value]Value, v ssa.Value) (Value, error) {
	switch v := v.(type) {
	case *ssa.Const:
		if v.Value == nil {
			return zero(v.Type()), nil
		}
		switch v.Value.Kind() {
		case constant.Bool:
			return constant.BoolVal(v.Value), nil
		case constant.Int:
			if i, ok := constant.Int64Val(v.Value); ok {
				return num{v: uint64(i)}, nil
			}
			if u, ok := constant.Uint64Val(v.Value); ok {
				return num{v: u}, nil
			}
		case constant.String:
			return constant.StringVal(v.Value), nil
		}
		return nil, &ErrUndecided{"constant " + v.String()}
	case *ssa.Function:
		return v, nil
	}
	if x, ok := env[v]; ok {
		return x, nil
	}
	return nil, &ErrUndecided{"unbound value " + v.Name() + " " + fmt.Sprintf("%T", v)}
}

func (ev *Evaluator) exec(env map[ssa.Value]Value, ins ssa.Instruction) error {
	switch ins := ins.(type) {
	case *ssa.Alloc:
		z := zero(ins.Type().(*types.Pointer).Elem())
		env[ins] = &ptr{cell: &z}
	case *ssa.Store:
		a, err := ev.val(env, ins.Addr)
		if err != nil {
			return err
		}
		v, err := ev.val(env, ins.Val)
		if err != nil {
			return err
		}
		p, ok := a.(*ptr)
		if !ok {
			return &ErrUndecided{"store through non-local pointer"}
		}
		*p.cell = copyVal(v)
	case *ssa.UnOp:
		x, err := ev.val(env, ins.X)
		if err != nil {
			return err
		}
		switch ins.Op {
		case token.MUL:
			p, ok := x.(*ptr)
			if !ok {
				return &ErrUndecided{"load through non-local pointer"}
			}
			env[ins] = copyVal(*p.cell)
		case token.NOT:
			env[ins] = !x.(bool)
		case token.SUB:
			n := x.(num)
			if n.input {
				return &ErrUndecided{"arithmetic on an input (negation)"}
			}
			env[ins] = num{v: -n.v}
		default:
			return &ErrUndecided{"unary " + ins.Op.String()}
		}
	case *ssa.FieldAddr:
		x, err := ev.val(env, ins.X)
		if err != nil {
			return err
		}
		p, ok := x.(*ptr)
		if !ok {
			return &ErrUndecided{"field address of non-local"}
		}
		s, ok := (*p.cell).(*Struct)
		if !ok {
			return &ErrUndecided{"field address of non-struct"}
		}
		env[ins] = &ptr{cell: &s.Fields[ins.Field]}
	case *ssa.Field:
		x, err := ev.val(env, ins.X)
		if err != nil {
			return err
		}
		s, ok := x.(*Struct)
		if !ok {
			return &ErrUndecided{"field of non-struct"}
		}
		env[ins] = s.Fields[ins.Field]
	case *ssa.BinOp:
		x, err := ev.val(env, ins.X)
		if err != nil {
			return err
		}
		y, err := ev.val(env, ins.Y)
		if err != nil {
			return err
		}
		switch xv := x.(type) {
		case bool:
			yv := y.(bool)
			switch ins.Op {
			case token.EQL:
				env[ins] = xv == yv
			case token.NEQ:
				env[ins] = xv != yv
			default:
				return &ErrUndecided{"bool op " + ins.Op.String()}
			}
		case num:
			yv, ok := y.(num)
			if !ok {
				return &ErrUndecided{"mixed operands"}
			}
			signed := false
			if b, ok := ins.X.Type().Underlying().(*types.Basic); ok && b.Info()&types.IsUnsigned == 0 {
				signed = true
			}
			lt := xv.v < yv.v
			if signed {
				lt = int64(xv.v) < int64(yv.v)
			}
			switch ins.Op {
			case token.EQL:
				env[ins] = xv.v == yv.v
			case token.NEQ:
				env[ins] = xv.v != yv.v
			case token.LSS:
				env[ins] = lt
			case token.LEQ:
				env[ins] = lt || xv.v == yv.v
			case token.GTR:
				env[ins] = !lt && xv.v != yv.v
			case token.GEQ:
				env[ins] = !lt
			default:
				if xv.input || yv.input {
					return &ErrUndecided{"arithmetic on an input (" + ins.Op.String() + "): not comparison-only"}
				}
				return &ErrUndecided{"arithmetic " + ins.Op.String()}
			}
		default:
			return &ErrUndecided{fmt.Sprintf("binop on %T", x)}
		}
	case *ssa.Convert:
		x, err := ev.val(env, ins.X)
		if err != nil {
			return err
		}
		n, ok := x.(num)
		if !ok {
			return &ErrUndecided{"conversion of non-integer"}
		}
		env[ins] = n // order-preserving for the ranges used (-1,0,1 and inputs kept unsigned)
	case *ssa.ChangeType:
		x, err := ev.val(env, ins.X)
		if err != nil {
			return err
		}
		env[ins] = x
	case *ssa.MakeInterface:
		x, err := ev.val(env, ins.X)
		if err != nil {
			return err
		}
		env[ins] = x
	case *ssa.ChangeInterface:
		x, err := ev.val(env, ins.X)
		if err != nil {
			return err
		}
		env[ins] = x
	case *ssa.TypeAssert:
		x, err := ev.val(env, ins.X)
		if err != nil {
			return err
		}
		if ins.CommaOk {
			env[ins] = []Value{x, true}
		} else {
			env[ins] = x
		}
	case *ssa.Extract:
		t, err := ev.val(env, ins.Tuple)
		if err != nil {
			return err
		}
		env[ins] = t.([]Value)[ins.Index]
	case *ssa.Call:
		return ev.call(env, ins)
	default:
		return &ErrUndecided{fmt.Sprintf("instruction %T", ins)}
	}
	return nil
}

func (ev *Evaluator) call(env map[ssa.Value]Value, ins *ssa.Call) error {
	c := &ins.Call
	var fn *ssa.Function
	var args []Value
	if c.IsInvoke() {
		// receiver's dynamic type: the struct value itself; resolve by method name on its type
		recv, err := ev.val(env, c.Value)
		if err != nil {
			return err
		}
		s, ok := recv.(*Struct)
		if !ok {
			return &ErrUndecided{"interface call on non-struct"}
		}
		prog := ins.Parent().Prog
		sel := prog.MethodSets.MethodSet(s.T).Lookup(c.Method.Pkg(), c.Method.Name())
		if sel == nil {
			return &ErrUndecided{"method not found " + c.Method.Name()}
		}
		fn = prog.MethodValue(sel)
		args = append(args, recv)
	} else {
		fn = c.StaticCallee()
	}
	for _, a := range c.Args {
		v, err := ev.val(env, a)
		if err != nil {
			return err
		}
		args = append(args, v)
	}
	if fn == nil {
		return &ErrUndecided{"dynamic call"}
	}
	// cmp.Compare on order-type representatives
	if o := fn.Origin(); o != nil && o.Pkg != nil && o.Pkg.Pkg.Path() == "cmp" && o.Name() == "Compare" && len(args) == 2 {
		a, ok1 := args[0].(num)
		b, ok2 := args[1].(num)
		if ok1 && ok2 {
			r := int64(0)
			if a.v < b.v {
				r = -1
			} else if a.v > b.v {
				r = 1
			}
			env[ins] = num{v: uint64(r)}
			return nil
		}
	}
	// math/big model
	if fn.Pkg == nil || fn.Pkg.Pkg.Path() == "math/big" || (fn.Object() != nil && fn.Object().Pkg() != nil && fn.Object().Pkg().Path() == "math/big") {
		name := fn.Name()
		switch name {
		case "SetUint64":
			p := args[0].(*ptr)
			b := (*p.cell).(*bigInt)
			b.v = args[1].(num).v
			env[ins] = args[0]
			return nil
		case "Cmp":
			a := (*args[0].(*ptr).cell).(*bigInt)
			b := (*args[1].(*ptr).cell).(*bigInt)
			r := int64(0)
			if a.v < b.v {
				r = -1
			} else if a.v > b.v {
				r = 1
			}
			env[ins] = num{v: uint64(r)}
			return nil
		}
		return &ErrUndecided{"unsupported external call " + fn.String()}
	}
	if ev.InScope != nil && !ev.InScope(fn) {
		return &ErrUndecided{"call outside the analysed packages: " + fn.String()}
	}
	res, err := ev.Call(fn, args)
	if err != nil {
		return err
	}
	switch len(res) {
	case 0:
	case 1:
		env[ins] = res[0]
	default:
		env[ins] = res
	}
	return nil
}

// Uint makes an input integer.
func Uint(v uint64) Value { return num{v: v, input: true} }

// AsInt reads an integer result as a signed value.
func AsInt(v Value) int64 { return int64(v.(num).v) }
