#!/bin/bash
# usage: check.sh <property-id> <quick|thorough>
# Rebuilds nothing cached about /repo: the checker loads and analyses /repo's
# current working tree on every invocation.
cd "$(dirname "$0")"
. ./env.sh
if [ ! -x bin/ibcverif ] || [ -n "$(find checker -newer bin/ibcverif -name '*.go' 2>/dev/null | head -1)" ]; then
  mkdir -p bin; (cd checker && go build -o ../bin/ibcverif .) || exit 2
fi
mkdir -p evidence/replays
exec bin/ibcverif check "$1" --tier "${2:-quick}"
