#!/bin/bash
# seedtest.sh <seed-name|patch-file> <prop>...: run the given checks on /repo with a change applied IN MEMORY
# (the tree is not touched, the real evidence files are not overwritten). For testing the checker only.
name=$1; shift
. /verif/env.sh
p=$name; [ -f "$p" ] || p=/verif/seeded/$name/patch.diff
for id in "$@"; do /verif/bin/ibcverif check $id --patch "$p" 2>&1 | grep -v "^KNOWN\|^analysing" | cut -c1-260 | tail -n 4; done
