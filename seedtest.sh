#!/bin/bash
# seedtest.sh <seed-name> <prop>...: apply a stored seeded change to /repo, run the given checks, revert
name=$1; shift
cd /repo && git apply /verif/seeded/$name/patch.diff || { echo "patch does not apply"; exit 2; }
for p in "$@"; do (cd /verif && ./check.sh $p quick 2>&1 | grep -v "^KNOWN" | cut -c1-260 | tail -n 4); done
git -C /repo checkout -- . ; git -C /repo status --short | head -3
