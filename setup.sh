#!/bin/bash
# Build the checker offline with go1.26.8 and warm the export-data cache for /repo.
set -e
cd "$(dirname "$0")"
. ./env.sh
mkdir -p bin evidence evidence/replays
(cd checker && go build -o ../bin/ibcverif .)
(cd /repo && go build ./modules/... >/dev/null 2>&1 || true)
(cd /repo/modules/light-clients/08-wasm && go build ./... >/dev/null 2>&1 || true)
echo setup-ok
